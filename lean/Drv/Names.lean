import Drv.Util
import TCV.Model.Names
open Lean
namespace Drv.Names
open TCV.Names

def handle (j : Json) : R Json := do
  let op ← str j "op"
  match op with
  | "find" =>
    let q ← str j "q"
    let names ← strList (← obj j "names")
    let det ← bool j "det"
    match findFull (chars q) (names.map chars) det with
    | .ok r => pure (Json.mkObj [("ok", jstr r)])
    | .error .notFound => pure (Json.mkObj [("error", "not_found")])
    | .error .ambiguous => pure (Json.mkObj [("error", "ambiguous")])
  | "glob" =>
    let pat ← str j "pat"
    let names ← strList (← obj j "names")
    pure (Json.mkObj [("selected", Json.arr ((globSelect (chars pat) (names.map chars)).map jstr).toArray)])
  | "class_name" =>
    let c ← str j "cls"
    pure (Json.mkObj [("name", jstr (classTaskName (chars c)))])
  | _ => throw "bad_op"

end Drv.Names
