import Drv.Util
import TCV.Model.Test
open Lean
namespace Drv.Test
open TCV TCV.TestM

abbrev V := Json

/-- `[name]` = no default, `[name, v]` = default `v`; `{"n": name, "k": name_in_config, "d"?: v}` when the config key differs -/
def declOf (j : Json) : R (Decl V) := do
  if let .ok n := j.getObjValAs? String "n" then
    let k ← str j "k"
    return { name := chars n, default := (j.getObjVal? "d").toOption, key := chars k }
  let a ← j.getArr?
  if h : a.size = 1 then pure { name := chars (← a[0].getStr?), default := none }
  else if h : a.size = 2 then pure { name := chars (← a[0].getStr?), default := some a[1] }
  else throw "decl"

structure ClsX where
  cls : Cls V
  /-- used inputs in use order: (label in the provenance term, index into the declared inputs) -/
  use : List (String × Nat)

def clsOf (j : Json) : R ClsX := do
  let ps ← (← arr j "params").toList.mapM declOf
  let ins ← (← arr j "inputs").toList.mapM declOf
  let use ← (← arr j "use").toList.mapM (fun u => do
    let a ← u.getArr?
    if h : a.size = 2 then pure ((← a[0].getStr?), (← a[1].getNat?)) else throw "use")
  pure { cls := { slug := chars (← str j "slug"), params := ps, inputs := ins, persist := (← bool j "persist") }, use := use }

def kvs (j : Json) : R (List (Str × V)) := do
  let ps ← pairs j
  pure (ps.map (fun (k, v) => (chars k, v)))

def indexOf (names : List Str) (n : Str) : Nat := (names.findIdx? (· == n)).getD names.length

def handle (j : Json) : R Json := do
  let op ← str j "op"
  match op with
  | "helper" =>
    let cx ← (← arr j "tasks").toList.mapM clsOf
    let mocks ← kvs (← obj j "mocks")
    let given ← kvs (← obj j "given")
    let store0 ← kvs (← obj j "store")
    let reqs ← strList (← obj j "requests")
    match build (cx.map (·.cls)) mocks given with
    | .error (.missingParam t p) => pure (Json.mkObj [("err", "missing_param"), ("task", jstr t), ("name", jstr p)])
    | .error (.missingInput t p) => pure (Json.mkObj [("err", "missing_input"), ("task", jstr t), ("name", jstr p)])
    | .ok b =>
      -- universe: effective tasks, then mocks, then one value-only node per absent optional input
      let nT := b.tasks.length
      let names : List Str := b.tasks.map (·.slug) ++ b.mocks.map (·.1)
      let mut nodes : Array (Node V) := #[]
      let mut consts : Array (Node V) := #[]
      let mut labels : Array (List String) := #[]
      let base := names.length
      for (c, bs) in b.tasks.zip b.binds do
        let x := (cx.find? (fun x => x.cls.slug == c.slug)).getD { cls := c, use := [] }
        let mut used : List Nat := []
        let mut labs : List String := []
        for (lab, k) in x.use do
          match bs[k]? with
          | some (.node n) => used := used ++ [indexOf names n]
          | some (.const v) =>
            used := used ++ [base + consts.size]
            consts := consts.push (.mock v)
          | none => throw "use index"
          labs := labs ++ [lab]
        nodes := nodes.push (.task nodes.size c.persist used)
        labels := labels.push labs
      let all : Array (Node V) := nodes ++ (b.mocks.map (fun (_, v) => Node.mock v)).toArray ++ consts
      let U : Nat → Node V := fun i => all.getD i (.mock Json.null)
      let f : Nat → List V → V := fun i as =>
        let c := b.tasks.getD i { slug := [], params := [], inputs := [], persist := false }
        let ps := b.params.getD i []
        let labs := labels.getD i []
        Json.mkObj [("t", jstr c.slug), ("p", Json.mkObj (ps.map (fun (k, v) => (unchars k, v)))),
                    ("i", Json.arr ((labs.zip as).map (fun (l, v) => Json.arr #[Json.str l, v])).toArray)]
      let st0 : St V := { store := fun l => (store0.find? (fun kv => indexOf names kv.1 == l && l < nT)).map (·.2),
                          mem := fun _ => none, runs := [] }
      let mut st := st0
      let mut vals : Array Json := #[]
      for r in reqs do
        let (st', v) := value U f (all.size + 2) st (indexOf names (chars r))
        st := st'
        vals := vals.push (v.getD (Json.str "<out of fuel>"))
      let nameOf := fun i => unchars (names.getD i [])
      let stored := (List.range nT).filterMap (fun l => (st.store l).map (fun v => Json.arr #[Json.str (nameOf l), v]))
      pure (Json.mkObj [("values", Json.arr vals), ("runs", Json.arr ((st.runs.map (fun i => Json.str (nameOf i))).toArray)),
                        ("store", Json.arr stored.toArray)])
  | _ => throw "bad_op"

end Drv.Test
