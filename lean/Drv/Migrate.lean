import Drv.Util
import TCV.Model.Migrate
open Lean
namespace Drv.Migrate
open TCV TCV.Migrate

def taskOf (j : Json) : R MTask := do
  pure { name := chars (← str j "name"), persist := (← bool j "persist"), hasTmp := (← bool j "has_tmp"),
         isPd := (← bool j "is_pd"), dir := chars (← str j "dir"), oldLoc := chars (← str j "old"),
         newLoc := chars (← str j "new") }

/-- `{"files": [[loc, size, sum], …], "dirs": [...]}` -/
def treeOf (j : Json) : R (Tree × List Loc) := do
  let fs ← (← arr j "files").toList.mapM (fun f => do
    let a ← f.getArr?
    if h : a.size = 3 then pure (chars (← a[0].getStr?), ({ size := (← a[1].getNat?), sum := chars (← a[2].getStr?) } : Val))
    else throw "file triple expected")
  let ds ← strList (← obj j "dirs")
  pure ({ files := fun l => (fs.find? (fun kv => kv.1 == l)).map (·.2), dirs := ds.map chars }, fs.map (·.1))

def sortStrs (l : List String) : List String := (l.toArray.qsort (· < ·)).toList.eraseDups

def treeJson (t : Tree) (locs : List Loc) : Json :=
  let ls := sortStrs (locs.map unchars)
  let files := ls.filterMap (fun l => (t.files (chars l)).map (fun v => Json.arr #[Json.str l, jnat v.size, jstr v.sum]))
  Json.mkObj [("files", Json.arr files.toArray), ("dirs", Json.arr ((sortStrs (t.dirs.map unchars)).map Json.str).toArray)]

def handle (j : Json) : R Json := do
  let op ← str j "op"
  match op with
  | "migrate" =>
    let tasks ← (← arr j "tasks").toList.mapM taskOf
    let (src, sl) ← treeOf (← obj j "src")
    let (tgt, tl) ← treeOf (← obj j "tgt")
    let runs ← (← arr j "runs").toList.mapM (fun b => b.getBool?)
    let locs := sl ++ tl ++ tasks.map (·.oldLoc) ++ tasks.map (·.newLoc)
    let mut st := (src, tgt)
    let mut outs : Array Json := #[]
    for dry in runs do
      match migrate dry st tasks with
      | .ok st' =>
        st := st'
        outs := outs.push (Json.mkObj [("ok", Json.bool true), ("src", treeJson st'.1 locs), ("tgt", treeJson st'.2 locs)])
      | .error .sizeMismatch =>
        outs := outs.push (Json.mkObj [("ok", Json.bool false), ("err", Json.str "size_mismatch")])
        break
    pure (Json.mkObj [("runs", Json.arr outs)])
  | _ => throw "bad_op"

end Drv.Migrate
