import Drv.Util
import TCV.Model.Key
import TCV.Model.Sha256
open Lean
namespace Drv.Key
open TCV TCV.PVal TCV.Key

partial def pval (j : Json) : R PVal := do
  if let some a := opt j "a" then return .atom (chars (← a.getStr?))
  if let some s := (j.getObjVal? "s").toOption then return .str (chars (← s.getStr?))
  if let some r := opt j "r" then
    let a ← r.getArr?
    if h : a.size = 2 then return .rstr (chars (← a[0].getStr?)) (chars (← a[1].getStr?)) else throw "rstr"
  if let some l := opt j "l" then
    let a ← l.getArr?
    return .list (← a.toList.mapM pval)
  if let some d := opt j "d" then
    let ps ← pairs d
    return .dict (← ps.mapM (fun (k, v) => do pure (chars k, ← pval v)))
  if let some o := (j.getObjVal? "o").toOption then return .obj (chars (← o.getStr?))
  throw "bad value"

def printableOf (j : Json) : R (Char → Bool) := do
  match opt j "np" with
  | none => pure (fun _ => true)
  | some a =>
    let l ← natList a
    pure (fun c => !l.contains c.toNat)

def param (j : Json) : R Param := do
  let name ← str j "name"
  let value ← pval (← obj j "value")
  let default ← match (j.getObjVal? "default").toOption with
    | none => pure none
    | some d => do pure (some (← pval d))
  pure { name := chars name, value, default, ignore := (← bool j "ignore"), dpd := (← bool j "dpd"),
         isPath := (bool j "path").toOption.getD false }

def sha32 (s : Str) : Str := (Sha256.hexOfStr s)

def keyArgs (j : Json) : R (List Param × Option Str × List (Str × Str)) := do
  let ps ← (← arr j "params").toList.mapM param
  let ns := (opt j "ns").bind (fun x => x.getStr?.toOption) |>.map chars
  let ins ← (← arr j "inputs").toList.mapM (fun p => do
    let a ← p.getArr?
    if h : a.size = 2 then pure (chars (← a[0].getStr?), chars (← a[1].getStr?)) else throw "input pair")
  pure (ps, ns, ins)

def handle (j : Json) : R Json := do
  let op ← str j "op"
  let pr ← printableOf j
  match op with
  | "repr_inst" => pure (Json.mkObj [("text", jstr (reprInst pr (← pval (← obj j "value"))))])
  | "py_repr" => pure (Json.mkObj [("text", jstr (pyRepr pr (chars (← str j "s"))))])
  | "py_eq" => pure (Json.mkObj [("eq", Json.bool (pyEq (← pval (← obj j "a")) (← pval (← obj j "b"))))])
  | "sha" => pure (Json.mkObj [("hex", jstr (Sha256.hexOfStr (chars (← str j "text"))))])
  | "key" =>
    let (ps, ns, ins) ← keyArgs j
    pure (Json.mkObj [("text", jstr (keyText pr ps ns ins)), ("key", jstr (keyOf sha32 pr ps ns ins)),
                      ("registry", jstr (registryRepr pr ps))])
  | "chain_keys" =>
    -- tasks in topological order; inputs refer to earlier tasks by index
    let ts ← arr j "tasks"
    let mut keys : Array Str := #[]
    let mut texts : Array Str := #[]
    for t in ts do
      let ps ← (← arr t "params").toList.mapM param
      let ns := (opt t "ns").bind (fun x => x.getStr?.toOption) |>.map chars
      let ins ← (← arr t "inputs").toList.mapM (fun p => do
        let a ← p.getArr?
        if h : a.size = 2 then
          let i ← a[1].getNat?
          pure (chars (← a[0].getStr?), keys.getD i [])
        else throw "input pair")
      keys := keys.push (keyOf sha32 pr ps ns ins)
      texts := texts.push (keyText pr ps ns ins)
    pure (Json.mkObj [("keys", jarr jstr keys.toList), ("texts", jarr jstr texts.toList)])
  | "path" =>
    let slug := chars (← str j "slug")
    let key := chars (← str j "key")
    let ext := (opt j "ext").bind (fun x => x.getStr?.toOption) |>.map chars
    pure (Json.mkObj [("data", jarr jstr (dataPath slug key ext)), ("run_info", jarr jstr (runInfoPath slug key ext)),
                      ("log", jarr jstr (logPath slug key ext))])
  | _ => throw "bad_op"

end Drv.Key
