import Drv.Util
import TCV.Model.ParMap
open Lean
namespace Drv.ParMap
open TCV.ParMap

/-- the harness' test function: `f x = 3x+1`, raising on the listed arguments -/
def f (fail : List Int) (x : Int) : Except Int Int := if fail.contains x then .error x else .ok (3 * x + 1)

def handle (j : Json) : R Json := do
  let op ← str j "op"
  match op with
  | "chunked" =>
    let xs ← intList (← obj j "xs")
    let c ← nat j "c"
    pure (Json.mkObj [("chunks", jarr (jarr jint) (chunked xs c))])
  | "pmap" =>
    let xs ← intList (← obj j "xs")
    let c ← nat j "c"
    let threads ← nat j "threads"
    let sort ← bool j "sort"
    let fail ← intList (← obj j "fail")
    let orders ← (← arr j "orders").toList.mapM natList
    let r := parallelMap (f fail) xs threads c sort (fun k => orders.getD k [])
    match r with
    | .ok ys => pure (Json.mkObj [("ok", jarr jint ys)])
    | .error e => pure (Json.mkObj [("raise", jint e)])
  | "pmap_old" =>
    let xs ← intList (← obj j "xs")
    let threads ← nat j "threads"
    let fail ← intList (← obj j "fail")
    let order ← natList (← obj j "order")
    match parallelMapOld (f fail) xs threads order with
    | .ok ys => pure (Json.mkObj [("ok", jarr jint ys)])
    | .error e => pure (Json.mkObj [("raise", jint e)])
  | _ => throw "bad_op"

end Drv.ParMap
