import Drv.Util
import TCV.Model.Conc
/-! driver glue for M-Conc: replay a schedule on the executable model -/
open Lean
namespace Drv.Conc
open TCV.Conc

def parseKind (j : Json) : R Kind := do
  let a ← j.getArr?
  match a.toList with
  | [k] => if (← k.getStr?) == "get" then pure .get else throw "bad_kind"
  | [k, f, r] =>
    if (← k.getStr?) == "goc" then pure (.goc (← f.getBool?) (← r.getBool?)) else throw "bad_kind"
  | _ => throw "bad_kind"

def labelStr : Label → String
  | .acquire => "acquire" | .exists_ => "exists" | .release => "release" | .openr => "openr"
  | .compute => "compute" | .openwTmp => "openw:tmp" | .writeTmp => "write:tmp" | .replace => "replace"
  | .openwFinal => "openw:final" | .writeFinal => "write:final" | .none_ => "none"

def fileJson : FileSt → Json
  | .absent => "absent" | .torn => "torn" | .entry v => Json.mkObj [("entry", jnat v)]

def resJson : PC → Json
  | .done (.val v) => Json.mkObj [("val", jnat v)]
  | .done .miss => "miss"
  | .done .raised => "raised"
  | _ => "running"

def enabled (m : Mode) (s : St) (n : Nat) : List Nat :=
  (List.range n).filter (fun t => (step m s t).isSome)

/-- replay; per step: the label of the action performed and the callers that were enabled before it -/
def replay (m : Mode) (n : Nat) : St → List Nat → Nat → List (String × List Nat) → (St × List (String × List Nat) × Option Nat)
  | s, [], _, acc => (s, acc.reverse, none)
  | s, t :: rest, i, acc =>
    match step m s t with
    | none => (s, acc.reverse, some i)
    | some s' => replay m n s' rest (i + 1) ((labelStr (label m (s.th t).pc), enabled m s n) :: acc)

def handle (j : Json) : R Json := do
  let op ← str j "op"
  match op with
  | "run" =>
    let m ← match (← str j "mode") with
      | "atomic" => pure Mode.atomic
      | "inplace" => pure Mode.inplace
      | _ => throw "bad_mode"
    let kinds ← (← arr j "kinds").toList.mapM parseKind
    let pre ← bool j "pre"
    let sched ← natList (← obj j "sched")
    let n := kinds.length
    if sched.any (fun t => t ≥ n) then throw "bad_thread"
    let stale := match j.getObjValAs? Bool "stale" with | .ok b => b | .error _ => false
    -- `corrupt`: an unreadable entry is lying at the final path (left by an older release that wrote in place and crashed) — outside
    -- `Init`, i.e. outside the theorems; inside the executable model and the correspondence
    let corrupt := match j.getObjValAs? Bool "corrupt" with | .ok b => b | .error _ => false
    let i0 := init (fun t => kinds.getD t .get) pre
    let s0 : St := { i0 with tmp := if stale then .torn else .absent, file := if corrupt then .torn else i0.file }
    let (s, steps, stuck) := replay m n s0 sched 0 []
    let ts := List.range n
    pure (Json.mkObj [
      ("labels", jarr (fun (p : String × List Nat) => Json.str p.1) steps),
      ("enabled", jarr (fun (p : String × List Nat) => jarr jnat p.2) steps),
      ("stuck", match stuck with | none => Json.null | some i => jnat i),
      ("enabled_end", jarr jnat (enabled m s n)),
      ("res", jarr (fun t => resJson (s.th t).pc) ts),
      ("ncomp", jarr (fun t => jnat (s.th t).ncomp) ts),
      ("late", jarr (fun t => Json.bool (s.th t).late) ts),
      ("failed", jarr (fun t => Json.bool (s.th t).failed) ts),
      ("file", fileJson s.file), ("tmp", fileJson s.tmp),
      ("lock", match s.lock with | none => Json.null | some t => jnat t),
      ("fresh", jnat s.fresh)])
  | _ => throw "bad_op"

end Drv.Conc
