import Drv.Util
import Drv.Key
import TCV.Props.C01Link
open Lean
namespace Drv.Link
open TCV TCV.Key TCV.C01

def ktask (j : Json) : R KTask := do
  let ps ← (← arr j "params").toList.mapM Drv.Key.param
  let ns := (opt j "ns").bind (fun x => x.getStr?.toOption) |>.map chars
  let ins ← (← arr j "inputs").toList.mapM (fun p => do
    let a ← p.getArr?
    if h : a.size = 2 then pure (chars (← a[0].getStr?), chars (← a[1].getStr?)) else throw "input pair")
  pure { full := chars (← str j "full"), ns, kparams := ps, inputs := ins, key := chars (← str j "key") }

/-- evaluates the executable form of `WFChain` (hypothesis of `C01.same_key_same_computation`) on a chain, task by task -/
def handle (j : Json) : R Json := do
  let pr ← Drv.Key.printableOf j
  let ts ← (← arr j "tasks").toList.mapM ktask
  let mut keys : List (Str × Str) := []
  let mut bad : Array Json := #[]
  for t in ts do
    if !wfTaskB Drv.Key.sha32 pr keys t then
      let keyOK := t.key == keyOf Drv.Key.sha32 pr t.kparams t.ns
        (t.inputs.filterMap (fun p => (lookupA p.2 keys).map (fun k => (qualify t.ns p.1, k))))
      bad := bad.push (Json.mkObj [("task", jstr t.full), ("key_ok", Json.bool keyOK),
        ("values_wellformed", Json.bool (paramsOKB (C03.persistedView pr t.kparams))),
        ("inputs_found", Json.bool (t.inputs.all (fun p => (lookupA p.2 keys).isSome)))])
    keys := keys ++ [(t.full, t.key)]
  pure (Json.mkObj [("wf", Json.bool (wfChainB Drv.Key.sha32 pr ts [])), ("bad", Json.arr bad)])

end Drv.Link
