import Drv.Util
import TCV.Model.Glue
open Lean
namespace Drv.Glue
open TCV.Glue

def errName : Err → String
  | .valueNotSet => "value_not_set" | .typeMismatch => "type_mismatch" | .saveError => "save_error"
  | .loadError => "load_error" | .noData => "no_data"

/-- the harness' abstract class: values are texts, the serializer is the identity (or fails on the
listed texts); `typeOk` and what the reader yields are given per request -/
def cls (typeOk rereads : Bool) (bad : List String) : TaskCls String String where
  typeOk := fun _ => typeOk
  codec := { save := fun v => if bad.contains v then .error .saveError else .ok v,
             load := fun s => if bad.contains s then .error .loadError else .ok s }
  rereads := rereads

def handle (j : Json) : R Json := do
  let op ← str j "op"
  match op with
  | "compute" =>
    let typeOk ← bool j "type_ok"
    let rereads ← bool j "rereads"
    let bad ← strList (← obj j "bad")
    let r : Option String := match opt j "result" with | some (.str s) => some s | _ => none
    match compute (cls typeOk rereads bad) r with
    | .ok (s, v) => pure (Json.mkObj [("stored", Json.str s), ("value", Json.str v)])
    | .error e => pure (Json.mkObj [("error", Json.str (errName e))])
  | "reload" =>
    let bad ← strList (← obj j "bad")
    let readerNone ← bool j "reader_none"
    let st : Option String := match opt j "store" with | some (.str s) => some s | _ => none
    match reload (cls true false bad) (fun v => if readerNone then none else some v) st with
    | .ok v => pure (Json.mkObj [("value", Json.str v)])
    | .error e => pure (Json.mkObj [("error", Json.str (errName e))])
  | "jsonl_write" =>
    let items ← strList (← obj j "items")
    pure (Json.mkObj [("text", jstr (writeJsons chars items))])
  | "jsonl_read" =>
    let text ← str j "text"
    let ws ← natList (← obj j "ws")
    let isSpace : Char → Bool := fun c => ws.contains c.toNat
    pure (Json.mkObj [("rows", jarr jstr ((iterLines (chars text)).map (strip isSpace)))])
  | "listnp_names" =>
    let n ← nat j "n"
    pure (Json.mkObj [("names", jarr jstr ((List.range n).map fileName))])
  | "listnp_load" =>
    let es ← (← arr j "entries").toList.mapM (fun e => do
      let a ← e.getArr?
      if h : a.size = 2 then
        let n ← a[0].getStr?
        let t ← a[1].getNat?
        pure (chars n, t)
      else throw "pair expected")
    let lex := (opt j "lex").isSome
    let r := if lex then loadListLex (fun b : Nat => (.ok b : Except Err Nat)) es
             else loadList (fun b : Nat => (.ok b : Except Err Nat)) es
    match r with
    | .ok l => pure (Json.mkObj [("order", jarr jnat l)])
    | .error e => pure (Json.mkObj [("error", Json.str (errName e))])
  | _ => throw "bad_op"

end Drv.Glue
