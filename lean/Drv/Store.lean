import Drv.Util
import TCV.Model.Store
open Lean
namespace Drv.Store
open TCV.Store

/-- provenance terms: the free term algebra over computation tags -/
inductive Term where
  | node (tag : Nat) (xs : List Term)

partial def termJson : Term → Json
  | .node t xs => Json.mkObj [("t", jnat t), ("x", Json.arr (xs.map termJson).toArray)]

def parseObj (j : Json) : R Obj := do
  pure { loc := (← nat j "loc"), persist := (← bool j "persist"), args := (← natList (← obj j "args")),
         pulls := (← natList (← obj j "pulls")), deps := (← natList (← obj j "deps")) }

def parseOp (j : Json) : R Op := do
  match (← str j "op") with
  | "value" => pure (.value (← nat j "i") (← natList (← obj j "failing")))
  | "force" => pure (.force (← nat j "i") (← bool j "del"))
  | "chain_force" => pure (.chainForce (← natList (← obj j "nodes")) (← natList (← obj j "S")) (← bool j "del")
                            (← bool j "recompute") (← natList (← obj j "order")))
  | "chain_force_f" => pure (.chainForceF (← natList (← obj j "nodes")) (← natList (← obj j "S")) (← bool j "del")
                            (← natList (← obj j "order")) (← natList (← obj j "failing")))
  | "inspect" => pure (.inspect (← nat j "i"))
  | "reset" => pure (.reset (← nat j "i"))
  | _ => throw "bad_op"

def optTerm : Option Term → Json
  | none => Json.null
  | some t => termJson t

def outJson : Out Term → Json
  | .val r => Json.mkObj [("val", optTerm r), ("raised", Json.bool r.isNone)]
  | .forced ts => Json.mkObj [("forced", jarr jnat ts)]
  | .vals ts rs => Json.mkObj [("forced", jarr jnat ts), ("vals", Json.arr (rs.map optTerm).toArray)]
  | .hasData b => Json.mkObj [("has_data", Json.bool b)]

def handle (j : Json) : R Json := do
  let us ← (← arr j "universe").toList.mapM parseObj
  let tags ← natList (← obj j "tags")
  let ops ← (← arr j "ops").toList.mapM parseOp
  let f : Nat → List Term → Term := fun i xs => .node (tags.getD i 0) xs
  let fuel := us.length + 1
  -- step by step, to report the run-log delta of every operation
  let mut s : St Term := St.init
  let mut outs : Array Json := #[]
  let n := us.length
  let idx := List.range n
  let locs := (us.map (·.loc)).eraseDups
  for op in ops do
    let before := s.runs.length
    let (s', o) := step us f fuel s op
    s := s'
    let st := Json.mkObj [("forced", jarr jnat (idx.filter (fun i => s.forced i))),
                          ("in_memory", jarr jnat (idx.filter (fun i => (s.mem i).isSome))),
                          ("stored", jarr jnat (locs.filter (fun l => (s.store l).isSome)))]
    outs := outs.push (((outJson o).setObjVal! "runs" (jarr jnat (s.runs.drop before))).setObjVal! "st" st)
  pure (Json.mkObj [("outs", Json.arr outs)])

end Drv.Store
