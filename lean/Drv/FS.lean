import Drv.Util
import TCV.Model.FS
open Lean
namespace Drv.FS
open TCV.FS

def roles : List (String × Role) :=
  [("final", .final), ("tmp", .tmp), ("old", .old), ("error", .error), ("log", .log), ("runinfo", .runinfo)]

def roleName (r : Role) : String :=
  match r with
  | .final => "final" | .tmp => "tmp" | .old => "old" | .error => "error" | .log => "log" | .runinfo => "runinfo"

def nodeStr : Node Nat → String
  | .absent => "absent"
  | .file (.complete v) => s!"file:{v}"
  | .file .torn => "file:torn"
  | .file .empty => "file:empty"
  | .dir (.complete v) => s!"dir:{v}"
  | .dir .part => "dir:partial"

def parseNode (s : String) : R (Node Nat) :=
  match s with
  | "absent" => pure .absent
  | "file:torn" => pure (.file .torn)
  | "file:empty" => pure (.file .empty)
  | "dir:partial" => pure (.dir .part)
  | _ =>
    if s.startsWith "file:" then
      match (s.drop 5).toNat? with
      | some v => pure (.file (.complete v))
      | none => throw "bad_node"
    else if s.startsWith "dir:" then
      match (s.drop 4).toNat? with
      | some v => pure (.dir (.complete v))
      | none => throw "bad_node"
    else throw "bad_node"

def stateJson (s : State Nat) : Json :=
  Json.mkObj (roles.map (fun (n, r) => (n, Json.str (nodeStr (s r)))))

def parseState (j : Json) : R (State Nat) := do
  let mut s : State Nat := fun _ => .absent
  for (n, r) in roles do
    match opt j n with
    | some x => s := s.set r (← parseNode (← x.getStr?))
    | none => pure ()
  pure s

def primStr : Prim Nat → String
  | .openTrunc r => s!"openTrunc:{roleName r}"
  | .writeAll r _ => s!"writeAll:{roleName r}"
  | .writePart r => s!"writePart:{roleName r}"
  | .rename a b => s!"rename:{roleName a}>{roleName b}"
  | .move a b => s!"move:{roleName a}>{roleName b}"
  | .rmtree r => s!"rmtree:{roleName r}"
  | .mkdir r => s!"mkdir:{roleName r}"
  | .unlink r => s!"unlink:{roleName r}"

def parseKind (s : String) : R Kind :=
  match s with
  | "json" => pure .json | "numpy" => pure .numpy | "pandas" => pure .pandas | "figure" => pure .figure
  | "generated" => pure .generated | "generatedLazy" => pure .generatedLazy | "listNumpy" => pure .listNumpy
  | "dirData" => pure .dirData | "continues" => pure .continues
  | _ => throw "bad_kind"

def parseFault (s : String) : R Fault :=
  match s with
  | "none" => pure .none | "run" => pure .run | "runMid" => pure .runMid | "genBody" => pure .genBody
  | "typeCheck" => pure .typeCheck | "serialise" => pure (.serialise false) | "serialiseWrote" => pure (.serialise true)
  | _ => throw "bad_fault"

/-- the executed primitives with the state before each and the half-done states -/
def points : Proto Nat → State Nat → List Json
  | [], _ => []
  | g :: gs, s =>
    match gstep g s with
    | .ok s' =>
      if g.guard.holds s then
        Json.mkObj [("prim", Json.str (primStr g.prim)), ("before", stateJson s),
                    ("half", jarr stateJson (ghalf g s))] :: points gs s'
      else points gs s'
    | .error _ => [Json.mkObj [("prim", Json.str (primStr g.prim)), ("before", stateJson s), ("half", Json.arr #[]),
                               ("oserror", Json.bool true)]]

def protoReply (p : Proto Nat) (s : State Nat) : List (String × Json) :=
  [("trace", jarr (fun x => Json.str (primStr x)) (trace p s)),
   ("points", Json.arr (points p s).toArray),
   ("crash_states", jarr stateJson (crashStates p s)),
   ("end", match run p s with | .ok t => stateJson t | .error _ => Json.null)]

def handle (j : Json) : R Json := do
  let op ← str j "op"
  match op with
  | "request" =>
    let K ← parseKind (← str j "kind")
    let v ← nat j "v"
    let fin ← bool j "fin"
    let f ← parseFault (← str j "fault")
    let forced ← bool j "forced"
    let s ← parseState (← obj j "init")
    let p := requestP K v fin f forced s
    let res : List (String × Json) :=
      match request K v fin f forced s with
      | .ok o => [("ret", match o.ret with | some x => jnat x | none => Json.null), ("ran", Json.bool o.ran),
                  ("oserror", Json.bool false)]
      | .error _ => [("oserror", Json.bool true)]
    pure (Json.mkObj (protoReply p s ++ res))
  | "hasdata" =>
    let K ← parseKind (← str j "kind")
    let s ← parseState (← obj j "init")
    match hasData K s with
    | .ok (t, b) => pure (Json.mkObj [("state", stateJson t), ("has", Json.bool b),
                                      ("trace", jarr (fun x => Json.str (primStr x)) (trace (initP K) s))])
    | .error _ => pure (Json.mkObj [("oserror", Json.bool true)])
  | "delete" =>
    let K ← parseKind (← str j "kind")
    let s ← parseState (← obj j "init")
    pure (Json.mkObj (protoReply (deleteP K) s))
  | _ => throw "bad_op"

end Drv.FS
