import Drv.Util
import Drv.Cache
import TCV.Model.Cached
import TCV.Model.Json
/-! driver glue for M-Cached: key text / binding of one call, and sequences of decorated calls on M-Cache -/
open Lean
namespace Drv.Cached
open TCV TCV.Cached TCV.Json

open Drv.Cache (parseJVal)

def parseParam (j : Json) : R (Param JVal) := do
  let name ← str j "name"
  let kw ← bool j "kw_only"
  let d ← match opt j "default" with
    | none => pure none
    | some dj => do pure (some (← parseJVal (← obj dj "v")))
  pure { name := chars name, kwOnly := kw, default := d }

def parseCall (j : Json) : R (Call JVal) := do
  let args ← (← arr j "args").toList.mapM parseJVal
  let kwargs ← (← arr j "kwargs").toList.mapM (fun p => do
    let pa ← p.getArr?
    if h : pa.size = 2 then
      let k ← pa[0].getStr?
      let v ← parseJVal pa[1]
      pure (chars k, v)
    else throw "pair expected")
  pure { args := args, kwargs := kwargs }

def enc (kvs : List (Str × JVal)) : Str := dumpsStd (.obj kvs)

def itemsJson (kvs : List (Str × JVal)) : Json :=
  jarr (fun (kv : Str × JVal) => Json.arr #[jstr kv.1, jstr (dumpsStd kv.2)]) kvs

def parseSV (j : Json) : R (Option Cache.Val) :=
  match opt j "store" with
  | none => pure none
  | some s => do pure (some (← Drv.Cache.parseVal (← obj s "v")))

def handle (j : Json) : R Json := do
  let op ← str j "op"
  match op with
  | "key" =>
    let sig ← (← arr j "sig").toList.mapM parseParam
    let ign := (← strList (← obj j "ign")).map chars
    let c ← parseCall j
    -- a method with a `**kwargs` catch-all: Python's validity and binding with the extras
    -- (`varkw` = its name; the decorator's loop visits it as a last parameter: `C16.catchall_param_inert`)
    let varkwName := (j.getObjValAs? String "varkw").toOption
    let varkw := varkwName.isSome
    let sigLoop := match varkwName with
      | some r => sig ++ [{ name := chars r, kwOnly := true, default := none }]
      | none => sig
    pure (Json.mkObj [
      ("valid", Json.bool (if varkw then validKw sig c else valid sig c)),
      ("key", jstr (cacheKey enc sigLoop ign c)),
      ("binding", itemsJson (if varkw then bindingKw sig c else binding sig c)),
      ("norm", itemsJson (normalise sigLoop c))])
  | "dumps" => do pure (Json.mkObj [("text", jstr (dumpsStd (← parseJVal (← obj j "v"))))])
  | "calls" =>
    let kind ← str j "kind"
    let own ← bool j "own"
    let calls ← arr j "calls"
    let mut ops : List (Option Cache.Op) := []
    let mut infos : List (String × String × Ctl) := []
    for cj in calls.toList do
      let sig ← (← arr cj "sig").toList.mapM parseParam
      let ign := (← strList (← obj cj "ign")).map chars
      let c ← parseCall cj
      let sig := match (cj.getObjValAs? String "varkw").toOption with
        | some r => sig ++ [{ name := chars r, kwOnly := true, default := none }]
        | none => sig
      let method := chars (← str cj "method")
      let version := (opt cj "version").bind (fun v => v.getStr?.toOption) |>.map chars
      let ctl : Ctl := { forceCache := (← bool cj "force"), onlyCache := (← bool cj "only"), store := (← parseSV cj) }
      let result ← match (← obj cj "result") with
        | .str "raise" => pure Cache.Comp.raise
        | r => do pure (Cache.Comp.ret (← Drv.Cache.parseVal (← obj r "ret")))
      let key := cacheKey enc sig ign c
      let sub := subcacheName method version
      let d : Cache.Dir := if own then [sub] else []
      ops := ops ++ [toOp d key result ctl]
      infos := infos ++ [(unchars key, unchars sub, ctl)]
    -- run the accepted operations in order on one cache
    let real := ops.filterMap id
    let outs : List (Cache.Out × Nat) ← match kind with
      | "mem" => pure (Cache.memRun (fun _ => .none) real).1
      | "json" => pure (Cache.run Sha256.hexOfStr { keyed := true, allowNones := true, ext := chars "json" } (fun _ => .absent) real).1
      | _ => throw "bad_kind"
    let mut rest := outs
    let mut res : Array Json := #[]
    for (o, info) in ops.zip infos do
      let (key, sub, ctl) := info
      match o with
      | none => res := res.push (Json.mkObj [("key", key), ("sub", sub), ("out", "assert"), ("mcalls", jnat 0)])
      | some _ =>
        match rest with
        | [] => throw "internal"
        | (out, calls) :: r =>
          rest := r
          res := res.push (Json.mkObj [("key", key), ("sub", sub), ("out", Drv.Cache.outJson out),
            ("mcalls", jnat (methodCalls ctl calls))])
    let targets := (real.map Drv.Cache.opTarget).eraseDups
    let entries : Nat := match kind with
      | "mem" => (targets.filter (fun a => (Cache.memRun (fun _ => .none) real).2 a != .none)).length
      | _ => (targets.filter (fun a =>
          let conf : Cache.Conf := { keyed := true, allowNones := true, ext := chars "json" }
          ((Cache.run Sha256.hexOfStr conf (fun _ => .absent) real).2 (Cache.pathOf Sha256.hexOfStr (Cache.confOf conf a.1) a.1 a.2)).present)).length
    pure (Json.mkObj [("calls", Json.arr res), ("entries", jnat entries)])
  | _ => throw "bad_op"

end Drv.Cached
