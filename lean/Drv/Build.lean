import Drv.Util
import Drv.Key
import TCV.Model.Build
import TCV.Model.BuildNM
open Lean
namespace Drv.Build
open TCV TCV.Config TCV.Build

partial def pvalJson : PVal → Json
  | .atom t => Json.mkObj [("a", jstr t)]
  | .str s => Json.mkObj [("s", jstr s)]
  | .rstr v o => Json.mkObj [("r", Json.arr #[jstr v, jstr o])]
  | .list xs => Json.mkObj [("l", Json.arr (xs.map pvalJson).toArray)]
  | .dict kvs => Json.mkObj [("d", Json.arr (kvs.map (fun kv => Json.arr #[jstr kv.1, pvalJson kv.2])).toArray)]
  | .obj r => Json.mkObj [("o", jstr r)]

def dataOf (j : Json) : R Data := do
  let ps ← pairs j
  ps.mapM (fun (k, v) => do pure (chars k, ← Drv.Key.pval v))

def strs (j : Json) (k : String) : R (List Str) := do
  pure ((← strList (← obj j k)).map chars)

def partOf (j : Json) : R Part := do
  pure { data := (← dataOf (← obj j "data")), tasks := (← strs j "tasks"), excluded := (← strs j "excluded"),
         uses := (← strs j "uses"), mainPart := (bool j "main").toOption.getD false }

def fileOf (j : Json) : R File := do
  match opt j "single" with
  | some p => pure (.single (← partOf p))
  | none =>
    let ps ← pairs (← obj j "multi")
    pure (.multi (← ps.mapM (fun (k, v) => do pure (chars k, ← partOf v))))

def forNsOf (j : Json) : R (List (Str × Data)) := do
  let ps ← pairs j
  ps.mapM (fun (k, v) => do pure (chars k, ← dataOf v))

partial def ctxSrcOf (j : Json) : R CtxSrc := do
  if let some d := opt j "dict" then
    return .dict (← dataOf (← obj d "data")) (← forNsOf (← obj d "for_ns")) (← strs d "uses")
  if let some f := opt j "file" then return .file (chars (← f.getStr?))
  if let some l := opt j "list" then
    return .list (← (← l.getArr?).toList.mapM ctxSrcOf)
  throw "bad ctx source"

def dtypeOf : String → R DType
  | "int" => pure .int | "float" => pure .float | "str" => pure .str | "bool" => pure .bool
  | "list" => pure .list | "dict" => pure .dict | "path" => pure .path
  | _ => throw "bad dtype"

def classOf (j : Json) : R ClassDecl := do
  let ps ← (← arr j "params").toList.mapM (fun p => do
    let name ← str p "name"
    let nic := (str p "nic").toOption.getD name
    let default ← match (p.getObjVal? "default").toOption with
      | none => pure none
      | some d => do pure (some (← Drv.Key.pval d))
    let dtype ← match opt p "dtype" with
      | none => pure none
      | some d => do pure (some (← dtypeOf (← d.getStr?)))
    pure ({ name := chars name, nic := chars nic, default, dtype, ignore := (bool p "ignore").toOption.getD false,
            dpd := (bool p "dpd").toOption.getD false } : ParamDecl))
  let ins ← (← arr j "inputs").toList.mapM (fun i => do
    let ref := chars (← str i "ref")
    let r : InRef := if (← str i "by") == "class" then .byClass ref else .byName ref
    let default ← match (i.getObjVal? "default").toOption with
      | none => pure none
      | some d => do pure (some (← Drv.Key.pval d))
    pure ({ ref := r, default } : InputDecl))
  pure { cid := chars (← str j "cid"), slug := chars (← str j "slug"), params := ps, inputs := ins,
         abstract := (bool j "abstract").toOption.getD false }

def errName : Err → String
  | .noFile => "no_file" | .noPart => "no_part" | .multipartShape => "multipart" | .notFound => "not_found"
  | .ambiguous => "ambiguous" | .conflict => "conflict" | .missingParam => "missing_param" | .badType => "bad_type"
  | .missingInput => "missing_input" | .dupInput => "dup_input" | .tooDeep => "cyclic_or_too_deep" | .unsupported => "unsupported"
  | .dupChain => "dup_chain"

def optStr : Option Str → Json
  | none => Json.null
  | some s => jstr s

def taskJson (cfgNames : List Str) (t : Task2) : Json :=
  Json.mkObj [("full", jstr t.full), ("cid", jstr t.objCid), ("name_cid", jstr t.cid), ("slug", jstr t.slug), ("ns", optStr t.objNs), ("name_ns", optStr t.ns),
    ("params", Json.arr (t.objParams.map (fun kv => Json.arr #[jstr kv.1, pvalJson kv.2])).toArray),
    ("own_params", Json.arr (t.params.map (fun kv => Json.arr #[jstr kv.1, pvalJson kv.2])).toArray),
    ("inputs", Json.arr (t.inputs.map (fun kv => Json.arr #[jstr kv.1, match kv.2 with
        | .task f => Json.mkObj [("task", jstr f)]
        | .dflt v => Json.mkObj [("default", pvalJson v)]])).toArray),
    ("key", jstr t.key), ("obj", jnat t.objId), ("cfg", jnat t.cfgIx)]

def taskNJson (t : TCV.BuildNM.TaskN) : Json :=
  Json.mkObj [("full", jstr t.full), ("cid", jstr t.obj.cid), ("slug", jstr t.obj.slug), ("ns", optStr t.obj.ns),
    ("params", Json.arr (t.obj.params.map (fun kv => Json.arr #[jstr kv.1, pvalJson kv.2])).toArray),
    ("inputs", Json.arr (t.inputs.map (fun kv => Json.arr #[jstr kv.1, match kv.2 with
        | .task f => Json.mkObj [("task", jstr f)]
        | .dflt v => Json.mkObj [("default", pvalJson v)]])).toArray),
    ("key", jstr t.obj.cfgName), ("obj", jnat t.obj.id)]

def common (j : Json) : R (FS × CtxFS × Classes × (Char → Bool)) := do
  let fs ← (← pairs (← obj j "files")).mapM (fun (k, v) => do pure (chars k, ← fileOf v))
  let cfs ← (← pairs (← obj j "ctx_files")).mapM (fun (k, v) => do
    pure (chars k, (← dataOf (← obj v "data")), (← forNsOf (← obj v "for_ns")), (← strs v "uses")))
  let cls ← (← arr j "classes").toList.mapM classOf
  pure (fs, cfs, cls.map (fun c => (c.cid, c)), ← Drv.Key.printableOf j)

def optCtx (j : Json) (k : String) : R (Option CtxSrc) :=
  match opt j k with
  | none => pure none
  | some c => do pure (some (← ctxSrcOf c))

def handle (j : Json) : R Json := do
  let (fs, cfs, classes, pr) ← common j
  let fuel := 64
  match (← str j "op") with
  | "build" =>
    let main := chars (← str j "main")
    let ns := (opt j "ns").bind (fun x => x.getStr?.toOption) |>.map chars
    match build Drv.Key.sha32 pr fs cfs classes main ns (← optCtx j "ctx") [] 0 fuel with
    | .error e => pure (Json.mkObj [("error", Json.str (errName e))])
    | .ok c => pure (Json.mkObj [("ok", Json.arr (c.tasks.map (taskJson [])).toArray)])
  | "build_nm" =>
    let main := chars (← str j "main")
    let ns := (opt j "ns").bind (fun x => x.getStr?.toOption) |>.map chars
    match TCV.BuildNM.build fs cfs classes main ns (← optCtx j "ctx") [] 0 0 fuel with
    | .error e => pure (Json.mkObj [("error", Json.str (errName e))])
    | .ok c => pure (Json.mkObj [("ok", Json.arr (c.tasks.map taskNJson).toArray)])
  | "multi_nm" =>
    let mains ← (← arr j "mains").toList.mapM (fun m => do
      pure (chars (← str m "main"), ← optCtx m "ctx"))
    match TCV.BuildNM.buildMulti fs cfs classes mains fuel with
    | .error e => pure (Json.mkObj [("error", Json.str (errName e))])
    | .ok cs => pure (Json.mkObj [("ok", Json.arr (cs.map (fun c => Json.arr (c.tasks.map taskNJson).toArray)).toArray)])
  | "multi" =>
    let mains ← (← arr j "mains").toList.mapM (fun m => do
      pure (chars (← str m "main"), ← optCtx m "ctx"))
    match buildMulti Drv.Key.sha32 pr fs cfs classes mains fuel with
    | .error e => pure (Json.mkObj [("error", Json.str (errName e))])
    | .ok cs => pure (Json.mkObj [("ok", Json.arr (cs.map (fun c => Json.arr (c.tasks.map (taskJson [])).toArray)).toArray)])
  | _ => throw "bad_op"

end Drv.Build
