import Drv.Util
import TCV.Model.RunRec
import Drv.Key
open Lean
namespace Drv.RunRec
open TCV TCV.RunRec

def evOf (j : Json) : R (RunEv Json Json) := do
  pure { logger := chars (← str j "logger"), loc := (← nat j "loc"),
         lines := (← strList (← obj j "lines")).map chars,
         records := (← arr j "records").toList, ok := (← bool j "ok"), info := (← obj j "info") }

def stJson (locs : List Nat) (s : St Json Json) : Json :=
  Json.arr (locs.map (fun l => Json.mkObj [("loc", jnat l), ("log", jarr jstr (s.logs l)),
    ("run_info", match s.runinfo l with
      | none => Json.null
      | some (i, rs) => Json.mkObj [("info", i), ("records", Json.arr rs.toArray)])])).toArray

def handle (j : Json) : R Json := do
  match (← str j "op") with
  | "run" =>
    let leaky := (bool j "leaky").toOption.getD false
    let locs ← natList (← obj j "locs")
    let mut s : St Json Json := St.init
    let mut outs : Array Json := #[]
    for e in (← arr j "events") do
      if (bool e "restart").toOption.getD false then
        s := restart s
      else
        s := runStep leaky s (← evOf e)
      outs := outs.push (stJson locs s)
    pure (Json.mkObj [("states", Json.arr outs)])
  | "value_reprs" =>
    let pr ← Drv.Key.printableOf j
    let ps ← (← arr j "params").toList.mapM Drv.Key.param
    pure (Json.mkObj [("reprs", Json.arr (ps.map (fun p => Json.arr #[jstr p.name, jstr (Key.valueRepr pr p)])).toArray),
                      ("registry", jstr (Key.registryRepr pr ps))])
  | _ => throw "bad_op"

end Drv.RunRec
