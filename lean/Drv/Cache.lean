import Drv.Util
import TCV.Model.Cache
import TCV.Model.Sha256
import TCV.Model.Json
/-! driver glue for M-Cache: run an operation sequence on the file machine (real sha256 paths) or on the
in-memory machine -/
open Lean
namespace Drv.Cache
open TCV TCV.Cache
open TCV.Json (JVal)

/-- tagged JSON: null, true/false, "str", [..], {"num": "<token>"}, {"obj": [[k, v], ..]} -/
partial def parseJVal (j : Json) : R JVal :=
  match j with
  | .null => pure .null
  | .bool b => pure (.bool b)
  | .str s => pure (.str (chars s))
  | .arr a => do pure (.arr (← a.toList.mapM parseJVal))
  | .obj _ =>
    if has j "num" then do pure (.num (chars (← str j "num")))
    else if has j "obj" then do
      let ps ← (← arr j "obj").toList.mapM (fun p => do
        let pa ← p.getArr?
        if h : pa.size = 2 then
          let k ← pa[0].getStr?
          let v ← parseJVal pa[1]
          pure (chars k, v)
        else throw "pair expected")
      pure (.obj ps)
    else throw "bad_value"
  | _ => throw "bad_value"


def parseVal (j : Json) : R Val :=
  match j with
  | .null => pure none
  | _ => do pure (some (← j.getNat?))

def parseDir (j : Json) : R Dir := do pure ((← strList j).map chars)

def parseFile (j : Json) : R FileSt :=
  match j with
  | .str "absent" => pure .absent
  | .str "corrupt" => pure .corrupt
  | _ => do
    let k ← str j "k"
    let v ← parseVal (← obj j "v")
    pure (.entry (chars k) v)

def parseOp (j : Json) : R Op := do
  let o ← str j "o"
  let d ← parseDir (← obj j "d")
  let k := chars (← str j "k")
  match o with
  | "get" => pure (.get d k)
  | "goc" =>
    let c ← obj j "c"
    let comp ← match c with
      | .str "raise" => pure Comp.raise
      | _ => do pure (Comp.ret (← parseVal (← obj c "ret")))
    pure (.goc d k comp (← bool j "force"))
  | "set" => do pure (.setFile d k (← parseFile (← obj j "f")))
  | _ => throw "bad_op"

def valJson : Val → Json
  | none => Json.null
  | some n => jnat n

def outJson : Out → Json
  | .val v => Json.mkObj [("val", valJson v)]
  | .noValue => "no_value"
  | .cacheErr => "cache_error"
  | .raised => "raised"
  | .unit => "unit"

def fileJson : FileSt → Json
  | .absent => "absent"
  | .corrupt => "corrupt"
  | .entry k v => Json.mkObj [("k", jstr k), ("v", valJson v)]

def slotJson : Slot → Json
  | .none => "none"
  | .bad => "bad"
  | .some v => Json.mkObj [("val", valJson v)]

def joinPath : Path → List Char
  | [] => []
  | [p] => p
  | p :: q :: r => p ++ '/' :: joinPath (q :: r)

def opTarget : Op → Dir × Key
  | .get d k => (d, k)
  | .goc d k _ _ => (d, k)
  | .setFile d k _ => (d, k)

def handle (j : Json) : R Json := do
  let op ← str j "op"
  match op with
  | "run" =>
    let kind ← str j "kind"
    let ops ← (← arr j "ops").toList.mapM parseOp
    let targets := (ops.map opTarget).eraseDups
    match kind with
    | "mem" =>
      if ops.any (fun o => match o with | .setFile .. => true | _ => false) then throw "bad_op"
      let (outs, D) := memRun (fun _ => .none) ops
      pure (Json.mkObj [
        ("outs", jarr (fun (p : Out × Nat) => Json.arr #[outJson p.1, jnat p.2]) outs),
        ("slots", jarr (fun (a : Dir × Key) => slotJson (D a)) targets)])
    | _ =>
      let conf : Conf ← match kind with
        | "json" => do pure { keyed := true, allowNones := (← bool j "allow_nones"), ext := chars "json" }
        | "pd" => pure { keyed := false, allowNones := true, ext := chars "pd" }
        | "npy" => pure { keyed := false, allowNones := true, ext := chars "npy" }
        | _ => throw "bad_kind"
      let (outs, fs) := run Sha256.hexOfStr conf (fun _ => .absent) ops
      let paths := targets.map (fun a => pathOf Sha256.hexOfStr (confOf conf a.1) a.1 a.2)
      let present := (paths.filter (fun p => (fs p).present)).map (fun p => unchars (joinPath p))
      pure (Json.mkObj [
        ("outs", jarr (fun (p : Out × Nat) => Json.arr #[outJson p.1, jnat p.2]) outs),
        ("files", Json.arr (present.toArray.qsort (· < ·) |>.map Json.str)),
        ("states", jarr (fun p => fileJson (fs p)) paths)])
  | "entry_text" =>
    let k := chars (← str j "k")
    let v ← parseJVal (← obj j "v")
    pure (Json.mkObj [("text", jstr (TCV.Json.entryText k v)), ("nums_ok", Json.bool (TCV.Json.numsOK v))])
  | "scan" =>
    pure (Json.mkObj [("complete", Json.bool (TCV.Json.complete (chars (← str j "text"))))])
  | "path" =>
    let d ← parseDir (← obj j "d")
    let ext ← str j "ext"
    let k := chars (← str j "k")
    pure (Json.mkObj [("path", jstr (joinPath (pathOf Sha256.hexOfStr { keyed := true, allowNones := true, ext := chars ext } d k)))])
  | _ => throw "bad_op"

end Drv.Cache
