import Drv.Util
import Drv.Key
import TCV.Model.AutoObj
open Lean
namespace Drv.AutoObj
open TCV TCV.PVal TCV.AutoObj

def argOf (j : Json) : R Arg := do
  let default ← match (j.getObjVal? "default").toOption with
    | none => pure none
    | some d => do pure (some (← Drv.Key.pval d))
  pure { name := chars (← str j "name"), default }

def attrOf (j : Json) : R (Str × AVal) := do
  let a ← j.getArr?
  if h : a.size = 2 then
    let n ← a[0].getStr?
    match a[1] with
    | Json.str "ignored" => pure (chars n, .ignored)
    | v => pure (chars n, .plain (← Drv.Key.pval v))
  else throw "attr pair"

def handle (j : Json) : R Json := do
  let pr ← Drv.Key.printableOf j
  let dj ← obj j "decl"
  let d : Decl := { cls := chars (← str dj "cls"), args := (← (← arr dj "args").toList.mapM argOf),
                    ignore := (← strList (← obj dj "ignore")).map chars, dpd := (← strList (← obj dj "dpd")).map chars }
  let ats ← (← arr j "attrs").toList.mapM attrOf
  match autoRepr pr d ats with
  | some t => pure (Json.mkObj [("repr", jstr t)])
  | none => pure (Json.mkObj [("error", Json.str "AttributeError")])

end Drv.AutoObj
