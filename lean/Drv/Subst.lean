import Drv.Util
import Drv.Key
import TCV.Model.Subst
open Lean
namespace Drv.Subst
open TCV TCV.PVal TCV.Subst

partial def toJson : PVal → Json
  | .atom t => Json.mkObj [("a", jstr t)]
  | .str s => Json.mkObj [("s", jstr s)]
  | .rstr v o => Json.mkObj [("r", Json.arr #[jstr v, jstr o])]
  | .list xs => Json.mkObj [("l", Json.arr (xs.map toJson).toArray)]
  | .dict kvs => Json.mkObj [("d", Json.arr (kvs.map (fun (k, v) => Json.arr #[jstr k, toJson v])).toArray)]
  | .obj r => Json.mkObj [("o", jstr r)]

/-- `[[name, text], …]` → lookup (first entry wins; the harness sends unique names) -/
def envOf (j : Json) : R Env := do
  let ps ← pairs j
  let l ← ps.mapM (fun (k, v) => do pure (chars k, chars (← v.getStr?)))
  pure (fun n => (l.find? (fun kv => kv.1 == n)).map (·.2))

/-- adjacent literal characters merged, for readable output -/
def segsJson (segs : List Seg) : Json :=
  let rec go : List Seg → Str → List Json
    | [], cur => if cur.isEmpty then [] else [Json.arr #[Json.str "l", jstr cur]]
    | .lit c :: r, cur => go r (cur ++ [c])
    | .ph n :: r, cur => (if cur.isEmpty then [] else [Json.arr #[Json.str "l", jstr cur]]) ++ (Json.arr #[Json.str "p", jstr n] :: go r [])
  Json.arr (go segs []).toArray

def handle (j : Json) : R Json := do
  let op ← str j "op"
  let pr ← Drv.Key.printableOf j
  match op with
  | "scan" =>
    let s := chars (← str j "s")
    let segs := scan s
    pure (Json.mkObj [("segs", segsJson segs), ("n", jnat (names segs).length), ("render", jstr (render segs))])
  | "subst" =>
    let env ← envOf (← obj j "env")
    let v ← Drv.Key.pval (← obj j "value")
    let out := substTree env v
    let mut fields : List (String × Json) :=
      [("out", toJson out), ("repr", jstr (reprInst pr out)), ("copy", toJson (deepcopy pr out)),
       ("copy_repr", jstr (reprInst pr (deepcopy pr out)))]
    if let some e2 := opt j "env2" then
      let env2 ← envOf e2
      fields := fields ++ [("again", toJson (substTree env2 out))]
    if (bool j "prep").toOption.getD false then
      let p := prepObjects pr out
      fields := fields ++ [("prep", toJson p), ("prep_repr", jstr (reprInst pr p))]
    pure (Json.mkObj fields)
  | "copy_obj" =>
    -- state of a ReprStr instance after `n` copies
    let v := chars (← str j "val")
    let o := chars (← str j "src")
    let n ← nat j "n"
    let x := (List.range n).foldl (fun x _ => x.copy pr) (ReprStrObj.new pr v o)
    pure (Json.mkObj [("val", jstr x.val), ("repr", jstr x.repr), ("src", jstr x.src)])
  | _ => throw "bad_op"

end Drv.Subst
