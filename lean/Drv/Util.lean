import Lean.Data.Json
/-! JSON helpers shared by the driver glue (not part of the model, not used by any theorem) -/
open Lean
namespace Drv

abbrev R := Except String

def str (j : Json) (k : String) : R String := j.getObjValAs? String k
def nat (j : Json) (k : String) : R Nat := j.getObjValAs? Nat k
def int (j : Json) (k : String) : R Int := j.getObjValAs? Int k
def bool (j : Json) (k : String) : R Bool := j.getObjValAs? Bool k
def arr (j : Json) (k : String) : R (Array Json) := j.getObjValAs? (Array Json) k
def obj (j : Json) (k : String) : R Json := j.getObjVal? k
def opt (j : Json) (k : String) : Option Json :=
  match j.getObjVal? k with
  | .ok .null => none
  | .ok v => some v
  | .error _ => none
def has (j : Json) (k : String) : Bool := (j.getObjVal? k).toOption.isSome

def natList (j : Json) : R (List Nat) := do
  let a ← j.getArr?
  a.toList.mapM (fun x => x.getNat?)
def intList (j : Json) : R (List Int) := do
  let a ← j.getArr?
  a.toList.mapM (fun x => x.getInt?)
def strList (j : Json) : R (List String) := do
  let a ← j.getArr?
  a.toList.mapM (fun x => x.getStr?)

def chars (s : String) : List Char := s.toList
def unchars (l : List Char) : String := String.ofList l

def jstr (l : List Char) : Json := Json.str (unchars l)
def jarr {α} (f : α → Json) (l : List α) : Json := Json.arr (l.map f).toArray
def jnat (n : Nat) : Json := Json.num (JsonNumber.fromNat n)
def jint (n : Int) : Json := Json.num (JsonNumber.fromInt n)

/-- key/value pairs of a JSON object in the order the driver receives them is not available
(objects are trees); inputs whose order matters are sent as arrays of pairs. -/
def pairs (j : Json) : R (List (String × Json)) := do
  let a ← j.getArr?
  a.toList.mapM (fun p => do
    let pa ← p.getArr?
    if h : pa.size = 2 then
      let k ← pa[0].getStr?
      pure (k, pa[1])
    else throw "pair expected")

end Drv
