import Drv.Util
import TCV.Model.JsonText
open Lean
namespace Drv.JsonText
open TCV.JsonText

/-- tagged transport form: {"n":0} | {"b":bool} | {"i":"123"} | {"f":"1.5"} | {"s":".."} | {"a":[..]} | {"o":[[k,v]..]} -/
partial def toJ (j : Json) : R JVal := do
  if has j "n" then pure .null
  else if has j "b" then pure (.bool (← bool j "b"))
  else if has j "i" then
    match (← str j "i").toInt? with
    | some i => pure (.int i)
    | none => throw "bad_int"
  else if has j "f" then pure (.float (chars (← str j "f")))
  else if has j "s" then pure (.str (chars (← str j "s")))
  else if has j "a" then
    let xs ← (← arr j "a").toList.mapM toJ
    pure (.arr xs)
  else if has j "o" then
    let kvs ← (← arr j "o").toList.mapM (fun p => do
      let a ← p.getArr?
      if h : a.size = 2 then
        let k ← a[0].getStr?
        let v ← toJ a[1]
        pure (chars k, v)
      else throw "pair expected")
    pure (.obj kvs)
  else throw "bad_value"

partial def ofJ : JVal → Json
  | .null => Json.mkObj [("n", jnat 0)]
  | .bool b => Json.mkObj [("b", Json.bool b)]
  | .int i => Json.mkObj [("i", Json.str (toString i))]
  | .float t => Json.mkObj [("f", jstr t)]
  | .str s => Json.mkObj [("s", jstr s)]
  | .arr xs => Json.mkObj [("a", Json.arr (xs.map ofJ).toArray)]
  | .obj kvs => Json.mkObj [("o", Json.arr (kvs.map (fun p => Json.arr #[jstr p.1, ofJ p.2])).toArray)]

def handle (j : Json) : R Json := do
  let op ← str j "op"
  match op with
  | "encode" =>
    let v ← toJ (← obj j "v")
    pure (Json.mkObj [("compact", jstr (enc v)), ("pretty", jstr (encPretty v))])
  | "decode" =>
    let text ← str j "text"
    match decode (chars text) with
    | some v => pure (Json.mkObj [("ok", ofJ v)])
    | none => pure (Json.mkObj [("error", "load_error")])
  | _ => throw "bad_op"

end Drv.JsonText
