import TCV.Model.JsonText
import TCV.Lemmas.Glue
/-! helper lemmas for `json_roundtrip`: strings, numbers, white space -/
namespace TCV.JsonText
open TCV TCV.Glue

/-! ### strings -/

theorem hex_small : ∀ n, n < 32 →
    hexVal (hexDigit (n / 4096 % 16)) = some 0 ∧ hexVal (hexDigit (n / 256 % 16)) = some 0 ∧
    hexVal (hexDigit (n / 16 % 16)) = some (n / 16) ∧ hexVal (hexDigit (n % 16)) = some (n % 16) := by
  decide

/-- reading back one escaped character; an escape never begins with a quote -/
theorem readChar_escChar (c : Char) (rest : Str) :
    readChar (escChar c ++ rest) = some (c, rest) ∧ ∃ h t, escChar c = h :: t ∧ h ≠ '"' := by
  unfold escChar
  split
  · rename_i h; subst h; exact ⟨by simp [readChar, unesc], _, _, rfl, by decide⟩
  split
  · rename_i h; subst h; exact ⟨by simp [readChar, unesc], _, _, rfl, by decide⟩
  split
  · rename_i h; subst h; exact ⟨by simp [readChar, unesc], _, _, rfl, by decide⟩
  split
  · rename_i h; subst h; exact ⟨by simp [readChar, unesc], _, _, rfl, by decide⟩
  split
  · rename_i h; subst h; exact ⟨by simp [readChar, unesc], _, _, rfl, by decide⟩
  split
  · rename_i h; subst h; exact ⟨by simp [readChar, unesc], _, _, rfl, by decide⟩
  split
  · rename_i h; subst h; exact ⟨by simp [readChar, unesc], _, _, rfl, by decide⟩
  split
  · rename_i h1 h2 h3 h4 h5 h6 h7 hlt
    obtain ⟨e1, e2, e3, e4⟩ := hex_small c.toNat hlt
    refine ⟨?_, _, _, rfl, by decide⟩
    have hn : 0 * 4096 + 0 * 256 + c.toNat / 16 * 16 + c.toNat % 16 = c.toNat := by omega
    have hv : validScalar (0 * 4096 + 0 * 256 + c.toNat / 16 * 16 + c.toNat % 16) = true := by
      rw [hn]; simp only [validScalar]
      have : c.toNat < 0xd800 := by omega
      simp [this]
    simp only [hex4, List.cons_append, List.nil_append, readChar, if_true, e1, e2, e3, e4, hv]
    have hn' := hn
    simp only [Nat.zero_mul, Nat.zero_add] at hn'
    simp [hn', Char.ofNat_toNat]
  · rename_i h1 h2 h3 h4 h5 h6 h7 hge
    exact ⟨by simp [readChar, h2, hge], _, _, rfl, h1⟩

theorem parseStrAux_escStr (s rest acc : Str) (f : Nat) (hf : s.length < f) :
    parseStrAux f (escStr s ++ '"' :: rest) acc = some (acc.reverse ++ s, rest) := by
  induction s generalizing acc f with
  | nil =>
    cases f with
    | zero => omega
    | succ f => simp [escStr, parseStrAux]
  | cons c cs ih =>
    cases f with
    | zero => omega
    | succ f =>
      obtain ⟨hr, h, t, he, hq⟩ := readChar_escChar c (escStr cs ++ '"' :: rest)
      simp only [escStr, List.append_assoc]
      rw [he] at hr ⊢
      simp only [List.cons_append, parseStrAux, hq, if_false]
      simp only [List.cons_append] at hr
      rw [hr]
      simp only
      rw [ih (c :: acc) f (by simp at hf; omega)]
      simp

theorem length_le_escStr (s : Str) : s.length ≤ (escStr s).length := by
  induction s with
  | nil => simp [escStr]
  | cons c cs ih =>
    obtain ⟨_, h, t, he, _⟩ := readChar_escChar c []
    simp only [escStr, he, List.length_cons, List.cons_append, List.length_append]
    omega

/-- a string literal reads back as the string -/
theorem parseStr_encStr (s rest : Str) : parseStr (escStr s ++ '"' :: rest) = some (s, rest) := by
  unfold parseStr
  rw [parseStrAux_escStr _ _ _ _ (by have := length_le_escStr s; simp; omega)]; simp

/-! ### numbers -/

/-- the text that follows a number token must not continue it -/
def Delim (s : Str) : Prop := ∀ c r, s = c :: r → isNumChar c = false

theorem spanNum_append (t rest : Str) (ht : ∀ c ∈ t, isNumChar c = true) (hd : Delim rest) :
    spanNum (t ++ rest) = (t, rest) := by
  induction t with
  | nil =>
    cases rest with
    | nil => rfl
    | cons c r => simp [spanNum, hd c r rfl]
  | cons c cs ih =>
    have hc := ht c (by simp)
    simp only [List.cons_append, spanNum, hc, if_true]
    rw [ih (fun d hd' => ht d (List.mem_cons_of_mem _ hd'))]

theorem digitChar_isNum (d : Nat) (h : d < 10) : isNumChar (digitChar d) = true ∧
    (digitChar d ≠ '.' ∧ digitChar d ≠ 'e' ∧ digitChar d ≠ 'E' ∧ digitChar d ≠ '-') := by
  have : d = 0 ∨ d = 1 ∨ d = 2 ∨ d = 3 ∨ d = 4 ∨ d = 5 ∨ d = 6 ∨ d = 7 ∨ d = 8 ∨ d = 9 := by omega
  rcases this with rfl | rfl | rfl | rfl | rfl | rfl | rfl | rfl | rfl | rfl <;> decide

theorem digitsAux_chars (fuel n : Nat) : ∀ c ∈ digitsAux fuel n, isNumChar c = true ∧ c ≠ '.' ∧ c ≠ 'e' ∧ c ≠ 'E' ∧ c ≠ '-' := by
  induction fuel generalizing n with
  | zero => simp [digitsAux]
  | succ f ih =>
    intro c hc
    simp only [digitsAux] at hc
    split at hc
    · rename_i hlt
      simp only [List.mem_singleton] at hc; subst hc
      exact digitChar_isNum n hlt
    · rcases List.mem_append.mp hc with h | h
      · exact ih _ c h
      · simp only [List.mem_singleton] at h; subst h
        exact digitChar_isNum (n % 10) (Nat.mod_lt _ (by decide))

theorem digits_ne_nil (n : Nat) : digits n ≠ [] := (parseNatAux_digits (n + 1) n (by omega) 0).2

theorem encInt_chars (i : Int) : (∀ c ∈ encInt i, isNumChar c = true) ∧ isFloatTok (encInt i) = false ∧ encInt i ≠ [] := by
  cases i with
  | ofNat n =>
    refine ⟨fun c hc => (digitsAux_chars _ _ c hc).1, ?_, digits_ne_nil n⟩
    simp only [encInt, isFloatTok, List.any_eq_false]
    intro c hc
    have := digitsAux_chars _ _ c hc
    simp [this.2.1, this.2.2.1, this.2.2.2.1]
  | negSucc n =>
    refine ⟨?_, ?_, by simp [encInt]⟩
    · intro c hc
      simp only [encInt, List.mem_cons] at hc
      rcases hc with rfl | hc
      · decide
      · exact (digitsAux_chars _ _ c hc).1
    · simp only [encInt, isFloatTok, List.any_cons, Bool.or_eq_false_iff, List.any_eq_false]
      refine ⟨by decide, ?_⟩
      intro c hc
      have := digitsAux_chars _ _ c hc
      simp [this.2.1, this.2.2.1, this.2.2.2.1]

theorem parseIntTok_encInt (i : Int) : parseIntTok (encInt i) = some i := by
  cases i with
  | ofNat n =>
    have hne := digits_ne_nil n
    have hhead : ∀ r, digits n ≠ '-' :: r := by
      intro r e
      have := (digitsAux_chars (n + 1) n '-' (by show '-' ∈ digits n; rw [e]; simp)).2.2.2.2
      exact this rfl
    simp only [encInt]
    unfold parseIntTok
    split
    · rename_i ds e; exact absurd e (hhead ds)
    · simp [parseNat_digits]
  | negSucc n =>
    simp only [encInt, parseIntTok, parseNat_digits]
    rfl

theorem parseNum_int (i : Int) (rest : Str) (hd : Delim rest) : parseNum (encInt i ++ rest) = some (.int i, rest) := by
  obtain ⟨h1, h2, h3⟩ := encInt_chars i
  unfold parseNum
  simp only [spanNum_append _ _ h1 hd, h3, if_false, h2, parseIntTok_encInt, Option.map_some]
  simp

theorem parseNum_float (t rest : Str) (ht : ∀ c ∈ t, isNumChar c = true) (hf : isFloatTok t = true) (hne : t ≠ [])
    (hd : Delim rest) : parseNum (t ++ rest) = some (.float t, rest) := by
  unfold parseNum
  simp [spanNum_append _ _ ht hd, hne, hf]

/-! ### white space and literals -/

theorem skipWs_cons (c : Char) (r : Str) (h : isWs c = false) : skipWs (c :: r) = c :: r := by
  simp [skipWs, h]

theorem numChar_facts (c : Char) (h : isNumChar c = true) :
    isWs c = false ∧ c ≠ 'n' ∧ c ≠ 't' ∧ c ≠ 'f' ∧ c ≠ '"' ∧ c ≠ '[' ∧ c ≠ '{' := by
  refine ⟨?_, ?_, ?_, ?_, ?_, ?_, ?_⟩ <;>
    (try (intro e; subst e; revert h; decide))
  cases hw : isWs c
  · rfl
  · exfalso
    simp only [isWs, Bool.or_eq_true, decide_eq_true_eq] at hw
    rcases hw with ((rfl | rfl) | rfl) | rfl <;> revert h <;> decide

end TCV.JsonText
