import TCV.Model.Json
/-!
# Lemmas for M-Json: the compact text of a value is a balanced segment of the structural scan
-/
namespace TCV.Json
open TCV

theorem scan_append (s : Scan) (a b : Str) :
    scan s (a ++ b) = (scan s a).bind (fun s' => scan s' b) := by
  induction a generalizing s with
  | nil => rfl
  | cons c r ih =>
    simp only [List.cons_append, scan]
    cases scanChar s c with
    | none => rfl
    | some s' => exact ih s'

/-- a text that, scanned from the state `st d`, comes back to `st d`, and all of whose prefixes
end in a state satisfying `ok d` -/
def GSeg (st : Nat → Scan) (ok : Nat → Scan → Prop) (t : Str) : Prop :=
  ∀ d, scan (st d) t = some (st d) ∧ ∀ p q, t = p ++ q → ∃ s, scan (st d) p = some s ∧ ok d s

theorem gseg_nil {st ok} (hok : ∀ d, ok d (st d)) : GSeg st ok [] := by
  intro d
  refine ⟨rfl, ?_⟩
  intro p q h
  have : p = [] := by
    cases p with
    | nil => rfl
    | cons _ _ => simp at h
  subst this
  exact ⟨st d, rfl, hok d⟩

theorem gseg_append {st ok} {a b : Str} (ha : GSeg st ok a) (hb : GSeg st ok b) : GSeg st ok (a ++ b) := by
  intro d
  obtain ⟨ha1, ha2⟩ := ha d
  obtain ⟨hb1, hb2⟩ := hb d
  refine ⟨by rw [scan_append, ha1]; exact hb1, ?_⟩
  intro p q h
  rcases List.append_eq_append_iff.mp h with ⟨a', hp, hq⟩ | ⟨c', ha', hq⟩
  · -- p = a ++ a', b = a' ++ q
    obtain ⟨s, hs, hok⟩ := hb2 a' q hq
    exact ⟨s, by rw [hp, scan_append, ha1]; exact hs, hok⟩
  · -- a = p ++ c'
    exact ha2 p c' ha'

theorem gseg_single {st ok} (c : Char) (hc : ∀ d, scanChar (st d) c = some (st d)) (hok : ∀ d, ok d (st d)) :
    GSeg st ok [c] := by
  intro d
  refine ⟨by simp [scan, hc d], ?_⟩
  intro p q h
  cases p with
  | nil => exact ⟨st d, rfl, hok d⟩
  | cons x r =>
    simp only [List.cons_append, List.cons.injEq] at h
    have hr : r = [] := by
      cases r with
      | nil => rfl
      | cons _ _ => simp at h
    subst hr
    rw [← h.1]
    exact ⟨st d, by simp [scan, hc d], hok d⟩

/-- outside a string, at any depth: never below the starting depth -/
def Seg (t : Str) : Prop := GSeg (fun d => ⟨d, false, false⟩) (fun d s => d ≤ s.depth) t
/-- inside a string: the depth does not move -/
def InSeg (t : Str) : Prop := GSeg (fun d => ⟨d, true, false⟩) (fun d s => s.depth = d) t

theorem seg_nil : Seg [] := gseg_nil (fun d => Nat.le_refl d)
theorem inseg_nil : InSeg [] := gseg_nil (fun _ => rfl)
theorem seg_append {a b : Str} : Seg a → Seg b → Seg (a ++ b) := gseg_append
theorem inseg_append {a b : Str} : InSeg a → InSeg b → InSeg (a ++ b) := gseg_append

def plainOut (c : Char) : Bool := c != '"' && c != '{' && c != '[' && c != '}' && c != ']'

theorem seg_plain (c : Char) (h : plainOut c = true) : Seg [c] := by
  apply gseg_single
  · intro d
    simp only [plainOut, Bool.and_eq_true, bne_iff_ne, ne_eq] at h
    obtain ⟨⟨⟨⟨h1, h2⟩, h3⟩, h4⟩, h5⟩ := h
    simp [scanChar, h1, h2, h3, h4, h5]
  · intro d; exact Nat.le_refl d

theorem seg_cons_plain (c : Char) (t : Str) (h : plainOut c = true) (ht : Seg t) : Seg (c :: t) :=
  seg_append (seg_plain c h) ht

theorem seg_of_all_plain : ∀ t : Str, t.all plainOut = true → Seg t
  | [], _ => seg_nil
  | c :: r, h => by
    simp only [List.all_cons, Bool.and_eq_true] at h
    exact seg_cons_plain c r h.1 (seg_of_all_plain r h.2)

theorem inseg_plain (c : Char) (h1 : c ≠ '"') (h2 : c ≠ '\\') : InSeg [c] := by
  apply gseg_single
  · intro d; simp [scanChar, h1, h2]
  · intro d; rfl

/-- a backslash and the character it protects -/
theorem inseg_esc (x : Char) : InSeg ['\\', x] := by
  intro d
  refine ⟨by simp [scan, scanChar], ?_⟩
  intro p q h
  cases p with
  | nil => exact ⟨_, rfl, rfl⟩
  | cons a r =>
    simp only [List.cons_append, List.cons.injEq] at h
    cases r with
    | nil => rw [← h.1]; exact ⟨⟨d, true, true⟩, by simp [scan, scanChar], rfl⟩
    | cons b r' =>
      simp only [List.cons_append, List.cons.injEq] at h
      have hr : r' = [] := by
        cases r' with
        | nil => rfl
        | cons _ _ => simp at h
      subst hr
      rw [← h.1, ← h.2.1]
      exact ⟨⟨d, true, false⟩, by simp [scan, scanChar], rfl⟩

/-- brackets around a segment -/
theorem seg_wrap (o c : Char) (ho : o = '{' ∨ o = '[') (hc : c = '}' ∨ c = ']') {t : Str} (ht : Seg t) :
    Seg (o :: (t ++ [c])) := by
  intro d
  obtain ⟨h1, h2⟩ := ht (d + 1)
  have hopen : scanChar ⟨d, false, false⟩ o = some ⟨d + 1, false, false⟩ := by
    rcases ho with rfl | rfl <;> simp [scanChar]
  have hclose : scanChar ⟨d + 1, false, false⟩ c = some ⟨d, false, false⟩ := by
    rcases hc with rfl | rfl <;> simp [scanChar]
  have hfull : scan ⟨d, false, false⟩ (o :: (t ++ [c])) = some ⟨d, false, false⟩ := by
    simp only [scan, hopen, scan_append, h1, Option.bind_some, hclose]
  refine ⟨hfull, ?_⟩
  intro p q h
  cases p with
  | nil => exact ⟨_, rfl, Nat.le_refl d⟩
  | cons a r =>
    simp only [List.cons_append, List.cons.injEq] at h
    obtain ⟨ha, hr⟩ := h
    subst ha
    rcases List.append_eq_append_iff.mp hr with ⟨a', hp, hq⟩ | ⟨c', ht', _⟩
    · -- r = t ++ a', [c] = a' ++ q
      cases a' with
      | nil =>
        simp only [List.append_nil] at hp
        subst hp
        exact ⟨⟨d + 1, false, false⟩, by simp only [scan, hopen, h1], Nat.le_succ d⟩
      | cons x a'' =>
        simp only [List.cons_append, List.cons.injEq] at hq
        have ha'' : a'' = [] := by
          cases a'' with
          | nil => rfl
          | cons _ _ => simp at hq
        subst ha''
        rw [hp, ← hq.1]
        exact ⟨⟨d, false, false⟩, hfull, Nat.le_refl d⟩
    · -- t = r ++ c'
      obtain ⟨s, hs, hok⟩ := h2 r c' ht'
      exact ⟨s, by simp only [scan, hopen]; exact hs, by omega⟩

/-- a string literal around an in-string segment -/
theorem seg_quote {t : Str} (ht : InSeg t) : Seg ('"' :: (t ++ ['"'])) := by
  intro d
  obtain ⟨h1, h2⟩ := ht d
  have hopen : scanChar ⟨d, false, false⟩ '"' = some ⟨d, true, false⟩ := by simp [scanChar]
  have hclose : scanChar ⟨d, true, false⟩ '"' = some ⟨d, false, false⟩ := by simp [scanChar]
  have hfull : scan ⟨d, false, false⟩ ('"' :: (t ++ ['"'])) = some ⟨d, false, false⟩ := by
    simp only [scan, hopen, scan_append, h1, Option.bind_some, hclose]
  refine ⟨hfull, ?_⟩
  intro p q h
  cases p with
  | nil => exact ⟨_, rfl, Nat.le_refl d⟩
  | cons a r =>
    simp only [List.cons_append, List.cons.injEq] at h
    obtain ⟨ha, hr⟩ := h
    subst ha
    rcases List.append_eq_append_iff.mp hr with ⟨a', hp, hq⟩ | ⟨c', ht', _⟩
    · cases a' with
      | nil =>
        simp only [List.append_nil] at hp
        subst hp
        exact ⟨⟨d, true, false⟩, by simp only [scan, hopen, h1], Nat.le_refl d⟩
      | cons x a'' =>
        simp only [List.cons_append, List.cons.injEq] at hq
        have ha'' : a'' = [] := by
          cases a'' with
          | nil => rfl
          | cons _ _ => simp at hq
        subst ha''
        rw [hp, ← hq.1]
        exact ⟨⟨d, false, false⟩, hfull, Nat.le_refl d⟩
    · obtain ⟨s, hs, hok⟩ := h2 r c' ht'
      exact ⟨s, by simp only [scan, hopen]; exact hs, by omega⟩

/-! ### escapes -/

theorem hexDigit_plain : ∀ m, m < 16 → PVal.hexDigit m ≠ '"' ∧ PVal.hexDigit m ≠ '\\' := by decide

theorem inseg_hexN : ∀ (w n : Nat), InSeg (PVal.hexN w n)
  | 0, _ => inseg_nil
  | w + 1, n => by
    simp only [PVal.hexN]
    have h := hexDigit_plain (n % 16) (Nat.mod_lt _ (by decide))
    exact inseg_append (inseg_hexN w (n / 16)) (inseg_plain _ h.1 h.2)

theorem inseg_uEsc (n : Nat) : InSeg (uEsc n) := by
  have : uEsc n = ['\\', 'u'] ++ PVal.hexN 4 n := rfl
  rw [this]
  exact inseg_append (inseg_esc 'u') (inseg_hexN 4 n)

theorem shortEsc_form (c : Char) (e : Str) (h : shortEsc c = some e) : ∃ x, e = ['\\', x] := by
  unfold shortEsc at h
  repeat' split at h
  all_goals first | (cases h; exact ⟨_, rfl⟩) | cases h

theorem shortEsc_none (c : Char) (h : shortEsc c = none) : c ≠ '"' ∧ c ≠ '\\' := by
  unfold shortEsc at h
  constructor
  · intro e; subst e; simp at h
  · intro e; subst e; simp at h

theorem inseg_escCompactChar (c : Char) : InSeg (escCompactChar c) := by
  unfold escCompactChar
  cases h : shortEsc c with
  | some e =>
    obtain ⟨x, hx⟩ := shortEsc_form c e h
    simp only [hx]
    exact inseg_esc x
  | none =>
    simp only
    split
    · exact inseg_uEsc _
    · have := shortEsc_none c h
      exact inseg_plain c this.1 this.2

theorem inseg_flatMap : ∀ s : Str, InSeg (s.flatMap escCompactChar)
  | [] => inseg_nil
  | c :: r => by
    simp only [List.flatMap_cons]
    exact inseg_append (inseg_escCompactChar c) (inseg_flatMap r)

theorem seg_strCompact (s : Str) : Seg (strCompact s) := seg_quote (inseg_flatMap s)

/-! ### values -/

theorem tokOK_plain (t : Str) (h : tokOK t = true) : t.all plainOut = true := h

mutual
theorem seg_value : ∀ v : JVal, numsOK v = true → Seg (dumpsCompact v)
  | .null, _ => seg_of_all_plain _ (by decide)
  | .bool true, _ => seg_of_all_plain _ (by decide)
  | .bool false, _ => seg_of_all_plain _ (by decide)
  | .num t, h => by
    simp only [numsOK] at h
    exact seg_of_all_plain t (tokOK_plain t h)
  | .str s, _ => seg_strCompact s
  | .arr xs, h => by
    simp only [numsOK] at h
    exact seg_wrap '[' ']' (Or.inr rfl) (Or.inr rfl) (seg_list xs h)
  | .obj kvs, h => by
    simp only [numsOK] at h
    exact seg_wrap '{' '}' (Or.inl rfl) (Or.inl rfl) (seg_obj kvs h)
theorem seg_list : ∀ xs : List JVal, numsOKL xs = true → Seg (dumpsCompactL xs)
  | [], _ => seg_nil
  | [x], h => by
    simp only [numsOKL, Bool.and_true] at h
    exact seg_value x h
  | x :: y :: r, h => by
    simp only [numsOKL, Bool.and_eq_true] at h
    simp only [dumpsCompactL]
    refine seg_append (seg_value x h.1) (seg_cons_plain ',' _ (by decide) (seg_list (y :: r) ?_))
    simp only [numsOKL, Bool.and_eq_true]; exact h.2
theorem seg_obj : ∀ kvs : List (Str × JVal), numsOKO kvs = true → Seg (dumpsCompactO kvs)
  | [], _ => seg_nil
  | [(k, v)], h => by
    simp only [numsOKO, Bool.and_true] at h
    simp only [dumpsCompactO]
    exact seg_append (seg_strCompact k) (seg_cons_plain ':' _ (by decide) (seg_value v h))
  | (k, v) :: y :: r, h => by
    simp only [numsOKO, Bool.and_eq_true] at h
    simp only [dumpsCompactO]
    have hr : numsOKO (y :: r) = true := by
      obtain ⟨k', v'⟩ := y
      simp only [numsOKO, Bool.and_eq_true]; exact h.2
    exact seg_append (seg_append (seg_strCompact k) (seg_cons_plain ':' _ (by decide) (seg_value v h.1)))
      (seg_cons_plain ',' _ (by decide) (seg_obj (y :: r) hr))
end

end TCV.Json
