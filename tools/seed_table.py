#!/usr/bin/env python3
"""Markdown table of seeded defects from seeded/results.json.  usage: tools/seed_table.py ABCD | EFGH | IJKL | Y,Z,AA,BB"""
import json, sys
from pathlib import Path
V = Path(__file__).resolve().parents[1]
res = json.loads((V / 'seeded' / 'results.json').read_text())
letters = (set(sys.argv[1].split(',')) if ',' in sys.argv[1] else set(sys.argv[1])) if len(sys.argv) > 1 else None
print('| seed | property | change | needs | result of `./check <property> quick` (seed 0) |')
print('|------|----------|--------|-------|------|')
for k in sorted(res):
    if letters and k.split('_')[-1] not in letters:
        continue
    r = res[k]
    cell = lambda s: (s or '').replace('|', '\\|').replace('\n', ' ')[:170]
    out = r.get('check')
    out = out.get('0') if isinstance(out, dict) else out
    flag = '' if r.get('verified') else ' (not re-verified)'
    print(f"| `{k}` | {r.get('property')} | {cell(r.get('summary'))} | {cell(r.get('needs'))[:150]} | {out}{flag} |")
