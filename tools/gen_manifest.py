#!/usr/bin/env python3
"""Regenerates /verif/MANIFEST.json from the table below (claimed = a check module and theorems exist)."""
import json
from pathlib import Path
V = Path(__file__).resolve().parents[1]
theorems = json.loads((V / 'theorems.json').read_text())

P = {
 'C17': dict(
    text='Lean 4 theorems over the executable model TCV.ParMap: for every function, list, chunk size, thread count and every '
         'family of per-chunk completion orders parallelMap = map (parallelMap_eq_map), unsorted = chunk-wise permutation, '
         'every element submitted once, an exception of f propagates; chunked_concat/chunked_sizes for all lists and sizes. '
         'Tied to the code on every run by a correspondence that dictates completion orders to the real parallel_map '
         '(replaced executor) and diffs against the compiled model, plus the map oracle.',
    note='thread pool and asyncio replaced by a controller (completion order is the only scheduling freedom modelled); '
         'Python sorted() stable; trusted: Lean kernel, driver compilation, harness',
    technique='Lean 4 proof (permutation/sortedness induction) + differential correspondence with dictated schedules',
    ref='§4 C17'),
 'C10': dict(
    text='Lean 4 theorems over TCV.Names.findFull (char-level transcription of _find_task_full_name): a full name always resolves '
         'to itself, a unique match resolves, any result is a match that is the query itself or a `:`-boundary suffix of every '
         'other match, exact characterisation of both errors, and order independence under any permutation — for all name lists '
         'and all query strings; class-derived task names (Names.classTaskName): snake_injective, classTaskName_injective.  Correspondence: generated colliding name sets x all shorter forms x 3 orders through '
         '_find_task_full_name, Chain[...]/in/get_task and InputTasks, diffed with the model; structured reference resolver as oracle.',
    note='the structured reading of "less nested" (namespace/group lists are suffixes) is checked by the oracle on generated '
         'names; the theorem states the textual boundary form; Python str.split/endswith semantics are modelled',
    technique='Lean 4 proof (list/permutation lemmas) + differential correspondence',
    ref='§4 C10'),
 'C12': dict(
    text='The Lean model TCV.Key is the frozen key/path scheme of release 1.4.0 (registry text, inputs text, sha256[:32], path '
         'components); theorems pin its shape (key_def, key_format, path_shape, side_files, side_files_named_after_key; classTaskName_injective for class-derived task names). '
         'Decided by correspondence: a golden corpus of ~1600 (config, task)->key/path lines (474 specs incl. dotted config names in name mode) captured from the pinned commit before any repair must be reproduced by '
         'the model (from captured parameter descriptions) and by the implementation (rebuilding the spec on the current tree), '
         'plus generated configurations compared literally and files checked on disk.',
    note='statements are near-definitional; assurance rests on the golden corpus + correspondence; sha256 validated per run; '
         '2 of 300 captured specs are excluded because defect F4 changed their dependency graph (tools/filter_golden.py)',
    technique='Lean 4 frozen executable spec + golden-corpus and differential correspondence',
    ref='§4 C12'),
 'C02': dict(
    text='Lean 4 theorems over TCV.Key/TCV.PVal: the key text (hence the key, for every hash) is invariant under any permutation of '
         'parameter declarations, input tasks and mapping items, under adding ignored or default-valued parameters, under the '
         'values substituted for placeholders and under mounting beneath any namespace (own namespace stripped from input names). '
         'Correspondence: generated configurations and composed computation-preserving rewritings (10 families) built on the real '
         'code: every task keeps its location (metamorphic oracle) and literal keys equal the model; same chain in fresh '
         'interpreters with different PYTHONHASHSEED.',
    note='partial: parameter objects are opaque texts in the model; their argument-order dependence is known finding K2 (replayed); '
         'builder-level invariance (rename/move files, config vs context) is carried by the correspondence, the theorems are at key-text level; '
         'process independence is a runtime clause established by correspondence only',
    technique='Lean 4 proof (sorting/permutation invariance) + metamorphic differential correspondence',
    ref='§4 C02'),
 'C03': dict(
    text='Lean 4: repr_from_instantiation is an injective prefix code on well-formed quote-free JSON-like values up to mapping order '
         '(reprInst_injective_partial, by mutual structural induction, any nesting depth); the whole key text is an injective prefix code on '
         'well-formed content (keyText_injective_partial: parameter names, values, the None marker, input names and input keys can be read back), '
         'hence equal keys force equal persisted content and any difference upstream moves every key downstream (keyOf_injective_partial, '
         'downstream_moves, for a collision-free hash); the negation of the full statement is proved on the K1 witness. Correspondence: differing value pairs '
         '(mutations, look-alikes, adversarial splices of quotes/separators) at distance 0-5 upstream and differing wirings on the real '
         'code: literal keys equal the model, and the oracle demands different locations; collisions inside the K1 class are reported as KNOWN-FINDING.',
    note='partial (K1): hypothesis QuoteFree/ParamsOK; sha256[:32] collision-freeness assumed (hypothesis hH); Path-typed parameters and ReprStr '
         '(Python-escaped) are outside the key-text theorem and exercised by the correspondence; parameter objects opaque',
    technique='Lean 4 proof (prefix-code induction) + proved counterexample + differential correspondence',
    ref='§4 C03'),
 'C01': dict(
    text='Lean 4: the lazy pull machine TCV.Store (memory, store, forced flags, run log, failing runs, task/chain forcing) over an '
         'arbitrary universe of task objects of arbitrarily many chains/configs/processes on one data directory: history_sound — over '
         'every operation history of any length, if equal location implies equal computation and the initial store is good (e.g. '
         'empty), every value ever returned equals the semantic value of the requested computation (computed, in memory or loaded), '
         'and the invariant survives failures; the necessity of the location hypothesis is proved by a counterexample; the hypothesis itself '
         'is discharged by same_key_same_computation (via C03.merkle): in chains satisfying WFChain — PROVED of every chain the builder model '
         'returns (built_chain_wf: inputs created and keyed before their dependants, key = key function of declared parameters and input keys; '
         'value-level side conditions TaskOK decidable) and additionally evaluated by the driver on every chain the real code builds in a run — equal keys imply the same computation at every depth, hence equal '
         'semantic values for every semantics that is a function of persisted parameters and input values. '
         'Correspondence: random histories (requests, failures, forcing, simulated and real interpreter restarts, contexts, double '
         'mounting) on the real code vs the model per operation, plus a reference provenance term computed from the config tree.',
    note='partial: the hypothesis LocDeterminesComp is discharged by C02/C03 only outside findings K1/K3 (K3 in-domain here and reported as '
         'KNOWN-FINDING); builder-level correctness of descriptors is C08/C09; chain structure is extracted from the implementation; '
         'parameter mode; data-class byte formats are C06',
    technique='Lean 4 proof (invariant by induction over histories, inner induction over recursion depth) + differential correspondence',
    ref='§4 C01'),
 'C04': dict(
    text='Lean 4 over TCV.Store: a result in memory, or stored and not forced, is served without running anything, requesting any '
         'input or touching the store (served_from_memory / served_from_store, any state, any upstream), inspection changes nothing, a '
         'request only appends to the run log and never forgets results (request_frame), a second request after a successful one runs '
         'nothing. Correspondence: random histories without force/failure/deletion on the real code vs the model (values, run-log '
         'delta with order, in-memory/stored sets per operation) and an oracle on the real run log (no location twice, nothing run by '
         'construction/inspection, nothing available run, only the used upstream closure).',
    note='run_at_most_once: over any history of value requests and inspections from an empty store no location (no in-memory object) is computed '
         'twice, under stratification (inputs precede dependants, locations layered likewise); restarts are simulated in-process in this check '
         '(real interpreter restarts in C01/C05); fuel > number of objects',
    technique='Lean 4 proof (one-step laws + frame induction) + differential correspondence',
    ref='§4 C04'),
 'C07': dict(
    text='Lean 4 over TCV.Store: the set marked by chain.force is exactly the reflexive-transitive downstream closure defined by '
         'inductive reachability over declared edges (force_marks_exactly, any DAG), forcing clears exactly their memory, runs nothing, '
         'leaves upstream/unrelated tasks and (without delete_data) the store untouched, delete_data removes exactly the forced '
         'persisting results, a forced task goes through run on its next request and replaces the stored result. Correspondence: '
         'random histories with task/chain forcing and all flags vs the model per operation; oracle with an independent graph search.',
    note='recompute_all_once (every forced task exactly once for EVERY iteration order) and forced_runs_once are theorems for failure-free '
         'runs; the observed iteration order is fed to the model in the correspondence; networkx is replaced by the model own reachability',
    technique='Lean 4 proof (reachability induction, state-effect lemmas) + differential correspondence',
    ref='§4 C07'),
 'C08': dict(
    text='Lean 4 over the builder model TCV.Config/TCV.Build (transcribed from a validated executable reference of config loading, '
         'uses/namespaces, multi-part files, contexts, task creation, input resolution, key computation and object sharing): a config '
         'contributes exactly its declared non-abstract non-excluded classes; an input is looked up under the declaring task\'s namespace with '
         'the `::`-boundary test (ns_prefix_boundary) and whatever it resolves to is a task of the chain matching with namespaces compared '
         'exactly (via the C10 theorems); a missing required input is an error that nothing later undoes, a missing optional input becomes '
         'its default; closure queries are the inductive reachability proved for C07. WHOLE-CHAIN theorems for every chain Build.build returns, every '
         'fuel and registry (C08Chain.lean): chain_nodes_exact (tasks = the declared non-abstract non-excluded classes, each once), '
         'chain_inputs_declared / chain_final_inputs / chain_own_objects_exact (edges = in-namespace resolutions of declared inputs), '
         'chain_dependency_order (a rank strictly increasing along every edge), cyclic_declaration_fails (a dependency cycle contradicts '
         'success, for every recursion limit). Name mode (BuildNM.lean): isDAG_iff_rank — the explicit acyclicity test accepts exactly the graphs '
         'with a topological rank — and nm_chain_acyclic. Correspondence: generated pipelines x mountings x '
         'contexts incl. a malformed stream (cycles, dangling, duplicates) and a conflict stream, full task description or error kind, real '
         'code vs model vs executable reference; closure queries for all pairs; every second spec also in name mode against BuildNM.build; module wildcards '
         '(`mod.*`) and partial wildcards over class names (`mod.T*`, `mod.*T*`) in tasks and excluded_tasks; finding K8 (a by-name input that starts with the '
         'declaring namespace is read as already qualified: k8_same_namespace_fails / k8_other_namespace_builds) with its witness on model and code; the wildcard matcher '
         'itself is in the model (Names.globPrefix / globSelect: globPrefix_literal, globPrefix_lit_star, globPrefix_star_cons, globSelect_sublist) and compared with '
         'get_classes_by_import_string on generated modules; an input declared by class is that class (byclass_homonym_is_absent, repair F18).',
    note='final edges of chains in which an object is shared from another mount or chain are characterised (chain_final_inputs) but acyclicity is shown '
         'for first-pass edges and own-object chains; the model recurses with fuel (Python: RecursionError); patterns restricted to literal / literal.*; networkx replaced by own reachability',
    technique='Lean 4 proof (per-step laws of the builder, reuse of C10/C07 theorems) + differential correspondence with an executable reference',
    ref='§4 C08'),
 'C09': dict(
    text='Lean 4 over TCV.Config/TCV.Build, for all data/contexts/namespaces/declarations: context_precedence (entry for exactly the config\'s '
         'namespace over global context entry over file entry; entries of any other namespace invisible), merge_later_wins, param_value '
         '(config value under name_in_config, else default, else missing_param; wrong type is bad_type), params_ok_iff, bad_param_is_error, '
         'register_conflict (a name declared by two configs is the error `conflict` wherever the first declaration sits); WHOLE-CHAIN (C09Chain.lean, every '
         'chain the builder returns): conflict_never_resolved_by_order (a task name is declared by exactly one config of the chain), '
         'values_of_declaring_config_only, every_parameter_has_its_value. Correspondence: '
         'config trees x contexts (dict/file/list/nested uses, for_namespaces, repeated mounting, multi-part, YAML): every parameter of every '
         'task and error kinds, real code vs model vs reference table; aliasing probes on the real code (context dicts and prepared Context objects shared by configs).',
    note='the heap-aliasing clause (no shared mutable values) has no model counterpart and is decided on the implementation only; noninterference '
         'between configs is structural in the model (a task\'s parameters are computed from its declaring config\'s data only) and exercised by correspondence',
    technique='Lean 4 proof (association-list algebra, induction over declarations) + differential correspondence',
    ref='§4 C09'),
 'C13': dict(
    text='Lean 4: the registry invariant of (Multi)Chain object sharing — after any sequence of task creations two tasks are one object iff they '
         'have the same (task name, key) (assign_spec, shared_iff_same_loc, regOK_after); a member chain creates the same tasks, in the same order, with the same parameter values, '
         'first-pass inputs and keys as the standalone chain of its config, whatever registry it is built over (recreate_sim, '
         'created_tasks_registry_independent, multichain_member_eq_standalone: simulation up to object identity, by induction on the recursion fuel); '
         'name mode (BuildNM.buildMulti, registry keyed by (task name, repr_name_without_namespace)): every task of every member is declared by a config of that member and its object was made '
         'by a member config with the same repr_name_without_namespace, whose name is its key (nm_multichain_objects); if such configs have equal names every member task has the key of its own '
         'declaring config (nm_multichain_member_keys; nm_multichain_member_keys_clean discharges the name hypothesis for configs whose paths and part names carry no `:`, paths no `#`, namespaces no trailing `:` — clean_name_determined, reprNameNoNs_clean, last_split); a second member config with the same name is refused (dupChain, both modes) and a built MultiChain files its members under pairwise different names (multi_names_distinct, nm_multi_names_distinct); '
         'MultiChain.force = Chain.force on every member (multichain_force_fans_out); finding K6 is proved on its witness in the model '
         '(every member config builds standalone, the MultiChain of the two fails). Correspondence: lists of 2-5 configs built as MultiChain and '
         'standalone on the real code vs the model (tasks, parameters, inputs, keys, object identity matrix across chains, incl. the mutation '
         'of shared objects by later chains); oracles: member == standalone, one object iff same location, value in memory for other chains, force fans out.',
    note='partial (K6): the registry-independence theorem covers tasks, parameters, keys and first-pass inputs; the input tables after the second dependency pass are "same as standalone" only when no computation is shared across member chains under different namespaces (the class '
         'predicate of K6, reported as KNOWN-FINDING incl. its silent optional-input variant); values/forcing across chains rest on the C01/C07 machine theorems',
    technique='Lean 4 proof (registry invariant) + proved counterexample + differential correspondence',
    ref='§4 C13'),
 'C18': dict(
    text='Lean 4 over TCV.RunRec (handler attach/truncate/emit/detach, run-info save), for every sequence of runs in one process '
         '(successful, failing, retried, forced; any tasks, also objects of different chains sharing logger name and location): no file '
         'handler stays attached between runs, the log at a location is exactly the lines of the last run there (nothing from other runs or '
         'tasks), run info is that of the last successful run with its records in order; the pre-repair (leaky) protocol is refuted on the '
         'fail-then-retry witness. Correspondence: histories with logging tasks, failures, retries, forcing, chains sharing names; which runs '
         'happen/succeed is observed on the real code, log and run_info of every task after every operation are compared with the model; '
         'parameter representations in run info come from the Lean key model.',
    note='timestamps/user/YAML formatting not compared; runs are atomic blocks in the model (nested runs use other logger names); after a failed '
         'forced recomputation the log describes the failed run while data and run info are the earlier successful run\'s — observed, not judged',
    technique='Lean 4 proof (invariant + induction over run sequences) + proved counterexample + differential correspondence',
    ref='§4 C18'),
 'C11': dict(
    text='Lean 4 theorems over the executable model TCV.Subst (scan = the segmentation re.subn(r"{(.*?)}") induces, as a one-pass '
         'scanner over List Char with four declarative equations proved; substStr = _apply; substTree = search_and_replace_placeholders; '
         'ReprStrObj = the state of a ReprStr instance): for every environment, string and JSON-like value of any depth the result is '
         '_apply on every string leaf with shape, keys and non-string data unchanged, and shape+leaves determine it (subst_all_leaves, '
         '_unique); text unchanged when no matched name is defined, matched names never contain `}` or a newline (undefined_untouched, '
         'matched_names_clean); segmentation lossless and the replacement is inserted verbatim, the rest processed independently '
         '(render_scan, subst_once); a second application under any global_vars is the identity (subst_idempotent, subst_fixed_point); '
         'value = substituted text and == the plain string (value_is_plain_text); representation = Python repr of the source as soon as '
         'the pattern matched, independent of the substituted values for whole structures and for object-definition texts '
         '(repr_keeps_placeholder, repr_ignores_values, objdef_repr_ignores_values); copies keep all three fields, deepcopy is the '
         'identity on values (copy_keeps_repr, deepcopy_keeps_repr), the pre-F6 copy provably changes the repr. Correspondence per run: '
         'brace-grammar strings in nested structures x global_vars as dict / dict subclass / object (class attrs, instance attrs, '
         'property, dunder attributes) through search_and_replace_placeholders, Config(data, context, for_namespaces, object '
         'definitions), Parameter.value/value_repr (no dtype, str, Path), real chains (keys under two value assignments, deep-copied '
         'config, stored result) and `uses` paths of config and context files; every leaf compared in text, repr source and type tag, '
         'plus second application, deepcopy, object-definition text, literal keys; independent regex-free reference as oracle.',
    note='re.subn for the one pattern is modelled (argument in Model/Subst.lean, tied by the correspondence on every run); global_vars is '
         'a lookup name -> str(value); tuples/sets in config data are outside the domain (the code raises); context merging itself is '
         "C09's business (the check uses whole-key overrides only); three defects found while building were repaired (F11, F12; F14 for C20). "
         'Not modelled: import_by_string, YAML scalars',
    technique='Lean 4 proof (structural induction over the scanner and over nested values) + differential correspondence + reference oracle',
    ref='§4 C11'),
 'C20': dict(
    text='Lean 4 theorems over TCV.Migrate.migrate (state = source tree x target tree, a tree = result map + directories; one loop step '
         'per task exactly as migrate_to_parameter_mode: has_data side effects, size assertion, copy unless dry): for every task list and '
         'all trees, if results sharing a target location agree and the target holds at task locations only the source results (fresh, or '
         'left by an earlier migration) a real migration succeeds and the target is the closed form "source result of the first '
         'persisting task with a result at that location, unchanged elsewhere" (migrate_exact; per task with a fresh target: exactly the '
         'persisting tasks that had a result, migrate_exact_per_task); a second migration succeeds and changes no result '
         '(migrate_idempotent); a dry run changes no result location of either tree (dry_writes_nothing); no source result changes, no '
         'directory disappears, new directories are task / _tmp directories of persisting tasks (source_untouched). K5: "source tree '
         'unchanged" is proved false on the witness; it is proved under the decidable hypothesis that those directories exist already '
         '(source_untouched_partial). Correspondence per run: generated file-based pipelines (all storable kinds, namespaces, contexts, '
         'placeholders, large results) partially computed in name mode x {dry, real, twice, dry-real, pre-populated target, foreign file} '
         'and parts of multi-part files / namespace argument: result files (location, size, digest) and directories of both trees after '
         'every invocation equal the model; oracle: source bytes unchanged, target = exactly the computed persisting tasks, values '
         'equal, nothing run, second run and dry run change nothing.',
    note='partial (K5): the source gains empty directories (reported as KNOWN-FINDING for every case of the class; created files or changed '
         'contents would be a VIOLATION); task locations in both chains are inputs of the model (extracted from the real chains, their '
         'derivation is C12/C02/C03); "nothing is run afterwards" is observed on the real code (run log), in the model it is C04; '
         'shutil copies and st_size are trusted; leftover <name>_tmp directories with contents in the source are outside the domain '
         '(DirData.init_persistence deletes them)',
    technique='Lean 4 proof (induction over the task list with a closed form) + proved counterexample + differential correspondence with tree checksums',
    ref='§4 C20'),
 'C19': dict(
    text='Lean 4 theorems over TCV.TestM: the lazy pull machine of Task.data over a universe with value-only nodes (MockTask, defaults of '
         'absent inputs) and real tasks, for arbitrary task functions f; for every universe, request, fuel and every initial state whose '
         'store holds no foreign result (in particular a fresh base_dir) whatever the helper yields equals what the real chain yields - '
         'the chain in which every mock is a constant task and locations are key-derived - namely f applied to the input values in use '
         'order (test_value_eq_real_partial/_fresh, good_preserved); K4: with a reused base_dir the second helper returns the first '
         'result (k4_second_returns_first), so the unrestricted statement is proved false (test_value_eq_real_full_false); mocks are never '
         'run, never memoised, never stored, for all requests and states (mocks_never_run_never_stored, mock_value); construction succeeds '
         'iff every declared parameter has a value or default and every declared input is a task, a mock or has a default, and fails '
         'naming such a parameter (checked first) or input otherwise (missing_reported_at_construction). Correspondence per run: generated '
         'families (inputs by class / name / qualified name, optional inputs, run arguments vs pulled vs unused, defaults, parameter '
         'objects, JSON-persisting and in-memory classes) x splits into real tasks and mocks (by class or name, falsy values, mock '
         'overriding a given task) through TestChain and create_test_task: values, run log, files under base_dir and construction errors '
         'equal the model; oracle: the same family as a real parameter-mode chain with constant upstream tasks.',
    note='partial (K4): hypothesis "base_dir holds no foreign result"; reuse of an explicit base_dir with another assignment is generated, '
         'the model reproduces the stale value and the mismatch with the real chain is reported as KNOWN-FINDING, anything outside that '
         'class is a VIOLATION; names resolve exactly in the model (C10 covers resolution; generated families have unique short names); a '
         'None mock has no real-chain counterpart (a task cannot return None) and is compared with the model only; kinds json/in-memory '
         '(round trips are C06)',
    technique='Lean 4 proof (fuel induction with a store invariant, frame invariant for mocks) + proved counterexample + differential correspondence against helper and real chain',
    ref='§4 C19'),
 'C05': dict(
    text='Lean 4 theorems over the executable model TCV.FS of the file protocols of data.py and the try/except of Task.data (path roles '
         'final/tmp/old/error/log/runinfo; nodes absent|file complete/torn/empty|dir complete/partial; primitives open-truncate, non-atomic '
         'write, atomic rename/move, non-atomic rmtree, mkdir, unlink; guarded protocols per data class as the code is after repairs F7a/F7b): '
         'for every data class, value, raise point, first/forced/reusing request, every well-typed initial state with arbitrary leftovers and every '
         'crash point k including half-done primitives, the final name shows nothing or a complete old/new result (crash_safe, from the '
         'class-independent lemma "final is touched only by atomic renames of a staged complete node", proved by induction over the protocol); '
         'exceptions leave the final name unchanged and reset the data object (exception_safe); from every such state an uninterrupted request '
         'succeeds and publishes exactly the returned value (recovers); failed DirData work is moved to <key>_error, ContinuesData work survives '
         'failure, crash and restart until finished(); delete is atomic too. Correspondence on every run: audit-hook protocol extraction of the '
         'real request for every class x mode x raise point diffed with the model trace/outcome/state, then one killed process per file operation '
         '(incl. inside rmtree and per file of a work directory) and torn prefixes of every written file, state at the crash point and the later '
         'process\' has_data/value/run count/state and a forced recomputation diffed with the model; random two-fault histories; model-independent oracle.',
    note='partial: atomicity of rename on one file system, "a killed process leaves a prefix", and what a reader does with torn bytes are OS/library '
         'behaviour (assumed/sampled); durability (fsync) out of scope; FigureData has the file-class protocol in the model but is not exercised '
         '(its .png/.svg side files are outside the model); log/run-info content is not modelled here (C18); crash children are forked from a '
         'warmed-up worker, a sample is re-run in fresh interpreters and must agree; one crash or two faults per history in the correspondence '
         '(the theorems have no such bound: every crash state satisfies the hypotheses of crash_safe/recovers again)',
    technique='Lean 4 proof (induction over protocols, symbolic execution over all state shapes) + audit-hook protocol extraction + crash replay',
    ref='§4 C05'),
 'C06': dict(
    text='Lean 4 theorems about taskchain\'s own part of the round trip, with the serializers as parameters: glue_roundtrip (type check, '
         'is-None guards, set_value/save/fresh object/exists/load/value return exactly what run returned, for classes that re-read the file '
         'and those that do not), none/mistyped results rejected, falsy values pass, jsonl_framing (write_jsons/iter_json_file restore the item '
         'encodings for every item count whenever they contain no raw line break and are not white-space bordered), listOfNumpy_order (numeric '
         'sort of i.npy restores the list for every length and every directory enumeration order; proved counterexample for the lexicographic '
         'sort at 11 arrays), load_pure (the load branch executes no primitive on the result), and for JSON text json_roundtrip (fuelled '
         'recursive-descent decoder inverts the orjson-compact encoder on all values: any nesting, all of Unicode, any integer, float tokens) '
         'with encode_framed, which discharges the framing hypothesis, so jsonl_json_roundtrip holds outright. Correspondence on every run: '
         'type-directed values per data class through real tasks (computing chain, later chain, shuffled directory enumeration, forced '
         'recomputation with a shorter list), type-strict comparison with what run returned, stored bytes and mtime unchanged by loading, '
         'traced reload writes nothing; stored JSON bytes equal the model\'s indent-2/sort-keys encoder, the model\'s decoder agrees with the '
         'loaded value, json-lines text/rows and ListOfNumpyData names/order equal the model.',
    note='partial: numpy/pandas/pickle/orjson round trips are assumptions (Codec.Faithful) sampled by the check, not proved; the round-trip '
         'theorem for JSON text is proved for the compact form, the indent-2/sort-keys form is tied by byte equality + decoder agreement only; float '
         'printing is a parameter (tokens); outside the domain and not generated: NaN/inf, tuples, non-string keys, >64-bit ints, object arrays, '
         'FigureData; the later chain is a new object graph in the same interpreter',
    technique='Lean 4 proof (parser/printer mutual induction, permutation/sortedness, list framing) + differential correspondence + direct round-trip oracle',
    ref='§4 C06'),
 'C14': dict(
    text='Lean 4 theorems over the executable model TCV.Cache (FileCache.get/get_or_compute/force, JsonCache key check and allow_nones, '
         'sub-caches, InMemoryCache as a machine over file states absent | corrupt | entry k v): cache_refines_dict — for every '
         'operation sequence of any length (get / get_or_compute / forced, returning or raising computers, any keys and sub-caches, '
         'interleaved with arbitrary damage: delete, empty, truncate, swap in a file recorded for another key) from every file system '
         'the outputs and computer-call counts equal those of a dictionary specification in which corrupt files count as absent '
         '(induction over the operation list via an abstraction function); get_never_computes, raise_stores_nothing, '
         'foreign_key_reported, damaged_is_recomputed, force_recomputes_and_replaces, stored_roundtrip, subcaches_disjoint / '
         'distinct_keys_disjoint (paths differ when (sub-cache directory, key hash) differ), and torn_json_never_loads: every proper '
         'prefix of the text JsonCache writes for {"key":k,"value":v} (any key, any nesting) fails the structural scan of a JSON '
         'document. Correspondence on every run: seeded operation sequences per cache type (Json with allow_nones on/off, DataFrame, '
         'NumpyArray, InMemory) with unicode keys (empty, "/", NUL, astral, look-alikes), nested sub-caches, fresh cache objects, '
         'injected damage, a truncation sweep over every proper prefix length of real entry files, literal comparison of the entry '
         'text and of the set of cache files (real sha256 paths) with the compiled model; dictionary oracle in Python.',
    note='partial: sha256 collision-freeness is a hypothesis (hash is a parameter); serializer round-trip and "a damaged pickle/npy file makes the '
         'reader raise" are assumptions sampled by the sweep (a theorem only for the JSON text, and there under the assumption that '
         'orjson.loads rejects what the structural scan rejects — checked on prefixes and random mutations every run); values are opaque '
         'in the model (only None is inspected); per-thread memory of InMemoryCache and DummyCache are not modelled; quirk modelled as is: '
         'a sub-cache of JsonCache(allow_nones=False) allows None again (constructor default)',
    technique='Lean 4 proof (refinement by abstraction function + induction over histories; balanced-segment induction for JSON prefixes) '
              '+ differential correspondence with damage injection',
    ref='§4 C14'),
 'C15': dict(
    text='Lean 4 theorems over TCV.Conc, a small-step interleaving semantics of FileCache.get / get_or_compute on one key for ANY number of '
         'callers (each get, get_or_compute or forced get_or_compute, with a returning or raising computer; program counters acquire, '
         'exists, release, load (outside the lock), acquire, compute, open temp, write temp, replace, release), every interleaving of any '
         'length, from every initial state (absent or complete earlier entry, any stale temp file): lock_mutex, file_complete (the cache '
         'file is always absent or a complete entry of a finished computation), returns_complete, no_failure_from_writer, '
         'monotone_presence, no_recompute_after_return, get_after_store_hits, computes_at_most_once — by one inductive invariant over the '
         'step relation, no bound on callers or steps; the executable step function is proved equal to the relation (step_iff, '
         'run_is_reach). For the protocol before repair F8 (write in place) the negation is proved on the two witness schedules '
         '(C15_full_inplace_false). Correspondence: a deterministic scheduler over the REAL code (harness-side replacement of FileLock, '
         'wrappers around Path.exists / open / os.replace / unlink, computer calls as scheduling points) enumerates ALL interleavings '
         'of every pair and every triple of callers (quick: triples over get/get_or_compute/forced; thorough: also raising computers) '
         'with and without a stored entry, plus seeded random schedules of 3-5 callers; every schedule is replayed on the compiled model '
         '(step labels, enabled sets, results, compute counts, final file/temp/lock compared); property oracle on the observed runs; '
         'one multi-process smoke run with the real filelock.',
    note='partial: FileLock is a mutex and os.replace is atomic by assumption (threads are scheduled at the instrumented points; processes '
         'are covered by that assumption and a smoke run only); the enumeration is exhaustive for those scheduling points, not for '
         'byte-level preemption inside a write (the temp file is private to the lock holder, which is what the model states); one key only '
         '(keys have disjoint files by C14)',
    technique='Lean 4 proof (inductive invariant over an interleaving semantics, grind) + exhaustive schedule enumeration against the real code',
    ref='§4 C15'),
 'C16': dict(
    text='Lean 4 theorems over TCV.Cached (the decorator\'s normalisation loop transcribed as it is, Python\'s own binding defined '
         'independently): key_is_binding — for every signature (any number of positional-or-keyword and keyword-only parameters, any '
         'defaults), every list of ignored names and every valid call, the dictionary that is serialised equals Python\'s binding with '
         'defaults filled minus ignored names (sorted by name); hence same_binding_same_key for all spellings, ignored_never_matter, '
         'different_binding_different_key (for an encoder injective on sorted dictionaries) and different_binding_different_key_json — the same for '
         'json.dumps(sort_keys=True) itself, whose injectivity is PROVED (Json.dumpsRaw_injective: prefix code over the ensure_ascii escapes incl. '
         'surrogate pairs, separators and nested containers; encJ_injective) —, method_gets_binding; methods with a **kwargs catch-all: key_is_binding_kw (the serialised dictionary is the '
         'binding of the named parameters plus the extra keyword arguments, minus ignored names), different_extra_different_key, keyword_order_never_matters, '
         'catchall_param_inert; '
         'methods_and_versions_disjoint (sub-cache name determines method and version) and, through M-Cache, no shared file; '
         'force_cache / only_cache / store_cache_value stated against the C14 theorems. Correspondence: generated signatures (0-5 '
         'parameters, mixed kinds), 2-6 spellings per binding incl. reordered nested mappings, perturbed bindings, confusable sibling '
         'methods/versions, control keywords, raising methods, invalid calls; back ends: recording dict cache_object, own JsonCache, own '
         'InMemoryCache, bare @cached — behind a recording proxy; compared per call: key text (json.dumps re-implemented in the model, '
         'literal), sub-cache name, result, method-call count, entry count, and Lean valid/binding against inspect.signature.bind + '
         'apply_defaults; dictionary oracle over Python\'s binding.',
    note='argument values are JSON values in canonical form with number tokens as Python prints them (non-empty, free of structural characters, not a '
         'literal) — the remaining hypothesis of the injectivity theorem; that the model text IS json.dumps is tied by the literal key comparison; *args signatures, custom key functions and '
         'parameters named like the control keywords or `obj` are outside the domain; outside the domain the code does not reject calls '
         'Python would reject (surplus positionals are bound to keyword-only parameters or dropped) — modelled and compared as is',
    technique='Lean 4 proof (loop invariant as dictionary lookup, permutation/sorting lemmas) + differential correspondence over spellings',
    ref='§4 C16'),
}

checks, na = [], []
props = [json.loads(l) for l in (V / 'properties.jsonl').read_text().splitlines() if l.strip()]
for p in props:
    pid = p['id']
    if pid in P and pid in theorems and (V / 'harness' / 'tcv' / 'props' / f'{pid.lower()}.py').exists():
        e = P[pid]
        checks.append({
            'property_id': pid,
            'quick_cmd': f'./check {pid} quick',
            'thorough_cmd': f'./check {pid} thorough',
            'evidence_file': f'/verif/evidence/{pid}.json',
            'replay_cmd_template': f'./check {pid} quick --replay {{path}}',
            'engine': 'tcv',
            'level_claimed': {'category': 'proof', 'text': e['text'], 'design_ref': e['ref']},
            'level_note': e['note'],
            'technique': e['technique'],
        })
    else:
        na.append({'property_id': pid, 'reason': 'not claimed yet: model/theorems/correspondence for this property are still being built (see DESIGN.md §4); nothing is asserted about it'})

m = {
 'version': 1,
 'setup_cmd': 'cd /verif/lean && lake build',
 'hooks': {'guard': 'TASKCHAIN_VERIF', 'enable': 'no hooks in /repo: all instrumentation is done from the harness process (monkeypatching, audit hooks)',
           'baseline_off_cmd': 'cd /repo && /venv/bin/python -m pytest -ra -q -p no:cacheprovider --timeout=900 --continue-on-collection-errors',
           'source_commits': [], 'add_only': True},
 'engines': [{'name': 'tcv', 'path': '/verif/lean + /verif/harness', 'serves_properties': [c['property_id'] for c in checks],
              'kind_free_text': 'hand-written executable Lean 4 model (library TCV) with theorems per property, native JSON-lines driver, Python correspondence harness against /repo working tree'}],
 'checks': checks,
 'not_applicable': na,
 'notes': 'Every check: lake build (kernel re-checks all theorems) + axiom audit + forbidden-token grep, then correspondence model vs /repo working tree, then property oracle. Exit 2 = broken check (tool failure), never a verdict.',
}
(V / 'MANIFEST.json').write_text(json.dumps(m, indent=1))
print('claimed', [c['property_id'] for c in checks], 'not claimed', len(na))
