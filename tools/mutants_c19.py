T = 'utils/testing.py'
MUTANTS = {
 'falsy-mock-dropped': (T, "            tasks[name] = MockTask(value)", "            if value:\n                tasks[name] = MockTask(value)"),
 'falsy-mock-none': (T, "        return self._value\n", "        return self._value or None\n"),
 'mocks-first': (T, """        for task_class in self._tasks:
            task = self._create_task(task_class, self.config)
            tasks[task_class.fullname(self.config)] = task

        for mock_task, value in self._mock_tasks.items():
            name = mock_task if isinstance(mock_task, str) else mock_task.fullname(self.config)
            tasks[name] = MockTask(value)
""", """        for mock_task, value in self._mock_tasks.items():
            name = mock_task if isinstance(mock_task, str) else mock_task.fullname(self.config)
            tasks[name] = MockTask(value)

        for task_class in self._tasks:
            task = self._create_task(task_class, self.config)
            tasks[task_class.fullname(self.config)] = task
"""),
 'mock-short-name': (T, "name = mock_task if isinstance(mock_task, str) else mock_task.fullname(self.config)", "name = mock_task if isinstance(mock_task, str) else mock_task.slugname.split(':')[-1]"),
 'fixed-default-dir': (T, "            base_dir = Path(tempfile.TemporaryDirectory().name)", "            base_dir = Path(tempfile.gettempdir()) / 'taskchain_test_chain'"),
 'create-drops-parameters': (T, "    test_chain = TestChain([task], parameters=parameters, mock_tasks=input_tasks, base_dir=base_dir)", "    test_chain = TestChain([task], mock_tasks=input_tasks, base_dir=base_dir)"),
 'mock-is-real-class': (T, "            tasks[name] = MockTask(value)", "            tasks[name] = MockTask(value) if isinstance(mock_task, str) else self._create_task(mock_task, self.config)"),
}
