#!/venv/bin/python
"""Verify seeded defects and run the checks against them.
usage: tools/run_seeds.py [--only C03,C07] [--skip-verify] [--seeds 0,1]
A seed lives in /verif/seeded/<id>/ (patch.diff, demo.py, meta.json).  The patch is applied to a scratch worktree of /repo
(never to /repo itself); checks run with TCV_REPO pointing at it.  Results -> /verif/seeded/results.json"""
import json, os, subprocess, sys, shutil
from pathlib import Path
V = Path(__file__).resolve().parents[1]
WT = Path('/tmp/tcv_seedchk')
PY = '/venv/bin/python'


def sh(cmd, **kw):
    return subprocess.run(cmd, shell=True, capture_output=True, text=True, **kw)


def main():
    args = sys.argv[1:]
    only = None
    if '--only' in args:
        only = set(args[args.index('--only') + 1].split(','))
    seeds = [0]
    if '--seeds' in args:
        seeds = [int(x) for x in args[args.index('--seeds') + 1].split(',')]
    skip_verify = '--skip-verify' in args
    claimed = {c['property_id'] for c in json.load(open(V / 'MANIFEST.json'))['checks']}
    sh(f'git -C /repo worktree remove --force {WT}'); shutil.rmtree(WT, ignore_errors=True)
    r = sh(f'git -C /repo worktree add -f {WT} HEAD')
    assert WT.exists(), r.stderr
    resf = V / 'seeded' / 'results.json'
    results = json.loads(resf.read_text()) if resf.exists() else {}
    try:
        for d in sorted((V / 'seeded').iterdir()):
            if not d.is_dir() or not (d / 'patch.diff').exists():
                continue
            meta = json.loads((d / 'meta.json').read_text())
            prop = meta['property']
            if only and prop not in only and d.name not in only:
                continue
            sh(f'git -C {WT} checkout -- . && git -C {WT} clean -fdq')
            a = sh(f'git -C {WT} apply {d / "patch.diff"}')
            res = results.get(d.name, {})
            res.update(property=prop, summary=meta.get('summary'), needs=meta.get('needs'), applies=a.returncode == 0)
            if a.returncode != 0:
                res['error'] = a.stderr[-300:]; results[d.name] = res; continue
            env = f'PYTHONPATH={WT}/src'
            if not skip_verify:
                t = sh(f'cd {WT} && {env} {PY} -m pytest -q -p no:cacheprovider --timeout=900 2>&1 | tail -1')
                res['suite'] = t.stdout.strip()[-60:]
                dm = sh(f'cd /tmp && {env} {PY} {d / "demo.py"}', timeout=300)
                dc = sh(f'cd /tmp && PYTHONPATH=/repo/src {PY} {d / "demo.py"}', timeout=300)
                res['demo_with_patch_exit'] = dm.returncode; res['demo_clean_exit'] = dc.returncode
                res['verified'] = ('128 passed' in res['suite']) and dm.returncode == 1 and dc.returncode == 0
            if prop in claimed:
                outs = {}
                for sd in seeds:
                    c = sh(f'cd {V} && TCV_REPO={WT} VERIF_SEED={sd} ./check {prop} quick 2>&1 | tail -3', timeout=1800)
                    line = [l for l in c.stdout.splitlines() if l.startswith('VIOLATION') or l.startswith('BROKEN') or 'exit' in l]
                    outs[str(sd)] = 'VIOLATION' if any(l.startswith('VIOLATION') for l in line) else ('BROKEN' if any(l.startswith('BROKEN') for l in line) else 'pass')
                    if any('no-failing-input-found' in l for l in line):
                        outs[str(sd)] = 'VIOLATION(no-failing-input-found)'
                res['check'] = outs
                res['caught'] = any(v.startswith('VIOLATION') for v in outs.values())
            else:
                res['check'] = 'property not claimed yet'
            results[d.name] = res
            print(d.name, {k: res.get(k) for k in ('verified', 'check', 'caught')}, flush=True)
            resf.write_text(json.dumps(results, indent=1))
    finally:
        sh(f'git -C /repo worktree remove --force {WT}'); shutil.rmtree(WT, ignore_errors=True)
        sh('git -C /repo worktree prune')


if __name__ == '__main__':
    main()
