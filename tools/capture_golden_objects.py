#!/venv/bin/python
"""Capture the C12 golden corpus of PARAMETER OBJECTS (AutoParameterObject subclasses as parameter values): the text an object contributes
to the key, and the key.  Run with PYTHONPATH pointing at a worktree of the *pinned* commit:
   PYTHONPATH=/tmp/tc_pinned/src /venv/bin/python tools/capture_golden_objects.py [n [seed]] > corpus/c12_objects.jsonl
Each line is self-contained: the class source, the keyword arguments, where the object sits in the parameter value, and what the pinned
release made of it."""
import json, logging, os, random, shutil, sys, tempfile, warnings
from pathlib import Path
warnings.filterwarnings('ignore'); logging.disable(logging.CRITICAL)
sys.path.insert(0, str(Path(__file__).resolve().parents[1] / 'harness'))
import taskchain
from tcv import pipeline as pl, gen
from tcv.props import c02, c12

print('capturing from', taskchain.__file__, file=sys.stderr)
N = int(sys.argv[1]) if len(sys.argv) > 1 else 120
SEED = int(sys.argv[2]) if len(sys.argv) > 2 else 20261004
rng = random.Random(SEED)
root = Path(tempfile.mkdtemp(prefix='tcv-golden-obj-'))
lines = 0
for k in range(N):
    d, src = c02.gen_auto_class(rng, k)
    kwargs = {}
    for a in d['args']:
        if 'default' in a and rng.random() < 0.4:
            continue
        kwargs[a['name']] = rng.choice(c12.OBJ_VALUES) if rng.random() < 0.6 else [rng.choice(c12.OBJ_VALUES) for _ in range(rng.randint(0, 2))]
    nest = rng.choice([None, None, 'list', 'dict'])
    line = {'decl': d, 'src': src, 'kwargs': kwargs, 'nest': nest}
    out = c12.object_case(root / f'o{k}', line)
    if 'error' in out:
        print('skip', k, out['error'], file=sys.stderr); continue
    line['expect'] = out
    print(json.dumps(line, ensure_ascii=False)); lines += 1
shutil.rmtree(root)
print('lines', lines, file=sys.stderr)
