#!/usr/bin/env python3
"""tools/integrate.py <agent>: copy an agent's delivery from /verif/incoming/<agent>/ into place and wire it up
(TCV.lean imports, Driver.lean imports + dispatch, theorems.json, gen_manifest.py entries) from its INTEGRATE.md."""
import json, re, shutil, sys
from pathlib import Path
V = Path(__file__).resolve().parents[1]
name = sys.argv[1]
src = V / 'incoming' / name
for sub in ('lean', 'harness', 'tools'):
    for f in (src / sub).rglob('*') if (src / sub).exists() else []:
        if f.is_file():
            dst = V / f.relative_to(src)
            dst.parent.mkdir(parents=True, exist_ok=True)
            shutil.copy2(f, dst)
            print('copied', dst.relative_to(V))
md = (src / 'INTEGRATE.md').read_text()
blocks = re.findall(r'```[a-z]*\n(.*?)```', md, re.S)
tcv = (V / 'lean/TCV.lean').read_text()
drv = (V / 'lean/Driver.lean').read_text()
thm = json.loads((V / 'theorems.json').read_text())
gm = (V / 'tools/gen_manifest.py').read_text()
for b in blocks:
    lines = b.strip().splitlines()
    for l in lines:
        l = l.strip()
        if l.startswith('import TCV.') and l not in tcv:
            tcv += l + '\n'
        if l.startswith('import Drv.') and l not in drv:
            drv = drv.replace('import Drv.Key\n', 'import Drv.Key\n' + l + '\n', 1)
        m = re.match(r'\|\s*"(\w+)"\s*=>\s*(Drv\.\w+\.handle j)', l)
        if m and m.group(2) not in drv:
            drv = drv.replace('  | _ => throw "bad_op"\n\npartial def loop', f'  | "{m.group(1)}" => {m.group(2)}\n  | _ => throw "bad_op"\n\npartial def loop', 1)
    if re.match(r'\s*\{?\s*"C\d\d"\s*:', b.strip()):
        d = json.loads('{' + b.strip().rstrip(',') + '}')
        thm.update(d); print('theorems for', list(d))
    if re.match(r"\s*'C\d\d': dict\(", b):
        ids = re.findall(r"'(C\d\d)': dict\(", b)
        if not all(f"'{i}': dict(" in gm for i in ids):
            gm = gm.replace("}\n\nchecks, na = [], []", b.rstrip() + "\n}\n\nchecks, na = [], []", 1)
            print('manifest entries for', ids)
(V / 'lean/TCV.lean').write_text(tcv)
(V / 'lean/Driver.lean').write_text(drv)
(V / 'theorems.json').write_text(json.dumps(thm, indent=1))
(V / 'tools/gen_manifest.py').write_text(gm)
