#!/venv/bin/python
"""Drop golden lines whose *graph* (task names, inputs, parameter values) differs between the pinned commit and the repaired
tree: those specs run into a design-time defect at the pinned commit (e.g. F4: an optional by-class input silently dropped
because its full name was 'ambiguous'), so their stored result is the result of a different computation.  Keys and paths are
NOT consulted by this filter.   usage: tools/filter_golden.py in.jsonl > out.jsonl   (run on the current /repo)"""
import json, sys, tempfile, shutil
from pathlib import Path
sys.path.insert(0, str(Path(__file__).resolve().parents[1] / 'harness'))
from tcv.quiet import quiet
quiet()
from tcv import pipeline as pl
from tcv.props.c12 import describe_tasks
root = Path(tempfile.mkdtemp(prefix='tcv-gf-'))
kept = dropped = 0
for li, l in enumerate(open(sys.argv[1]).read().split('\n')):
    if not l.strip():
        continue
    line = json.loads(l)
    spec = line['spec']
    b = pl.materialize(spec, root / f'c{li}', modname=spec['module'])
    chain, err = pl.build(b, root / f'd{li}', parameter_mode=(spec['mode'] == 'param'))
    if err:
        print('drop', spec['module'], 'now fails:', err, file=sys.stderr); dropped += 1; continue
    now = describe_tasks(chain, root / f'd{li}', spec)
    sig = lambda ts: [(t['fullname'], t['inputs'], t['params'], t['config']) for t in ts]
    if sig(now) != sig(line['tasks']):
        diff = [t['fullname'] for t, u in zip(now, line['tasks']) if (t['fullname'], t['inputs'], t['params']) != (u['fullname'], u['inputs'], u['params'])]
        print('drop', spec['module'], 'graph differs at', diff[:3], file=sys.stderr); dropped += 1
    else:
        print(l); kept += 1
    b.cleanup_module()
shutil.rmtree(root)
print('kept', kept, 'dropped', dropped, file=sys.stderr)
