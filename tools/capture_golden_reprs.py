#!/venv/bin/python
"""Capture the C12 golden corpus of PARAMETER VALUE TEXTS for values a JSON file cannot hold (they reach a chain through YAML files or
`Config(data=…)`): mappings with integer / float / bool / None / mixed-looking keys, tuples, sets of one element, nested mixes.  Run with
PYTHONPATH pointing at a worktree of the *pinned* commit:
   PYTHONPATH=/tmp/tc_pinned/src /venv/bin/python tools/capture_golden_reprs.py > corpus/c12_reprs.jsonl
Each line: the value as a Python literal, the parameter text and the key release 1.4.0 derives from it."""
import json, logging, sys, tempfile, shutil, warnings
from pathlib import Path
warnings.filterwarnings('ignore'); logging.disable(logging.CRITICAL)
sys.path.insert(0, str(Path(__file__).resolve().parents[1] / 'harness'))
import taskchain
from tcv.props import c12
print('capturing from', taskchain.__file__, file=sys.stderr)
root = Path(tempfile.mkdtemp(prefix='tcv-golden-repr-'))
n = 0
for lit in c12.REPR_LITERALS:
    out = c12.literal_case(root / f'r{n}', lit)
    if 'error' in out:
        print('skip', lit, out['error'], file=sys.stderr); continue
    print(json.dumps({'literal': lit, 'expect': out}, ensure_ascii=False)); n += 1
shutil.rmtree(root, ignore_errors=True)
print('lines', n, file=sys.stderr)
