#!/venv/bin/python
"""usage: run_mutants.py <PROP> <mutants.py> [ids...]   — each mutant: fresh copy of /repo, replace text, run suite, run check"""
import importlib.util, os, shutil, subprocess, sys, time
from pathlib import Path
BASE = Path('/tmp/ag_subst/repo_base'); MUT = Path('/tmp/ag_subst/repo_mut'); VERIF = '/tmp/ag_subst/verif'
prop, mfile = sys.argv[1], sys.argv[2]
spec = importlib.util.spec_from_file_location('m', mfile); m = importlib.util.module_from_spec(spec); spec.loader.exec_module(m)
ids = sys.argv[3:] or list(m.MUTANTS)
for mid in ids:
    f, old, new = m.MUTANTS[mid][:3]
    if MUT.exists():
        shutil.rmtree(MUT)
    shutil.copytree(BASE, MUT)
    p = MUT / 'src' / 'taskchain' / f
    s = p.read_text()
    assert s.count(old) == 1, (mid, s.count(old))
    p.write_text(s.replace(old, new))
    env = dict(os.environ, PYTHONPATH=str(MUT / 'src'))
    r = subprocess.run(['/venv/bin/python', '-m', 'pytest', '-q', '-x', '-p', 'no:cacheprovider'], cwd=MUT, env=env, capture_output=True, text=True)
    suite = 'suite-pass' if r.returncode == 0 else 'SUITE-FAILS: ' + r.stdout.strip().splitlines()[-1][:80]
    t0 = time.time()
    r = subprocess.run(['./check', prop, 'quick'], cwd=VERIF, env=dict(os.environ, TCV_REPO=str(MUT)), capture_output=True, text=True)
    out = [l for l in r.stdout.splitlines() if l.startswith(('VIOLATION', 'KNOWN', 'BROKEN'))]
    what = ''
    if r.returncode == 1:
        import json, re
        mm = re.search(r'replay=(\S+)', r.stdout)
        if mm:
            d = json.load(open(mm.group(1)))
            if d.get('failures'):
                what = 'oracle: ' + d['failures'][0]['what']
            else:
                what = 'corr: ' + ','.join(d.get('no_longer_checks', []))
    print(f'{mid:28s} {suite:14s} exit={r.returncode} {time.time()-t0:.0f}s {what[:150]}', flush=True)
    if r.returncode == 2:
        print(r.stdout[-1500:], r.stderr[-1500:])
shutil.rmtree(MUT, ignore_errors=True)
