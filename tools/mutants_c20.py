M = 'utils/migration.py'
MUTANTS = {
 'revert-F14': (M, "            namespace=config.namespace,\n            part=config._part,\n", ""),
 'dry-copies': (M, "        if dry:\n            print('    to copy')\n        else:\n", "        if False:\n            print('    to copy')\n        else:\n"),
 'move-not-copy': (M, "                copyfile(old_task.data_path, new_task.data_path)", "                old_task.data_path.rename(new_task.data_path)"),
 'skip-dirs': (M, "                copytree(old_task.data_path, new_task.data_path)", "                pass"),
 'break-on-missing': (M, "            print('   no data found')\n            continue", "            print('   no data found')\n            break"),
 'no-exists-check': (M, "        if new_task.has_data:\n", "        if False and new_task.has_data:\n"),
 'drop-context': (M, "            context=config.context,\n", ""),
 'new-name-mode': (M, "        .chain()\n", "        .chain(parameter_mode=False)\n"),
 'old-param-mode': (M, "config.chain(parameter_mode=False).tasks.values()", "config.chain().tasks.values()"),
 'copytree-shallow': (M, "                copytree(old_task.data_path, new_task.data_path)", "                new_task.data_path.mkdir()"),
 'truncate-large': (M, "                copyfile(old_task.data_path, new_task.data_path)", "                new_task.data_path.write_bytes(old_task.data_path.read_bytes()[:4096])"),
}
