#!/bin/bash
# usage: tools/mutant.sh <file rel to /repo> <python-expr old> <python-expr new> <property> [seed]
# applies a textual mutation to a scratch copy of /repo (never /repo itself) and runs the check against it
set -e
M=/tmp/tcv_mut_$$
rm -rf $M; mkdir -p $M; cp -a /repo/src $M/src
python3 - "$M/$1" "$2" "$3" <<'PY'
import sys
p, old, new = sys.argv[1:4]
s = open(p).read()
assert s.count(old) >= 1, 'pattern not found'
open(p, 'w').write(s.replace(old, new, 1))
PY
cd /verif && TCV_REPO=$M VERIF_SEED=${5:-0} ./check $4 quick 2>&1 | tail -2 | cut -c1-250
rm -rf $M
