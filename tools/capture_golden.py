#!/venv/bin/python
"""Capture the C12 golden corpus.  Run with PYTHONPATH pointing at a worktree of the *pinned* commit:
   PYTHONPATH=/tmp/tc_pinned/src /venv/bin/python tools/capture_golden.py [n [seed [module prefix]]] > corpus/c12_golden.jsonl
(the corpus is the concatenation of `320 20260929 tcvgold`, `120 20260930 tcvgoldx` — captured after the generator learnt
name_in_config spellings that sort differently from the parameter names — and `70 20261001 tcvgoldd dotted` — config file names with dots
in the stem, half of them in name mode — and `60 20261002 tcvgoldp` — after parameter names that are prefixes of one another
(`lr`, `lr2`) joined the generator — and the `Meta.task_group` lines of `80 20261003 tcvgoldm` — ModuleTask/DoubleModuleTask classes
whose Meta also carries a task_group; all filtered by tools/filter_golden.py)"""
import json, logging, os, random, shutil, sys, tempfile, warnings
from pathlib import Path
warnings.filterwarnings('ignore'); logging.disable(logging.CRITICAL); os.environ['TQDM_DISABLE'] = '1'
sys.path.insert(0, str(Path(__file__).resolve().parents[1] / 'harness'))
import taskchain
from tcv import pipeline as pl, gen

print('capturing from', taskchain.__file__, file=sys.stderr)
SEED = int(sys.argv[2]) if len(sys.argv) > 2 else 20260929
PREFIX = sys.argv[3] if len(sys.argv) > 3 else 'tcvgold'
DOTTED = len(sys.argv) > 4 and sys.argv[4] == 'dotted'      # config file names with dots in the stem, half of the specs in name mode
rng = random.Random(SEED)
root = Path(tempfile.mkdtemp(prefix='tcv-golden-'))
n_lines = 0
for i in range(int(sys.argv[1]) if len(sys.argv) > 1 else 320):
    mode = 'name' if (i % 2 if DOTTED else i % 8 == 7) else 'param'
    alphabet = None if i % 3 else gen.SAFE
    spec = gen.gen_key_spec(rng, modname=f'{PREFIX}{i}.tcvmod', alphabet=alphabet, keys=gen.SAFE if i % 2 else None, mode=mode, dotted=DOTTED)
    b = pl.materialize(spec, root / f'c{i}', modname=spec['module'])
    data = root / f'd{i}'
    chain, err = pl.build(b, data, parameter_mode=(mode == 'param'))
    if err:
        print('skip', i, err, file=sys.stderr); continue
    try:
        desc = pl.describe(chain, data)
    except TypeError as e:
        print('skip', i, e, file=sys.stderr); continue
    tasks = []
    for d in desc:
        t = chain.tasks[d['name']]
        ext = {'json': 'json', 'jsontuple': 'json', 'numpy': 'npy', 'pandas': 'pd', 'generated': 'jsonl', 'genempty': 'jsonl'}.get([c for cid, c in spec['classes'].items() if pl.pyname(cid) == d['cls']][0]['kind'])
        exp = {'key': d['key'], 'data': d['data_path']}
        if d['persist']:
            dobj = t._data_without_value
            exp['run_info'] = str(dobj.run_info_path.relative_to(data)); exp['log'] = str(dobj.log_path.relative_to(data))
        tasks.append({'fullname': d['fullname'], 'slug': d['slug'], 'ns': d['ns'], 'params': d['params'], 'ext': ext, 'persist': d['persist'],
                      'inputs': [[n, x['task']] for n, x in d['inputs'] if 'task' in x], 'config': d['config'], 'expect': exp})
    print(json.dumps({'spec': spec, 'tasks': tasks}, ensure_ascii=False))
    n_lines += 1
    b.cleanup_module()
shutil.rmtree(root)
print('lines', n_lines, file=sys.stderr)
