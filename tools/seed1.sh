#!/bin/bash
# usage: tools/seed1.sh <seed dir name> [check seed] [tier]   -- apply one seeded patch to a scratch copy of /repo and run its property's check there
S=$1; M=/tmp/tcv_s1_$$
P=$(python3 -c "import json;print(json.load(open('/verif/seeded/$S/meta.json'))['property'])")
rm -rf $M; mkdir -p $M; cp -a /repo/src $M/src
(cd $M && patch -s -p1 < /verif/seeded/$S/patch.diff) || { echo "patch failed"; rm -rf $M; exit 3; }
cd /verif && TCV_REPO=$M VERIF_SEED=${2:-0} ./check $P ${3:-quick} 2>&1 | grep -v '^KNOWN' | tail -${TAILN:-3} | cut -c1-400
rm -rf $M
