"""Type-directed value generators for C06 (seeded; every value is inside the storable domain of its data class).

Outside the domain, deliberately never generated: NaN/inf, tuples, non-string mapping keys, integers beyond 64 bits,
object-dtype arrays, None at top level."""
import numpy as np
import pandas as pd

CHARS = ['a', 'Z', '0', ' ', '"', '\\', '/', '\n', '\r', '\t', '\x00', '\x1f', '\x7f', 'é', 'ß', 'ж', '中', '\u0085',
         ' ', ' ', '﻿', '퟿', '', '￿', '\U0001f600', '\U0001d518', '\U0010ffff', "'", '{', '}', '[', ']', ',',
         ':', ' ', '　']
INTS = [0, 1, -1, 2 ** 31, -2 ** 31, 2 ** 53, 2 ** 53 + 1, -2 ** 53 - 1, 2 ** 63 - 1, -2 ** 63, 10 ** 18, 255, -256]
FLOATS = [0.0, -0.0, 1.0, -1.5, 5e-324, -5e-324, 2.2250738585072014e-308, 1.7976931348623157e308, -1.7976931348623157e308, 0.1, 1e21,
          1e-7, 123456789.125, 3.141592653589793, 1e16, 9007199254740993.0]


def gen_str(rng, maxlen=8):
    r = rng.random()
    if r < 0.12:
        return ''
    n = rng.randint(1, maxlen) if r < 0.9 else rng.randint(20, 60)
    return ''.join(rng.choice(CHARS) for _ in range(n))


def gen_scalar(rng):
    r = rng.random()
    if r < 0.2:
        return rng.choice(INTS) if rng.random() < 0.7 else rng.randint(-2 ** 63, 2 ** 63 - 1)
    if r < 0.4:
        return rng.choice(FLOATS) if rng.random() < 0.7 else rng.uniform(-1e6, 1e6)
    if r < 0.55:
        return rng.choice([True, False])
    if r < 0.65:
        return None
    return gen_str(rng)


def gen_json(rng, depth):
    """JSON-like value; `depth` = remaining nesting"""
    if depth <= 0 or rng.random() < 0.25:
        return gen_scalar(rng)
    if rng.random() < 0.5:
        n = rng.choice([0, 0, 1, 2, 3, 5])
        return [gen_json(rng, depth - 1) for _ in range(n)]
    n = rng.choice([0, 0, 1, 2, 3, 5])
    d = {}
    for _ in range(n):
        d[gen_str(rng, 5)] = gen_json(rng, depth - 1)
    return d


def nest(rng, depth):
    """a value of exactly the given nesting depth"""
    v = gen_scalar(rng)
    for _ in range(depth):
        v = [v] if rng.random() < 0.5 else {gen_str(rng, 3): v}
    return v


def depth_of(v):
    if isinstance(v, list):
        return 1 + max([depth_of(x) for x in v], default=0)
    if isinstance(v, dict):
        return 1 + max([depth_of(x) for x in v.values()], default=0)
    return 0


def gen_json_typed(rng, pytype):
    """top-level value of the annotated type of a JSONData task"""
    if pytype is dict:
        r = rng.random()
        if r < 0.1:
            return {}
        if r < 0.2:
            return {gen_str(rng, 3): nest(rng, rng.choice([4, 5]))}
        n = rng.choice([1, 2, 3, 6])
        return {gen_str(rng, 5): gen_json(rng, rng.randint(0, 4)) for _ in range(n)}
    if pytype is list:
        r = rng.random()
        if r < 0.1:
            return []
        if r < 0.2:
            return [nest(rng, rng.choice([4, 5]))]
        return [gen_json(rng, rng.randint(0, 4)) for _ in range(rng.choice([1, 2, 3, 6]))]
    if pytype is str:
        return gen_str(rng, 12)
    if pytype is int:
        return rng.choice(INTS) if rng.random() < 0.7 else rng.randint(-2 ** 63, 2 ** 63 - 1)
    if pytype is float:
        return rng.choice(FLOATS) if rng.random() < 0.7 else rng.uniform(-1e9, 1e9)
    if pytype is bool:
        return rng.choice([True, False])
    raise ValueError(pytype)


DTYPES = ['bool', 'int8', 'int16', 'int32', 'int64', 'uint8', 'uint16', 'uint32', 'uint64', 'float16', 'float32', 'float64',
          'complex64', 'complex128', '<U1', '<U7', 'S3']


def gen_shape(rng):
    nd = rng.choice([0, 1, 1, 2, 2, 3, 4])
    return tuple(rng.choice([0, 1, 2, 3, 5]) if rng.random() < 0.85 else rng.choice([0, 17]) for _ in range(nd))


def gen_array(rng, dtype=None, shape=None):
    dtype = dtype or rng.choice(DTYPES)
    shape = gen_shape(rng) if shape is None else shape
    n = int(np.prod(shape)) if shape else 1
    dt = np.dtype(dtype)
    if dt.kind == 'b':
        flat = [rng.random() < 0.5 for _ in range(n)]
    elif dt.kind in 'iu':
        info = np.iinfo(dt)
        flat = [rng.choice([info.min, info.max, 0, 1]) if rng.random() < 0.3 else rng.randint(info.min, info.max) for _ in range(n)]
    elif dt.kind == 'f':
        info = np.finfo(dt)
        flat = [rng.choice([0.0, -0.0, float(info.max), float(info.min), float(info.tiny), float(info.eps)]) if rng.random() < 0.3
                else rng.uniform(-1000, 1000) for _ in range(n)]
    elif dt.kind == 'c':
        flat = [complex(rng.uniform(-10, 10), rng.choice([0.0, -0.0, rng.uniform(-10, 10)])) for _ in range(n)]
    elif dt.kind == 'U':
        flat = [''.join(rng.choice(CHARS[:4] + CHARS[13:17] + ['\U0001f600']) for _ in range(rng.randint(0, dt.itemsize // 4))) for _ in range(n)]
    elif dt.kind == 'S':
        flat = [bytes(rng.randint(1, 255) for _ in range(rng.randint(0, dt.itemsize))) for _ in range(n)]
    else:
        raise ValueError(dtype)
    a = np.array(flat, dtype=dt).reshape(shape)
    if a.ndim >= 2 and rng.random() < 0.25:
        a = np.asfortranarray(a)
    elif a.ndim >= 1 and a.shape[0] > 1 and rng.random() < 0.15:
        a = a[::-1]                    # a non-contiguous view
    return a


def gen_label(rng):
    r = rng.random()
    if r < 0.5:
        return gen_str(rng, 5)
    if r < 0.8:
        return rng.randint(-5, 50)
    return rng.choice([1.5, True, (1, 'a')]) if r < 0.9 else rng.choice(FLOATS[:4])


def gen_column(rng, n):
    kind = rng.choice(['int', 'float', 'bool', 'str', 'obj', 'int8', 'cat', 'dt', 'uint64'])
    if kind == 'int':
        return [rng.choice(INTS) for _ in range(n)], 'int64'
    if kind == 'float':
        return [rng.choice(FLOATS) for _ in range(n)], 'float64'
    if kind == 'bool':
        return [rng.random() < 0.5 for _ in range(n)], 'bool'
    if kind == 'str':
        return [gen_str(rng) for _ in range(n)], 'object'
    if kind == 'obj':
        return [rng.choice([1, 'a', 2.5, True, None, [1, 2], {'k': 1}]) for _ in range(n)], 'object'
    if kind == 'int8':
        return [rng.randint(-128, 127) for _ in range(n)], 'int8'
    if kind == 'uint64':
        return [rng.choice([0, 2 ** 64 - 1, 2 ** 63]) for _ in range(n)], 'uint64'
    if kind == 'cat':
        return pd.Categorical([rng.choice(['x', 'y', 'zz']) for _ in range(n)]), None
    return pd.to_datetime([f'20{rng.randint(10, 30)}-0{rng.randint(1, 9)}-1{rng.randint(0, 9)}' for _ in range(n)]), None


def unique_labels(rng, n):
    out = []
    while len(out) < n:
        l = gen_label(rng)
        if not any(type(l) is type(x) and l == x for x in out) and not any(l == x for x in out):
            out.append(l)
    return out


def gen_frame(rng):
    nrow = rng.choice([0, 1, 2, 3, 7])
    ncol = rng.choice([0, 1, 2, 3, 5])
    cols = unique_labels(rng, ncol)
    data = {}
    for c in cols:
        vals, dt = gen_column(rng, nrow)
        data[c] = pd.Series(vals, dtype=dt) if dt else pd.Series(vals)
    df = pd.DataFrame(data, columns=cols) if cols else pd.DataFrame(index=range(nrow))
    r = rng.random()
    if r < 0.4 and nrow:
        df.index = pd.Index(unique_labels(rng, nrow) if rng.random() < 0.7 else [gen_label(rng) for _ in range(nrow)])
    elif r < 0.55 and nrow:
        df.index = pd.MultiIndex.from_tuples([(i % 2, gen_str(rng, 3)) for i in range(nrow)], names=['a', gen_str(rng, 3)])
    if rng.random() < 0.2:
        df.index.name = gen_str(rng, 4)
    return df


def gen_series(rng):
    n = rng.choice([0, 1, 3, 6])
    vals, dt = gen_column(rng, n)
    s = pd.Series(vals, dtype=dt) if dt else pd.Series(vals)
    if n and rng.random() < 0.5:
        s.index = pd.Index([gen_label(rng) for _ in range(n)])
    if rng.random() < 0.5:
        s.name = gen_label(rng)
    return s


def gen_items(rng):
    if rng.random() < 0.04:
        # long sequences of small items (sizes around powers of two: chunked / batched writers and readers)
        n = rng.choice([255, 256, 1023, 1025, 4095, 4096, 4097, 8193, 10000])
        return [rng.choice([i, str(i), [i], {'k': i}, None]) for i in range(n)]
    n = rng.choice([0, 1, 2, 3, 5, 12, 40])
    return [gen_json(rng, rng.randint(0, 5)) if rng.random() < 0.9 else rng.choice([0, '', [], {}, False, None, 0.0]) for _ in range(n)]


def gen_array_list(rng):
    n = rng.choice([0, 1, 2, 3, 10, 11, 12, 13, 21, 25, 101])
    return [gen_array(rng, shape=None if n < 30 else (rng.randint(0, 3),)) for _ in range(n)]


def gen_dir(rng):
    n = rng.choice([0, 1, 2, 5, 12])
    names = set()
    while len(names) < n:
        names.add(''.join(rng.choice('abcXYZ019_-. \u00e9\u4e2d') for _ in range(rng.randint(1, 8))).strip('. ') or 'f')
    return {nm: bytes(rng.randint(0, 255) for _ in range(rng.choice([0, 1, 10, 300]))) for nm in sorted(names)}


def describe(v, limit=300):
    """JSON-able description of a generated value for the evidence / replay"""
    if isinstance(v, np.ndarray):
        return {'ndarray': str(v.dtype), 'shape': list(v.shape), 'data': repr(v.tolist())[:limit]}
    if isinstance(v, pd.DataFrame):
        return {'frame': [repr(c) for c in v.columns], 'index': repr(list(v.index))[:limit], 'dtypes': [str(d) for d in v.dtypes], 'shape': list(v.shape)}
    if isinstance(v, pd.Series):
        return {'series': str(v.dtype), 'name': repr(v.name), 'index': repr(list(v.index))[:limit], 'len': len(v)}
    if isinstance(v, list) and v and isinstance(v[0], np.ndarray):
        return {'arrays': len(v), 'first': describe(v[0], 80)}
    if isinstance(v, dict) and v and all(isinstance(x, bytes) for x in v.values()):
        return {'dir': {k: len(x) for k, x in v.items()}}
    return {'value': repr(v)[:limit]}
