"""C05 probe: a process that dies IMMEDIATELY AFTER the rename that publishes a result file.  Audit events fire before an
operation, so "right after the publishing rename, before anything else the writer still had to do (flush, close)" is not one of
the kill points of the audit-hook sweep; this probe adds it with a harness-side wrapper around os.rename / os.replace."""
import json
import os
import subprocess
import sys
from pathlib import Path

CHILD = r'''
import sys, os, json
sys.path.insert(0, %(harness)r); sys.path.insert(0, %(repo)r)
from tcv.quiet import quiet; quiet()
from tcv import pipeline as pl
spec = json.load(open(%(spec)r))
b = pl.Built(%(root)r, spec['module'], spec)
phase = %(phase)r
if phase == 'write':
    _rename, _replace = os.rename, os.replace
    def die_after(fn):
        def w(src, dst, *a, **kw):
            r = fn(src, dst, *a, **kw)
            d = os.fspath(dst)
            if %(data)r in d and not d.endswith(('_tmp', '_old', '_error')) and '_tmp.' not in os.path.basename(d):
                os._exit(9)          # killed right after the publishing rename: nothing is flushed or closed any more
            return r
        return w
    os.rename, os.replace = die_after(_rename), die_after(_replace)
from pathlib import Path
chain, err = pl.build(b, Path(%(data)r))
t = [t for t in chain.tasks.values()][0]
mod = b.module()
if phase == 'write':
    _ = t.value
    print('@@' + json.dumps({'finished': True}))
else:
    out = {'has_data': bool(t.has_data)}
    if out['has_data']:
        try:
            out['value'] = mod.unwrap(spec['classes']['K0']['kind'], t.value)
        except Exception as e:
            out['error'] = f'{type(e).__name__}: {e}'[:200]
        out['ran'] = len(mod.RUNLOG)
    print('@@' + json.dumps(out))
'''


def probe(ctx):
    from tcv.core import REPO, VERIF
    from tcv import gen, pipeline as pl
    root = ctx.tmpdir() / 'postpublish'
    jobs = []
    for kind in ('json', 'numpy', 'pandas', 'generated'):
        spec = {'module': f'tcvpp_{kind}.m', 'classes': {'K0': {'name': 'w', 'group': '', 'params': [{'name': 'x', 'default': [1, 'two', {'k': 3.5}]}],
                                                                 'inputs': [], 'kind': kind, 'run_args': ['x']}},
                'files': {'main.json': {'tasks': ['K0']}}, 'main': 'main.json'}
        r = root / kind
        pl.materialize(spec, r / 'src', modname=spec['module'])
        (r / 'spec.json').write_text(json.dumps(spec))
        jobs.append((kind, spec, r))
    env = dict(os.environ)

    def run_child(kind, r, phase):
        src = CHILD % {'harness': str(VERIF / 'harness'), 'repo': str(REPO / 'src'), 'spec': str(r / 'spec.json'), 'root': str(r / 'src'),
                       'data': str(r / 'data'), 'phase': phase}
        return subprocess.Popen([sys.executable, '-c', src], stdout=subprocess.PIPE, stderr=subprocess.PIPE, text=True, env=env)
    ps = [(k, r, run_child(k, r, 'write')) for k, s, r in jobs]
    for k, r, p in ps:
        p.communicate(timeout=300)
    ps = [(k, r, run_child(k, r, 'read')) for k, s, r in jobs]
    for (kind, spec, r), (_, _, p) in zip(jobs, ps):
        out, err = p.communicate(timeout=300)
        line = [l for l in out.splitlines() if l.startswith('@@')]
        case = {'probe': 'killed right after the publishing rename', 'kind': kind}
        ctx.case(case); ctx.count('post-publish-kill')
        if not line:
            from tcv.core import BrokenCheck
            raise BrokenCheck('post-publish probe child failed: ' + err[-400:])
        obs = json.loads(line[0][2:])
        exp = {'t': 'w', 'p': {'x': [1, 'two', {'k': 3.5}]}, 'i': []}
        if obs['has_data'] and (obs.get('error') or (obs.get('ran') == 0 and obs.get('value') != exp)):
            ctx.fail('a result published by a process that died right after the rename is visible but incomplete', case, obs)
