"""Machine-level histories: random operation sequences over several chains on ONE data directory, executed on the real
code and replayed on the Lean store machine (TCV.Store).  The chain structure (objects, edges, locations, which inputs a run
uses) is *extracted from the implementation*; only the store/run/force machine is compared here — key derivation and
chain construction have their own checks."""
import copy
import json

from tcv import gen, pipeline as pl

INSPECTIONS = ['has_data', 'data_path', 'run_info', 'log', 'tasks_df', 'readable']


# --------------------------------------------------------------------------------------------- generation

def gen_family(rng, n_classes=None, kinds=None, n_variants=None, rich=False, ns_pool=None, double_p=0.6):
    """classes + several config variants (same pipeline, parameter values equal or different at random places,
    mounted under different namespaces or none)"""
    modname = gen.fresh_modname()
    nodir = kinds is None and rng.random() < 0.5
    classes, pfile = gen.gen_pipeline(rng, n_classes=n_classes or rng.randint(2, 7), alphabet=gen.SAFE, keys=gen.SAFE,
                                      kinds=kinds, avoid=('dir', 'continues') if nodir else (), modname=modname, by_name=0.3, optional=0.1, maxdepth=2)
    variants = []
    path_keys = {p.get('nic') or p['name'] for c in classes.values() for p in c['params'] if p.get('dtype') == 'path'}
    keys = [k for k in pfile if k != 'tasks' and k not in path_keys]      # (a Path parameter takes strings only: overriding it with a random value is a type error)
    for v in range(n_variants or rng.randint(2, 4)):
        data = copy.deepcopy(pfile)
        if v > 0 and keys:
            for k in rng.sample(keys, rng.randint(0, min(2, len(keys)))):
                data[k] = gen.gen_value(rng, 1, 2, gen.SAFE, gen.SAFE)
        ns = rng.choice(ns_pool or [None, None, 'n', 'm::k', 'm::k', 'z::n'])
        if rng.random() < 0.2:
            # a namespace that is a textual prefix of the name of a task used as input (`mo` / `model:fit`): not the same as being inside it
            refd = sorted({gen.slug_of(classes[i_['ref']], modname) if i_['by'] == 'class' else i_['ref'] for c in classes.values() for i_ in c['inputs']
                           if i_['by'] == 'class' or i_['ref'] != 'absent_task'})
            if refd:
                first = rng.choice(refd).split(':')[0]
                ns = first[:rng.randint(1, len(first))] or ns
        variants.append({'file': f'v{v}.json', 'data': data, 'ns': ns})
    fkeys = [p.get('nic') or p['name'] for c in classes.values() for p in c['params'] if not p.get('ignore') and not p.get('dtype')
             and (p.get('nic') or p['name']) in keys]
    if fkeys and rng.random() < 0.25:
        # variants that differ only in floats lying very close together (also nested): different computations all the same
        close = [1e-11, 1e-12, 0.0, 1.00000000001, 1.0, 0.1 + 0.2, 0.3]
        k = rng.choice(fkeys)
        wrap = rng.choice([lambda x: x, lambda x: [x, 'u'], lambda x: {'eps': x}])
        off = rng.randrange(len(close))
        for idx, v in enumerate(variants):
            v['data'][k] = wrap(close[(off + idx) % len(close)])
    files = {}
    for v in variants:
        files[v['file']] = v['data']
        uses = ['@cfg/' + v['file'] + (f' as {v["ns"]}' if v['ns'] else '')]
        v['context'] = None
        if rich and keys and rng.random() < double_p:
            # the same file mounted a second time under another namespace, with per-namespace context values
            ns2 = rng.choice(['z', 'n2', 'm', 'train', 'n', 'na'])
            if ns2 != v['ns']:
                uses.append('@cfg/' + v['file'] + f' as {ns2}')
            ctx = {}
            if rng.random() < 0.6:
                ctx[rng.choice(keys)] = gen.gen_value(rng, 1, 2, gen.SAFE, gen.SAFE)
            fn = {}
            for ns in {ns2, v['ns']} - {None}:
                if rng.random() < 0.7:
                    fn[ns] = {rng.choice(keys): gen.gen_value(rng, 1, 2, gen.SAFE, gen.SAFE)}
            # entries filed under the LEAF name of a nested namespace (or under a longer path ending in it) must stay invisible
            for ns in {ns2, v['ns']} - {None}:
                if '::' in ns and rng.random() < 0.7:
                    fn.setdefault(ns.split('::')[-1], {})[rng.choice(keys)] = gen.gen_value(rng, 1, 2, gen.SAFE, gen.SAFE)
                elif rng.random() < 0.3:
                    fn.setdefault('outer::' + ns, {})[rng.choice(keys)] = gen.gen_value(rng, 1, 2, gen.SAFE, gen.SAFE)
            if fn:
                ctx['for_namespaces'] = fn
            v['context'] = ctx or None
            if fn and rng.random() < 0.35:
                # the same, given as a LIST of two contexts that both have entries for one namespace (for different parameters where possible)
                ns_ = rng.choice(sorted(fn))
                k2 = rng.choice([k for k in keys if k not in fn[ns_]] or keys)
                v['context'] = [ctx, {'for_namespaces': {ns_: {k2: gen.gen_value(rng, 1, 2, gen.SAFE, gen.SAFE)}}}]
        main = {'uses': uses}
        if rich and len(uses) == 2 and v['ns'] and rng.random() < 0.5 and any(classes[c]['kind'] != 'genempty' for c in pfile['tasks']):
            # a task of the main config that takes the SAME task from both mounts as inputs (names differing only in the namespace)
            cid = rng.choice(sorted(c for c in pfile['tasks'] if classes[c]['kind'] != 'genempty'))
            slug = gen.slug_of(classes[cid], modname)
            refs = [u.split(' as ')[1] + '::' + slug for u in uses]
            jid = f'K{len(classes)}'
            classes[jid] = {'name': f'joined{v_index(variants, v)}', 'group': '', 'base': 'Task', 'params': [], 'kind': 'json', 'run_args': [],
                            'inputs': [{'by': 'name', 'ref': r_} for r_ in refs], 'pull': list(refs), 'in_kinds': {r_: classes[cid]['kind'] for r_ in refs}}
            main['tasks'] = [jid]
            v['join'] = (jid, cid, [u.split(' as ')[1] for u in uses])
        if rich and v['ns'] and rng.random() < 0.3 and any(classes[c]['kind'] not in ('genempty',) for c in pfile['tasks']):
            # a ROOT-level task with an OPTIONAL input named like a task that exists only inside the mounted namespace: the name is looked
            # up at the root only, so the input is absent and the default is used — never the namespaced task
            cid2 = rng.choice(sorted(c for c in pfile['tasks'] if classes[c]['kind'] != 'genempty'))
            rid = f'K{len(classes)}'
            ref2 = gen.slug_of(classes[cid2], modname)
            classes[rid] = {'name': f'rootopt{v_index(variants, v)}', 'group': '', 'base': 'Task', 'params': [], 'kind': 'json', 'run_args': [],
                            'inputs': [{'by': 'name', 'ref': ref2, 'default': 5}], 'pull': [ref2], 'in_kinds': {ref2: classes[cid2]['kind']}}
            main.setdefault('tasks', []).append(rid)
        if rich and v['ns'] and '::' in v['ns'] and rng.random() < 0.5 and any(classes[c]['kind'] not in ('genempty',) for c in pfile['tasks']):
            # a task in the namespace `k` with an OPTIONAL input named like a task that exists only in `m::k`: `k::t` is not `m::k::t`
            # (a namespace path is never matched by its suffix) — the default is used
            last = v['ns'].split('::')[-1]
            if not any(u.endswith(' as ' + last) for u in uses):
                cid3 = rng.choice(sorted(c for c in pfile['tasks'] if classes[c]['kind'] != 'genempty'))
                sid = f'K{len(classes)}'
                ref3 = gen.slug_of(classes[cid3], modname)
                classes[sid] = {'name': f'sfxopt{v_index(variants, v)}', 'group': '', 'base': 'Task', 'params': [], 'kind': 'json', 'run_args': [],
                                'inputs': [{'by': 'name', 'ref': ref3, 'default': 6}], 'pull': [ref3], 'in_kinds': {ref3: classes[cid3]['kind']}}
                sfx = f'sfx{v_index(variants, v)}.json'         # (a name that survives the file-name rewriting of sibling variants)
                files[sfx] = {'tasks': [sid]}
                uses.append('@cfg/' + sfx + ' as ' + last)
        files['main_' + v['file']] = main
    # a sibling of a variant with a join task: the same tree, except for one parameter of the FIRST of the two joined inputs
    for v in [w for w in variants if w.get('join')]:
        jid, cid, nss = v['join']
        pkeys = [p.get('nic') or p['name'] for p in classes[cid]['params'] if not p.get('ignore') and p.get('dtype') != 'path']
        if not pkeys or rng.random() < 0.3:
            continue
        sib = {'file': f'v{len(variants)}.json', 'data': copy.deepcopy(v['data']), 'ns': v['ns']}
        ctx = copy.deepcopy(v.get('context') or {})
        last = ctx[-1] if isinstance(ctx, list) else ctx
        last.setdefault('for_namespaces', {}).setdefault(nss[0], {})[rng.choice(pkeys)] = gen.gen_value(rng, 1, 2, gen.SAFE, gen.SAFE)
        sib['context'] = ctx
        files[sib['file']] = sib['data']
        files['main_' + sib['file']] = copy.deepcopy(files['main_' + v['file']])
        files['main_' + sib['file']]['uses'] = [u.replace(v['file'], sib['file']) for u in files['main_' + v['file']]['uses']]
        variants.append(sib)
        if rng.random() < 0.6:
            # ... and a PAIR of siblings in which the two mounts exchange the value of one parameter: the join task of the one gets
            # (a, b) where the join task of the other gets (b, a) — same set of upstream computations, different wiring
            k = rng.choice(pkeys)
            a_, b_ = gen.gen_value(rng, 1, 1, gen.SAFE, gen.SAFE), gen.gen_value(rng, 1, 1, gen.SAFE, gen.SAFE)
            if repr(a_) == repr(b_):
                b_ = [a_]
            for x, y in ((a_, b_), (b_, a_)):
                sw = {'file': f'v{len(variants)}.json', 'data': copy.deepcopy(v['data']), 'ns': v['ns']}
                c2 = copy.deepcopy(v.get('context') or {})
                last2 = c2[-1] if isinstance(c2, list) else c2
                fn2 = last2.setdefault('for_namespaces', {})
                fn2.setdefault(nss[0], {})[k] = copy.deepcopy(x)
                fn2.setdefault(nss[1], {})[k] = copy.deepcopy(y)
                sw['context'] = c2
                sw['swap_join'] = gen.slug_of(classes[jid], modname)
                files[sw['file']] = sw['data']
                files['main_' + sw['file']] = copy.deepcopy(files['main_' + v['file']])
                files['main_' + sw['file']]['uses'] = [u.replace(v['file'], sw['file']) for u in files['main_' + v['file']]['uses']]
                variants.append(sw)
    if rich:
        # a share of the contexts is given as a context FILE that pulls the actual entries in through `uses` (same meaning as the list
        # of dicts, which stays in v['context'] for the reference evaluation); the same file then serves every chain built for the variant
        for v in variants:
            c = v.get('context')
            if c and rng.random() < 0.3:
                parts = c if isinstance(c, list) else [c]
                stem = 'ctx_' + v['file'].replace('.json', '')
                names = []
                for i, part in enumerate(parts):
                    files[f'{stem}_u{i}.json'] = copy.deepcopy(part)
                    names.append(f'@cfg/{stem}_u{i}.json')
                files[f'{stem}.json'] = {'uses': names}
                v['context_disk'] = f'@cfg/{stem}.json'
    spec = {'module': modname, 'classes': classes, 'files': files, 'main': 'main_v0.json'}
    return spec, variants


def v_index(variants, v):
    return next(i for i, w in enumerate(variants) if w is v)


def gen_ops(rng, spec, variants, length, allow):
    """ops refer to chains by build number and to tasks by slug"""
    # a directory-valued result held in memory by one object is only a path: deleting the directory through ANOTHER object
    # leaves that path dangling (the value of directory data is the path, by design) — delete_data is therefore generated
    # only for pipelines without directory kinds; deletion of directories is exercised by C05/C07's single-object cases.  The same
    # holds for a GeneratedDataLazy value: it is a reader of the stored file
    has_dir = any(c['kind'] in ('dir', 'continues', 'genlazy') for c in spec['classes'].values())
    slugs = [gen.slug_of(c, spec['module']) for c in spec['classes'].values()]
    ops, chains = [], []
    ops.append({'op': 'build', 'variant': 0}); chains.append(len(chains))
    live = [0]
    for _ in range(length):
        r = rng.random()
        if r < 0.12 or not live:
            ops.append({'op': 'build', 'variant': rng.randrange(len(variants))}); live.append(len(chains)); chains.append(len(chains))
        elif r < 0.17 and 'restart' in allow:
            ops.append({'op': 'restart'}); live = []
        elif r < 0.62:
            failing = []
            if 'fail' in allow and rng.random() < 0.2:
                failing = rng.sample(slugs, rng.randint(1, min(2, len(slugs))))
            ops.append({'op': 'value', 'chain': rng.choice(live), 'task': rng.choice(slugs), 'failing': failing, 'pick': rng.randrange(4)})
        elif r < 0.72 and 'force' in allow:
            ops.append({'op': 'force', 'chain': rng.choice(live), 'task': rng.choice(slugs), 'del': (not has_dir) and rng.random() < 0.4, 'pick': rng.randrange(4)})
        elif r < 0.745 and 'force' in allow:
            # `task.reset_data()`: the object drops the value it holds — it stays forced if it was
            ops.append({'op': 'reset', 'chain': rng.choice(live), 'task': rng.choice(slugs), 'pick': rng.randrange(4)})
        elif r < 0.82 and 'force' in allow:
            op = {'op': 'chain_force', 'chain': rng.choice(live), 'tasks': rng.sample(slugs, rng.randint(1, min(2, len(slugs)))),
                  'del': (not has_dir) and rng.random() < 0.35, 'recompute': rng.random() < 0.4}
            if op['recompute'] and 'fail' in allow and rng.random() < 0.35:
                op['failing'] = rng.sample(slugs, rng.randint(1, min(2, len(slugs))))      # a run raises during the recomputation
            ops.append(op)
        else:
            ops.append({'op': 'inspect', 'chain': rng.choice(live), 'task': rng.choice(slugs), 'what': rng.choice(INSPECTIONS), 'pick': rng.randrange(4)})
    # directed: compute, force (keeping the stored result), drop the value held in memory, ask again — the task is still forced
    if 'force' in allow and live and rng.random() < 0.35:
        c, sl, pk = rng.choice(live), rng.choice(slugs), rng.randrange(4)
        ops += [{'op': 'value', 'chain': c, 'task': sl, 'failing': [], 'pick': pk},
                {'op': 'force', 'chain': c, 'task': sl, 'del': False, 'pick': pk},
                {'op': 'reset', 'chain': c, 'task': sl, 'pick': pk},
                {'op': 'value', 'chain': c, 'task': sl, 'failing': [], 'pick': pk}]
    # directed: compute, then force with delete_data AND recompute while the recomputation of that very task fails — the stored result is
    # gone all the same (it was to be deleted), a later chain computes it again
    if 'force' in allow and 'fail' in allow and live and not has_dir and rng.random() < 0.3:
        c, sl = rng.choice(live), rng.choice(slugs)
        ops += [{'op': 'value', 'chain': c, 'task': sl, 'failing': [], 'pick': 0},
                {'op': 'chain_force', 'chain': c, 'tasks': [sl], 'del': True, 'recompute': True, 'failing': [sl]}]
        nc = len(chains)
        ops.append({'op': 'build', 'variant': 0}); chains.append(nc)
        ops.append({'op': 'value', 'chain': nc, 'task': sl, 'failing': [], 'pick': 0})
    # a family with a swapped pair of configurations: both join tasks are requested, one after the other, on the one data directory
    pair = [i for i, v in enumerate(variants) if v.get('swap_join')]
    if len(pair) >= 2 and rng.random() < 0.8:
        for i in pair[:2]:
            c = len(chains)
            ops.append({'op': 'build', 'variant': i}); chains.append(c)
            ops.append({'op': 'value', 'chain': c, 'task': variants[i]['swap_join'], 'failing': [], 'pick': 0})
    return ops


# --------------------------------------------------------------------------------------------- execution on the real code

class Recorder:
    """records the order of top-level `.value` requests (to learn the iteration order of `recompute`)"""
    def __init__(self):
        from taskchain.task import Task
        self.Task = Task
        self.orig = Task.__dict__['value']
        self.depth = 0
        self.top = []

    def __enter__(self):
        rec = self
        orig = self.orig

        def value(task):
            if rec.depth == 0:
                rec.top.append(task)
            rec.depth += 1
            try:
                return orig.fget(task)
            finally:
                rec.depth -= 1
        self.Task.value = property(value)
        return self

    def __exit__(self, *a):
        self.Task.value = self.orig


def plain(v):
    from pathlib import Path
    if isinstance(v, Path):
        return {'__path__': str(v)}
    if isinstance(v, dict):
        return {k: plain(x) for k, x in v.items()}
    if isinstance(v, (list, tuple)):
        return [plain(x) for x in v]
    if isinstance(v, int) and not isinstance(v, bool) and not (-2 ** 63 <= v < 2 ** 63):
        return {'__int__': str(v)}
    if isinstance(v, str):
        return str(v)
    return v


def descriptor(task):
    """what the computation of this task object is, apart from its inputs: class + parameter values it sees"""
    return json.dumps([task.slugname, {p.name: plain(task.params[p.name]) for p in task.parameters.values() if not p.ignore_persistence}], sort_keys=True, default=str)


def used_inputs(task, cls_spec):
    """(args, pulls): the input task objects a run of `task` requests, in order (mirrors the generated run method)"""
    from taskchain.task import Task
    pnames = [p['name'] for p in cls_spec.get('params', [])]
    args, pulls = [], []
    for a in cls_spec.get('run_args', []):
        if a in pnames:
            continue
        t = task.input_tasks[a]
        if isinstance(t, Task):
            args.append(t)
    for name in cls_spec.get('pull', []):
        t = task.input_tasks[name]
        if isinstance(t, Task):
            pulls.append(t)
    return args, pulls


def input_entry(task, ref):
    """(registered full name, object) of the input a run addresses as `ref`"""
    from taskchain.task import _find_task_full_name
    key = _find_task_full_name(ref, task.input_tasks.keys())
    return key, dict.get(task.input_tasks, key)


def ref_param_values(task, spec, variant, name=None):
    """parameter values the task must see, computed from the config tree alone (file data < context < context for the task's
    exact namespace < ... else default), independent of the task object's own parameter registry"""
    cls_spec = class_of(task, spec)
    full = name or task.fullname            # the name the task is registered under in the chain decides its namespace
    ns = full[:-len(task.slugname) - 2] if full != task.slugname else None
    data = dict(variant['data'])
    ctxs = variant.get('context') or {}
    ctxs = ctxs if isinstance(ctxs, list) else [ctxs]
    # a list of contexts: later ones win, key by key — globally and within each namespace's entry
    for ctx in ctxs:
        data.update({k: v for k, v in ctx.items() if k != 'for_namespaces'})
    if ns is not None:
        for ctx in ctxs:
            data.update((ctx.get('for_namespaces') or {}).get(ns, {}))
    out = {}
    for p in cls_spec.get('params', []):
        nic = p.get('nic') or p['name']
        if nic in data:
            v = data[nic]
        else:
            v = p.get('default')
        if p.get('dtype') == 'path' and isinstance(v, dict) and set(v) == {'$path'}:
            v = v['$path']
        if p.get('dtype') == 'path' and isinstance(v, str):
            from pathlib import Path
            v = Path(v)
        out[p['name']] = v
    return out


def expected_term(task, spec, memo=None, variant=None, name=None):
    """reference value: what the task's computation yields from the CURRENT configuration (no store involved)"""
    from taskchain.task import Task
    memo = {} if memo is None else memo
    name = name or task.fullname
    if (id(task), name) in memo:
        return memo[(id(task), name)]
    cls_spec = class_of(task, spec)
    pnames = [p['name'] for p in cls_spec.get('params', [])]
    ins = []
    for a in cls_spec.get('run_args', []):
        if a in pnames:
            continue
        k, t = input_entry(task, a)
        ins.append([a, expected_term(t, spec, memo, variant, k) if isinstance(t, Task) else plain(t)])
    for pname in cls_spec.get('pull', []):
        k, t = input_entry(task, pname)
        ins.append([pname, expected_term(t, spec, memo, variant, k) if isinstance(t, Task) else plain(t)])
    ign = {p['name'] for p in cls_spec.get('params', []) if p.get('ignore')}
    vals = ref_param_values(task, spec, variant, name) if variant is not None else {p: task.params[p] for p in pnames}
    term = {'t': task.slugname, 'p': {p: plain(vals[p]) for p in pnames if p not in ign}, 'i': ins}
    memo[(id(task), name)] = term
    return term


def class_of(task, spec):
    for cid, c in spec['classes'].items():
        if pl.pyname(cid) == task.__class__.__name__:
            return c
    raise KeyError(task.__class__.__name__)


def task_by_slug(chain, slug, pick=0, with_name=False):
    """address a task by the name it is registered under in the chain (not by what the object says about itself)"""
    ts = [(n, t) for n, t in chain.tasks.items() if n.split('::')[-1] == slug]
    if not ts:
        return (None, None) if with_name else None
    return ts[pick % len(ts)] if with_name else ts[pick % len(ts)][1]


def run_history(spec, variants, ops, root, multichain=False, data=None, stamp=False):
    """execute on the real code; returns a record with python objects (to be numbered by `encode`)"""
    from taskchain.task import Task
    b = pl.materialize(spec, root / 'src', modname=spec['module'])
    mod = b.module()
    data = data or (root / 'data')
    chains, rec = [], []
    all_chains = []
    chain_variant = {}
    mod.RUNLOG.clear(); mod.FAIL.clear(); mod.DONE.clear(); mod.STAMPING[0] = stamp
    for op in ops:
        before = len(mod.RUNLOG); dbefore = len(mod.DONE)
        r = {'op': op}
        if op['op'] == 'build':
            v = variants[op['variant']]
            chain, err = pl.build(b, data, main='main_' + v['file'], context=v.get('context_disk') or v.get('context'))
            r['error'] = err
            chains.append(chain); all_chains.append(chain); chain_variant[id(chain)] = v
            if chain is not None:
                r['wiring'] = wiring_check(spec, v, b, chain)
                try:
                    r['ktasks'] = ktasks_of_chain(chain)
                except (TypeError, KeyError):
                    r['ktasks'] = None
        elif op['op'] == 'restart':
            chains = [None] * len(chains)
        else:
            chain = chains[op['chain']]
            rname, task = task_by_slug(chain, op['task'], op.get('pick', 0), with_name=True) if chain is not None and 'task' in op else (None, None)
            if chain is None or (task is None and 'task' in op):
                r['skipped'] = True
            elif op['op'] == 'value':
                mod.FAIL.clear(); mod.FAIL.update(op['failing'])
                try:
                    kind = class_of(task, spec)['kind']
                    r['value'] = mod.unwrap(kind, task.value)
                except mod.RunFailure:
                    r['raised'] = True
                except Exception as e:  # noqa: the implementation raised something else
                    r['raised'] = True; r['unexpected'] = f'{type(e).__name__}: {e}'[:300]
                finally:
                    mod.FAIL.clear()
                r['task'] = task
                r['expected'] = expected_term(task, spec, variant=chain_variant.get(id(chain)), name=rname)
            elif op['op'] == 'force':
                r['task'] = task
                try:
                    task.force(delete_data=op['del'])
                except Exception as e:  # noqa
                    r['unexpected'] = f'{type(e).__name__}: {e}'[:300]
            elif op['op'] == 'reset':
                r['task'] = task
                try:
                    task.reset_data()
                except Exception as e:  # noqa
                    r['unexpected'] = f'{type(e).__name__}: {e}'[:300]
            elif op['op'] == 'chain_force':
                tasks = [task_by_slug(chain, s) for s in op['tasks']]
                tasks = [t for t in tasks if t is not None]
                mod.FAIL.clear(); mod.FAIL.update(op.get('failing', []))
                with Recorder() as R:
                    try:
                        chain.force([t.fullname for t in tasks], recompute=op['recompute'], delete_data=op['del'])
                    except mod.RunFailure:
                        r['raised'] = True
                    except Exception as e:  # noqa
                        r['unexpected'] = f'{type(e).__name__}: {e}'[:300]
                    finally:
                        mod.FAIL.clear()
                r['S'] = tasks; r['order'] = list(R.top); r['chain'] = chain
                r['forced_now'] = [t for t in chain.tasks.values() if t.is_forced]
            elif op['op'] == 'inspect':
                w = op['what']
                r['task'] = task
                try:
                    inspect_op(r, w, task, chain)
                except Exception as e:  # noqa
                    r['unexpected'] = f'{type(e).__name__}: {e}'[:300]
                w = None
                if w == 'has_data':
                    r['has_data'] = bool(task.has_data)
                elif w == 'data_path':
                    _ = task.data_path
                elif w == 'run_info':
                    _ = task.run_info
                elif w == 'log':
                    _ = task.log
                elif w == 'tasks_df':
                    _ = chain.tasks_df
                elif w == 'readable':
                    chain.create_readable_filenames()
                r['task'] = task
        r['runs'] = [x[2] for x in mod.RUNLOG[before:]]
        r['done'] = list(mod.DONE[dbefore:])
        r['state'] = snapshot(all_chains)
        rec.append(r)
    return {'rec': rec, 'chains': all_chains, 'built': b, 'mod': mod, 'data': data}


def inspect_op(r, w, task, chain):
    if w == 'has_data':
        r['has_data'] = bool(task.has_data)
    elif w == 'data_path':
        _ = task.data_path
    elif w == 'run_info':
        _ = task.run_info
    elif w == 'log':
        _ = task.log
    elif w == 'tasks_df':
        _ = chain.tasks_df
    elif w == 'readable':
        chain.create_readable_filenames()


def unexpected_oracle(ctx, case, hist):
    """an operation of the implementation raised although no run was told to fail"""
    for r in hist['rec']:
        if r.get('wiring'):
            ctx.fail('a chain wires a task to other inputs than its configuration declares (foreign upstream)', case,
                     {'op': r['op'], 'wiring': r['wiring']})
        if r.get('unexpected') and not r['op'].get('failing'):
            ctx.fail('operation raised an unexpected exception', case, {'op': r['op'], 'exception': r['unexpected']})


def ktasks_of_chain(chain):
    """what `C01.WFChain` speaks about, extracted from a real chain: tasks in creation order (inputs first) with namespace,
    declared parameters + received values, input tasks (name relative to the namespace, full name) and key"""
    from taskchain.task import Task
    order, seen = [], set()

    def visit(name, t):
        if name in seen:
            return
        seen.add(name)
        for iname, it in t.input_tasks.items():
            if isinstance(it, Task):
                visit(iname, it)
        order.append((name, t))
    for name, t in chain.tasks.items():
        visit(name, t)
    out = []
    for name, t in order:
        ns = t.get_config().namespace
        ins = []
        for iname, it in t.input_tasks.items():
            if isinstance(it, Task):
                rel = iname[len(ns) + 2:] if ns else iname
                ins.append([rel, iname])
        out.append({'full': name, 'ns': ns, 'params': pl.model_params(t), 'inputs': ins, 'key': t.name_for_persistence})
    return out


def wiring_check(spec, variant, b, chain):
    """the chain's dependency edges against the executable reference builder (object level: shared objects are one node)"""
    from taskchain.task import Task
    from tcv import refbuild
    from tcv.props.c08 import ref_build
    ref = ref_build({**spec, 'main': 'main_' + variant['file'], 'context': variant.get('context')}, b)
    if 'ok' not in ref:
        return {'reference_error': ref.get('error')}
    new = ref['ok']
    rname, name_of = {}, {}
    for n, t in new.items():
        rname.setdefault(id(t), n)
    for n, t in chain.tasks.items():
        name_of.setdefault(id(t), n)
    e_ref = {(rname[id(it)], rname[id(t)]) for n, t in new.items() for it in t.inputs.values() if isinstance(it, refbuild.T)}
    e_impl = {(name_of[id(it)], name_of[id(t)]) for n, t in chain.tasks.items() for it in t.input_tasks.values() if isinstance(it, Task)}
    if set(new) != set(chain.tasks) or e_ref != e_impl:
        return {'missing_tasks': sorted(set(new) - set(chain.tasks)), 'extra_tasks': sorted(set(chain.tasks) - set(new)),
                'missing_edges': sorted(e_ref - e_impl)[:5], 'extra_edges': sorted(e_impl - e_ref)[:5]}
    return None


def snapshot(chains):
    """observable state of all objects built so far: forced flags, in-memory results, stored results"""
    from taskchain.data import InMemoryData
    forced, mem, stored = [], [], []
    objs = topo_objects(chains)
    for t in objs:
        if t.is_forced:
            forced.append(id(t))
        if t._data is not None:
            mem.append(id(t))
        if not issubclass(t.data_class, InMemoryData) and t.has_data:
            stored.append((str(t.path), t.name_for_persistence))
    return {'forced': forced, 'mem': mem, 'stored': sorted(set(stored)), 'n': len(objs)}


# --------------------------------------------------------------------------------------------- encoding for the model

def topo_objects(chains):
    """all task objects of all chains, inputs before dependants"""
    from taskchain.task import Task
    out, seen = [], set()

    def visit(t):
        if id(t) in seen:
            return
        seen.add(id(t))
        for it in t.input_tasks.values():
            if isinstance(it, Task):
                visit(it)
        out.append(t)
    for ch in chains:
        if ch is None:
            continue
        for t in ch.tasks.values():
            visit(t)
    return out


def portable(hist, spec):
    """process-independent description of one executed segment: objects (local indices), model ops, implementation outputs"""
    from taskchain.task import Task
    from taskchain.data import InMemoryData
    objs = topo_objects(hist['chains'])
    idx = {id(t): i for i, t in enumerate(objs)}
    objects = []
    for t in objs:
        args, pulls = used_inputs(t, class_of(t, spec))
        objects.append({'lk': [str(t.path), t.name_for_persistence], 'persist': not issubclass(t.data_class, InMemoryData),
                        'args': [idx[id(x)] for x in args], 'pulls': [idx[id(x)] for x in pulls],
                        'deps': [idx[id(it)] for it in t.input_tasks.values() if isinstance(it, Task)],
                        'desc': descriptor(t), 'fullname': t.fullname, 'slug': t.slugname})
    mops, outs, keep = [], [], []
    for k, r in enumerate(hist['rec']):
        op = r['op']
        if r.get('skipped') or op['op'] in ('build', 'restart'):
            continue
        if op['op'] == 'value':
            failing = [i for i, t in enumerate(objs) if t.slugname in op['failing']]
            mops.append({'op': 'value', 'i': idx[id(r['task'])], 'failing': failing})
        elif op['op'] == 'force':
            mops.append({'op': 'force', 'i': idx[id(r['task'])], 'del': op['del']})
        elif op['op'] == 'reset':
            mops.append({'op': 'reset', 'i': idx[id(r['task'])]})
        elif op['op'] == 'chain_force':
            nodes = sorted(idx[id(t)] for t in r['chain'].tasks.values())
            if op.get('failing'):
                mops.append({'op': 'chain_force_f', 'nodes': nodes, 'S': [idx[id(t)] for t in r['S']], 'del': op['del'],
                             'order': [idx[id(t)] for t in r['order']], 'failing': [i for i, t in enumerate(objs) if t.slugname in op['failing']]})
            else:
                mops.append({'op': 'chain_force', 'nodes': nodes, 'S': [idx[id(t)] for t in r['S']], 'del': op['del'],
                             'recompute': op['recompute'], 'order': [idx[id(t)] for t in r['order']]})
        elif op['op'] == 'inspect':
            mops.append({'op': 'inspect', 'i': idx[id(r['task'])]})
        keep.append(k)
        st = r['state']
        o = {'runs': [idx.get(x, -1) for x in r['runs']], 'n': st['n'],
             'st': {'forced': sorted(idx[x] for x in st['forced']), 'in_memory': sorted(idx[x] for x in st['mem']),
                    'stored': [list(l) for l in st['stored']]}}
        if op['op'] == 'value':
            if r.get('raised'):
                o.update(val=None, raised=True)
            elif isinstance(r['value'], dict) and r['value'].get('t') == '__EMPTY__':
                o.update(val='EMPTY', raised=False)          # an empty generated sequence carries no provenance term
            else:
                o.update(val=term_portable(r['value']), raised=False)
        elif op['op'] == 'inspect' and 'has_data' in r:
            o['has_data'] = r['has_data']
        outs.append(o)
    return {'objects': objects, 'ops': mops, 'outs': outs, 'keep': keep}


def term_portable(term):
    if not isinstance(term, dict) or 't' not in term or 'i' not in term:
        return {'d': None, 'x': []}
    return {'d': json.dumps([term['t'], term['p']], sort_keys=True, default=str),
            'x': [term_portable(x) for n, x in term['i'] if isinstance(x, dict) and 't' in x and 'i' in x]}


def assemble(segments):
    """segments executed one after another on one data directory (possibly in different interpreters) -> model request and
    the implementation outputs in global numbering.  Objects of different segments are different objects; locations and
    computation descriptors are shared."""
    locs, tags = {}, {}
    universe, tagl, mops, outs = [], [], [], []
    offset = 0
    seg_of_op = []
    # pass 1: numbering
    for si, seg in enumerate(segments):
        for o in seg['objects']:
            universe.append({'loc': locs.setdefault(tuple(o['lk']), len(locs)), 'persist': o['persist'],
                             'args': [offset + a for a in o['args']], 'pulls': [offset + a for a in o['pulls']],
                             'deps': [offset + a for a in o['deps']]})
            tagl.append(tags.setdefault(o['desc'], len(tags)))
        seg['offset'] = offset
        offset += len(seg['objects'])

    def gterm(t):
        return {'t': tags.get(t['d'], -1) if t['d'] is not None else -2, 'x': [gterm(x) for x in t['x']]}
    alive_before = 0
    for si, seg in enumerate(segments):
        off = seg['offset']
        for mop, o in zip(seg['ops'], seg['outs']):
            m = dict(mop)
            for k in ('i',):
                if k in m:
                    m[k] += off
            for k in ('failing', 'nodes', 'S', 'order'):
                if k in m:
                    m[k] = [x + off for x in m[k]]
            mops.append(m)
            g = {'runs': [x + off if x >= 0 else -1 for x in o['runs']],
                 'st': {'forced': [x + off for x in o['st']['forced']], 'in_memory': [x + off for x in o['st']['in_memory']],
                        'stored': sorted(locs[tuple(l)] for l in o['st']['stored'] if tuple(l) in locs)}}
            if 'raised' in o:
                g['raised'] = o['raised']; g['val'] = o['val'] if o['val'] in (None, 'EMPTY') else gterm(o['val'])
            if 'has_data' in o:
                g['has_data'] = o['has_data']
            g['_seg'] = (off, off + o['n'])
            g['_seglocs'] = sorted({universe[i]['loc'] for i in range(off, off + o['n'])})
            outs.append(g)
    return {'m': 'store', 'universe': universe, 'tags': tagl, 'ops': mops}, outs


def canon_model_out(mo, io):
    """bring a model output to the shape of the implementation output it is compared with: forced / in-memory flags are
    observable only for the objects of the interpreter that is alive (objects of earlier interpreters are gone)"""
    lo, hi = io['_seg']
    o = {'runs': mo['runs'], 'st': {'forced': sorted(x for x in mo['st']['forced'] if lo <= x < hi),
                                    'in_memory': sorted(x for x in mo['st']['in_memory'] if lo <= x < hi),
                                    'stored': sorted(x for x in mo['st']['stored'] if x in io['_seglocs'])}}
    if 'raised' in mo:
        o['val'] = 'EMPTY' if (io.get('val') == 'EMPTY' and mo['val'] is not None) else mo['val']; o['raised'] = mo['raised']
    elif 'has_data' in mo and 'has_data' in io:
        o['has_data'] = mo['has_data']
    return o


# --------------------------------------------------------------------------------------------- driving a batch of histories

def run_batch(ctx, n, allow, length=(8, 30), label='history', kinds=None, oracle=None, rich=False, stamp=False):
    """generate n histories, execute on the real code, replay on the model, diff per operation; call `oracle(ctx, case, hist, maps, spec)`"""
    from tcv.quiet import quiet
    quiet()
    root = ctx.tmpdir()
    reqs, metas = [], []
    for h in range(n):
        rng = ctx.rng(label, h)
        spec, variants = gen_family(rng, kinds=kinds, rich=rich)
        ops = gen_ops(rng, spec, variants, rng.randint(*length), allow)
        hist = run_history(spec, variants, ops, root / f'{label}{h}', stamp=stamp)
        errs = [r['error'] for r in hist['rec'] if r.get('error')]
        if errs:
            ctx.count('construction-error'); ctx.count('construction-error:' + str(errs[0]))
            if any(e != 'bad_type' for e in errs):
                # families are well-formed by construction (only a mistyped path value can make one unconstructible)
                ctx.case({'module': spec['module'], 'ops': ops}); ctx.diverge('family:construction', {'module': spec['module'], 'spec': spec, 'variants_full': variants}, errs, 'constructible')
            hist['built'].cleanup_module(); continue
        seg = portable(hist, spec)
        req, io = assemble([seg])
        maps = {'objs': topo_objects(hist['chains']), 'keep': seg['keep'], 'io': io}
        reqs.append(req); metas.append((spec, variants, ops, hist, maps))
    outs = ctx.model.many(reqs)
    # ---- the hypothesis of the link theorem (C01.same_key_same_computation), evaluated on every chain the real code built
    lreqs, lmeta = [], []
    for (spec, variants, ops, hist, maps) in metas:
        for r in hist['rec']:
            if r.get('ktasks'):
                lreqs.append({'m': 'link', 'tasks': r['ktasks'], 'np': sorted(pl.nonprintable(r['ktasks']))}); lmeta.append((spec, r['op']))
    for (spec, op), lo in zip(lmeta, ctx.model.many(lreqs)):
        if lo.get('wf'):
            ctx.count('chains:WFChain-holds')
        elif any(not b_['key_ok'] or not b_['inputs_found'] for b_ in lo.get('bad', [])):
            ctx.diverge('link:key-function', {'module': spec['module'], 'op': op, 'spec': spec}, 'keys of the real chain', lo.get('bad'))
        else:
            ctx.count('chains:outside-WFChain(values)')
    for (spec, variants, ops, hist, maps), mo in zip(metas, outs):
        case = {'module': spec['module'], 'ops': ops, 'variants': [{'ns': v['ns'], 'file': v['file']} for v in variants],
                'n_objects': len(maps['objs'])}
        ctx.case(case, nontrivial=len(maps['objs']) >= 2 and len(ops) >= 5)
        for op in ops:
            ctx.count(f"op:{op['op']}")
        if 'outs' not in mo:
            ctx.diverge('store-machine', case, None, mo)
        else:
            io = maps['io']
            for k, (a, b) in enumerate(zip(io, mo['outs'])):
                b = canon_model_out(b, a)
                a = {kk: vv for kk, vv in a.items() if not kk.startswith('_')}
                if a != b:
                    ctx.diverge('store-machine', {**case, 'spec': spec, 'variants_full': variants}, {'op_index': maps['keep'][k], 'op': ops[maps['keep'][k]], 'impl': a}, {'model': b})
                    break
        n_before = len(ctx.failures)
        unexpected_oracle(ctx, {**case, 'spec': spec, 'variants_full': variants}, hist)
        if oracle:
            oracle(ctx, {**case, 'spec': spec, 'variants_full': variants}, hist, maps, spec)
        if len(ctx.failures) > n_before and not ctx.notes.get('shrunk_history'):
            # the first failing history of a run is shrunk (operations removed one by one while the oracle keeps failing on the real code)
            ctx.notes['shrunk_history'] = True
            small = shrink_history(spec, variants, ops, root / f'{label}-shrink', oracle, stamp)
            if small is not None:
                for f_ in ctx.failures[n_before:]:
                    f_['minimal_ops'] = small
                ctx.notes['shrunk_history'] = f'{len(ops)} -> {len(small)} operations'
        hist['built'].cleanup_module()


class _Probe:
    """stands in for the run context while a shortened history is judged by the oracle"""
    def __init__(self):
        self.failures, self.notes, self.counts = [], {}, {}

    def fail(self, what, case, detail=None, known=None):
        if known is None:
            self.failures.append(what)

    def count(self, *a, **k):
        pass

    def case(self, *a, **k):
        pass

    def diverge(self, *a, **k):
        pass


def shrink_history(spec, variants, ops, root, oracle, stamp, budget=40):
    """delta debugging, one operation at a time from the end; chains are numbered by the `build` operations before them, so only
    operations other than build/restart are candidates.  Returns the shortened list, or None if nothing could be removed."""
    def fails(cand, k):
        try:
            hist = run_history(spec, variants, cand, root / f's{k}', stamp=stamp)
        except Exception:  # noqa
            return False
        try:
            if any(r.get('error') for r in hist['rec']):
                return False
            seg = portable(hist, spec)
            _, io = assemble([seg])
            maps = {'objs': topo_objects(hist['chains']), 'keep': seg['keep'], 'io': io}
            p = _Probe()
            unexpected_oracle(p, {}, hist)
            if oracle:
                oracle(p, {}, hist, maps, spec)
            return bool(p.failures)
        except Exception:  # noqa
            return False
        finally:
            hist['built'].cleanup_module()
    cur, k, i = list(ops), 0, len(ops) - 1
    while i >= 0 and k < budget:
        if i < len(cur) and cur[i]['op'] not in ('build', 'restart'):
            k += 1
            cand = cur[:i] + cur[i + 1:]
            if fails(cand, k):
                cur = cand
        i -= 1
    # constructions after the last remaining operation address no later operation: they can go too
    while len(cur) > 1 and cur[-1]['op'] in ('build', 'restart') and k < budget + 10:
        k += 1
        if not fails(cur[:-1], k):
            break
        cur = cur[:-1]
    return cur if len(cur) < len(ops) else None


def closure_used(task, spec, acc=None):
    """objects a request for `task` may run: the task and, recursively, the inputs its run uses"""
    acc = {} if acc is None else acc
    if id(task) in acc:
        return acc
    acc[id(task)] = task
    a, p = used_inputs(task, class_of(task, spec))
    for t in a + p:
        closure_used(t, spec, acc)
    return acc


def downstream(chain, tasks):
    """reflexive-transitive dependants of `tasks` within the chain, by an independent search over declared inputs"""
    from taskchain.task import Task
    out = {id(t): t for t in tasks}
    changed = True
    while changed:
        changed = False
        for t in chain.tasks.values():
            if id(t) in out:
                continue
            if any(isinstance(it, Task) and id(it) in out for it in t.input_tasks.values()):
                out[id(t)] = t; changed = True
    return out


def k3_in_closure(task, spec):
    """does the computation of `task` (or of anything upstream) involve a parameter in the K3 class
    (equal to its default under Python ==, but a different JSON value, with dont_persist_default_value)?"""
    from tcv import findings
    for t in closure_used(task, spec).values():
        for p in t.parameters.values():
            if p.dont_persist_default_value and not p.required and findings.k3(p._value, p.default):
                return True
    return False


def split_segments(ops):
    """cut an op list at 'restart' operations; chain numbers are renumbered per segment"""
    segs, cur, nmap, built = [], [], {}, 0
    for op in ops:
        if op['op'] == 'restart':
            if cur:
                segs.append(cur)
            cur, nmap = [], {}
            continue
        op = dict(op)
        if op['op'] == 'build':
            nmap[built] = len([o for o in cur if o['op'] == 'build']); built += 1
        elif 'chain' in op:
            if op['chain'] not in nmap:
                continue
            op['chain'] = nmap[op['chain']]
        cur.append(op)
    if cur:
        segs.append(cur)
    return segs


def run_segments_subprocess(spec, variants, ops, root, max_procs=16):
    """every segment (between restarts) in its own fresh interpreter, sequentially, on one data directory"""
    import os
    import subprocess
    import sys
    from tcv.core import REPO, VERIF, BrokenCheck
    pl.materialize(spec, root / 'src', modname=spec['module'])
    out = []
    for ops_seg in split_segments(ops):
        job = {'spec': spec, 'variants': variants, 'ops': ops_seg, 'root': str(root), 'data': str(root / 'data'), 'repo_src': str(REPO / 'src')}
        env = dict(os.environ); env['PYTHONPATH'] = str(VERIF / 'harness') + os.pathsep + str(REPO / 'src')
        p = subprocess.run([sys.executable, '-m', 'tcv.segment'], input=json.dumps(job), capture_output=True, text=True, env=env, timeout=300)
        if p.returncode != 0 or '@@SEGMENT@@' not in p.stdout:
            raise BrokenCheck('segment subprocess failed: ' + (p.stderr or p.stdout)[-800:])
        out.append(json.loads(p.stdout.split('@@SEGMENT@@')[-1]))
    return out


# --------------------------------------------------------------------------------------------- run records (C18)

def canon_run_info(ri):
    if ri is None:
        return None
    return {'task': {'name': ri['task']['name'], 'class': ri['task']['class']}, 'parameters': ri['parameters'],
            'config': {'name': ri['config']['name'], 'namespace': ri['config']['namespace']},
            'input_tasks': ri.get('input_tasks', {}), 'log': ri['log']}


def run_history_steps(spec, variants, ops, root, obs, mod):
    """execute ops on the real code (module already imported and prepared), observing log / run_info of every task object
    after every operation; returns objects, run events (attempt order, emitted lines/records, success) and observations"""
    b = pl.Built(root / 'src', spec['module'], spec)
    data = root / 'data'
    chains, all_chains, observations = [], [], []
    mod.RUNLOG.clear(); mod.FAIL.clear()
    # a single ordered trace: attempts ('A', id), emissions (id, msgs, recs), successes ('S', id)
    trace = mod.EMITTED

    class TraceList(list):
        def __init__(self, tag):
            super().__init__(); self.tag = tag

        def append(self, x):
            trace.append((self.tag, x)); super().append(x)
    obs.attempts, obs.success = TraceList('A'), TraceList('S')
    for op in ops:
        if op['op'] == 'build':
            v = variants[op['variant']]
            chain, err = pl.build(b, data, main='main_' + v['file'], context=v.get('context_disk') or v.get('context'))
            if err:
                return None
            chains.append(chain); all_chains.append(chain)
        elif op['op'] == 'restart':
            continue
        else:
            chain = chains[op['chain']] if op['chain'] < len(chains) else None
            if chain is None:
                continue
            task = task_by_slug(chain, op['task'], op.get('pick', 0)) if 'task' in op else None
            try:
                if op['op'] == 'value' and task is not None:
                    mod.FAIL.clear(); mod.FAIL.update(op['failing'])
                    try:
                        _ = task.value
                    except mod.RunFailure:
                        pass
                    finally:
                        mod.FAIL.clear()
                elif op['op'] == 'force' and task is not None:
                    task.force(delete_data=False)
                elif op['op'] == 'reset' and task is not None:
                    task.reset_data()
                elif op['op'] == 'chain_force':
                    ts = [task_by_slug(chain, s) for s in op['tasks']]
                    mod.FAIL.clear(); mod.FAIL.update(op.get('failing', []))
                    try:
                        chain.force([t.fullname for t in ts if t is not None], recompute=op['recompute'], delete_data=False)
                    except mod.RunFailure:
                        pass
                    finally:
                        mod.FAIL.clear()
                elif op['op'] == 'inspect' and task is not None:
                    inspect_op({}, op['what'], task, chain)
            except Exception as e:  # noqa
                observations.append({'unexpected': f'{type(e).__name__}: {e}'[:200], 'op': op, 'events_so_far': 0, 'by_loc': {}})
                continue
        n_attempts = sum(1 for x in trace if len(x) == 2 and x[0] == 'A')
        by_loc = {}
        for t in topo_objects(all_chains):
            lk = (str(t.path), t.name_for_persistence)
            # (reading a record back can itself fail on a broken implementation: that is an observation, not a harness error)
            try:
                lg = t.log
            except Exception as e:  # noqa
                lg = [f'<<reading the log raised {type(e).__name__}>>']
            try:
                ri = canon_run_info(t.run_info)
            except Exception as e:  # noqa
                ri = {'error': f'reading the run info raised {type(e).__name__}'}
            by_loc[lk] = {'fullname': t.fullname, 'log': lg, 'run_info': ri}
        observations.append({'events_so_far': n_attempts, 'by_loc': by_loc, 'op': op})
    objs = topo_objects(all_chains)
    idx = {id(t): i for i, t in enumerate(objs)}
    locs = {}
    objects = []
    for t in objs:
        lk = (str(t.path), t.name_for_persistence)
        objects.append({'fullname': t.fullname, 'slug': t.slugname, 'cls': t.__class__.__name__, 'ns': t.get_config().namespace,
                        'config_name': t.get_config().name, 'params': pl.model_params(t), 'loc': locs.setdefault(lk, len(locs)),
                        'input_keys': dict(t.get_config().input_tasks)})
    events, open_ev = [], {}
    for x in trace:
        if len(x) == 2 and x[0] == 'A':
            ev = {'obj': idx[x[1]], 'obj_loc': objects[idx[x[1]]]['loc'], 'emitted': False, 'msgs': [], 'recs': [], 'ok': False}
            events.append(ev); open_ev[x[1]] = ev
        elif len(x) == 2 and x[0] == 'S':
            if x[1] in open_ev:
                open_ev.pop(x[1])['ok'] = True
        elif len(x) == 3 and x[0] in open_ev:
            open_ev[x[0]].update(emitted=True, msgs=x[1], recs=x[2])
    for o in observations:
        o['by_loc'] = {locs[lk]: v for lk, v in o['by_loc'].items() if lk in locs}
    return {'objects': objects, 'events': events, 'observations': observations}
