def persisting(task):
    from taskchain.data import InMemoryData
    return not issubclass(task.data_class, InMemoryData)
