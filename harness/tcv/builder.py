"""Builder-level cases: generated (task classes, config file tree, context) triples built by the real code and by the Lean
builder model (TCV.Config / TCV.Build), plus an executable reference (refbuild) used as oracle."""
import copy
import re
import json

from tcv import pipeline as pl, gen

NSN = ['n', 'xn', 'na', 'g', 't0', 't', 'train']          # namespace names colliding with groups / task names
VALS = [1, 2, 'v', 'q', [1, {'k': 'z'}], None, True, 0, 1.5, {'a': [1]}]
DTYPES = {'int': int, 'str': str, 'float': float, 'bool': bool, 'list': list, 'dict': dict}


def slug(c):
    return (c['group'] + ':' if c.get('group') else '') + c['name']


def gen_classes(rng, malformed=False):
    n = rng.randint(2, 7)
    classes, order = {}, []
    for i in range(n):
        cid = f'K{i}'
        group = rng.choice(['', '', 'g', 'g:h', 'n', 'train'])
        name = rng.choice([f't{i}'] * 6 + ['t', 't0', 'train_x', 't_task'])   # collisions on purpose (an explicit name keeps a trailing `_task`)
        if any(slug(c_) == slug({'group': group, 'name': name}) for c_ in classes.values()):
            # (equal SHORT names are wanted; two classes with one FULL name in one spec are not: which of them a config that lists both ends
            #  up with, and where it then sits in the order of the chain, is outside the builder model)
            name = f't{i}'
        params = []
        for pn in rng.sample(['x', 'y', 'z', 'w'], rng.randint(0, 3)):
            p = {'name': pn}
            if rng.random() < 0.6:
                p['default'] = rng.choice(VALS)
            if rng.random() < 0.2:
                p['nic'] = pn + '_cfg'
            if rng.random() < 0.2:
                p['ignore'] = True
            if rng.random() < 0.3 and 'default' in p:
                p['dpd'] = True
            if rng.random() < 0.06:
                p['dtype'] = rng.choice(['int', 'str', 'list'])
            params.append(p)
        inputs = []
        for j in rng.sample(order, min(len(order), rng.randint(0, 2))):
            cj = classes[j]
            how = rng.random()
            if how < 0.4:
                inputs.append({'by': 'class', 'ref': j})
            elif how < 0.55:
                inputs.append({'by': 'name', 'ref': cj['name']})
            elif how < 0.7:
                inputs.append({'by': 'name', 'ref': slug(cj)})
            elif how < 0.73:
                inputs.append({'by': 'name', 'ref': rng.choice(NSN) + '::' + cj['name']})
            elif how < 0.88:
                inputs.append({'by': 'class', 'ref': j, 'default': rng.choice([5, None, 'd'])})
            else:
                inputs.append({'by': 'name', 'ref': cj['name'], 'default': rng.choice([5, None])})
        if rng.random() < 0.1:
            inputs.append({'by': 'name', 'ref': rng.choice(['~t.*', '~~t.*', '~g:t.*', '~t0', '~t', '~t1', '~g:t'])})
        if malformed:
            r = rng.random()
            if r < 0.25:
                inputs.append({'by': 'name', 'ref': 'no_such_task'})                       # dangling required input
            elif r < 0.4:
                inputs.append({'by': 'name', 'ref': 'no_such_task', 'default': 1})         # dangling optional input
            elif r < 0.55 and inputs:
                inputs.append(copy.deepcopy(inputs[0]))                                    # duplicate input
        classes[cid] = {'name': name, 'group': group, 'params': params, 'inputs': inputs, 'abstract': rng.random() < 0.05,
                        'kind': 'json', 'run_args': [], 'pull': [], 'in_kinds': {}, 'base': 'Task'}
        if order and rng.random() < 0.2:
            classes[cid]['parent'] = rng.choice(order)       # task inheritance: exclusion / registration go by the class itself
        order.append(cid)
    if malformed and rng.random() < 0.5 and len(order) >= 2:
        # a dependency cycle of length 1..n by name (classes are defined, so by-name references are possible in any direction)
        k = rng.randint(1, min(5, len(order)))
        cyc = rng.sample(order, k)
        for a, b in zip(cyc, cyc[1:] + cyc[:1]):
            classes[a]['inputs'].append({'by': 'name', 'ref': slug(classes[b])})
    return classes


def ctx_dict(rng, used=(), shared=None):
    """a context dict; `used` = namespaces the config tree really mounts (so that per-namespace entries take effect),
    `shared` = a namespace every context of this case gets an entry for (merging of per-namespace entries)"""
    c = {}
    for pn in ['x', 'y', 'z', 'w', 'x_cfg']:
        if rng.random() < 0.25:
            c[pn] = rng.choice([7, 'c', [3]])
    pool = (list(used) * 3 if used else []) + NSN + ['n::xn', 'g::n', 'train::n']
    if rng.random() < 0.5:
        c['for_namespaces'] = {rng.choice(pool): {rng.choice(['x', 'y', 'z']): rng.choice([8, 'd'])}
                               for _ in range(rng.randint(1, 2))}
    if shared is not None and rng.random() < 0.7:
        c.setdefault('for_namespaces', {}).setdefault(shared, {})[rng.choice(['x', 'y', 'z', 'w'])] = rng.choice([9, 'e', [4]])
    return c


def used_namespaces(fs):
    """aliases appearing in `uses` entries (and their pairwise compositions)"""
    al = []
    for d in fs.values():
        parts = d['configs'].values() if 'configs' in d else [d]
        for p in parts:
            for u in los(p.get('uses', [])):
                if ' as ' in u:
                    al.append(u.split(' as ')[1])
    al = sorted(set(al))
    return al + [f'{a}::{b}' for a in al[:2] for b in al[:2]]


def gen_case(rng, malformed=False, yaml_share=0.25, conflict=False, ctx_kind=None, wellformed=False):
    classes = gen_classes(rng, malformed)
    if not (malformed or conflict or wellformed) and rng.random() < 0.45:
        wellformed = True          # keep construction errors from dominating the general stream
    if wellformed:
        # mostly-valid stream: one pipeline file declaring every class, no typed / abstract / cross-namespace declarations
        for c in classes.values():
            c['abstract'] = False
            for p in c['params']:
                p.pop('dtype', None)
            c['inputs'] = [i for i in c['inputs'] if '::' not in str(i['ref']) and not str(i['ref']).startswith('~')]
    names = list(classes)
    files = []
    mounted = conflict or wellformed or rng.random() < 0.55          # one pipeline file declaring everything, mounted 1-3 times by the main file
    nfiles = 2 if mounted else rng.randint(1, 4)
    pool = names[:]
    rng.shuffle(pool)
    ext = lambda: '.yaml' if rng.random() < yaml_share else '.json'
    for f in range(nfiles):
        mine = [pool.pop() for _ in range(min(len(pool), rng.randint(1, 3)))] if f < nfiles - 1 else pool[:]
        if mounted:
            mine = [] if f == 0 else names[:]
        if not mounted and rng.random() < 0.15 and names:
            mine.append(rng.choice(names))         # the same class in two files: sometimes a conflict
        data = {'tasks': mine}
        if rng.random() < 0.15 and mine:
            parents = [classes[c]['parent'] for c in mine if classes[c].get('parent') in mine]
            data['excluded_tasks'] = [rng.choice(parents) if parents and rng.random() < 0.6 else rng.choice(mine)]
        for cn in mine:
            for p in classes[cn]['params']:
                if 'default' not in p or rng.random() < 0.5:
                    if rng.random() < (0.85 if malformed else 1.0):
                        v = rng.choice(VALS)
                        if p.get('dtype') and rng.random() < 0.7:
                            v = {'int': 3, 'str': 's', 'list': [1]}[p['dtype']]
                        data[p.get('nic', p['name'])] = v
        files.append((f'f{f}{ext()}', data))
    for i, (path, data) in enumerate(files):
        us = []
        for j in range(i + 1, len(files)):
            if j == i + 1 or rng.random() < 0.3:
                for _ in range(rng.randint(1, 3) if mounted else rng.randint(1, 2)):
                    ns = rng.choice([None] + NSN)
                    u = '@cfg/' + files[j][0] + (f' as {ns}' if ns else '')
                    if u not in us:
                        us.append(u)
        if us:
            data['uses'] = us if len(us) > 1 or rng.random() < 0.5 else us[0]
    fs = {}
    if rng.random() < 0.3 and len(files) >= 2:
        mp = {'configs': {}}
        ren = {}
        for k, (path, data) in enumerate(files[1:]):
            pn = f'p{k}'
            ren['@cfg/' + path] = '@cfg/mp.json#' + pn
            mp['configs'][pn] = data

        # one part may be marked `main_part`: the multi-part file is then usable without naming a part
        main_pn = rng.choice(sorted(mp['configs'])) if rng.random() < 0.4 else None
        if main_pn:
            mp['configs'][main_pn]['main_part'] = True
        if malformed and rng.random() < 0.15:
            ren[rng.choice(sorted(ren))] = '@cfg/mp.json#' + rng.choice(['nope', ''])       # a part that does not exist / no part named

        def rw(u, inside):
            for old, new in ren.items():
                if u.startswith(old):
                    rest = u[len(old):]
                    if main_pn and new.endswith('#' + main_pn) and not inside and rng.random() < 0.7:
                        return '@cfg/mp.json' + rest
                    return ('#' + new.split('#')[1] if inside and rng.random() < 0.7 else new) + rest
            return u
        for pn, data in mp['configs'].items():
            if 'uses' in data:
                data['uses'] = [rw(u, True) for u in ([data['uses']] if isinstance(data['uses'], str) else data['uses'])]
        d0 = files[0][1]
        if 'uses' in d0:
            d0['uses'] = [rw(u, False) for u in ([d0['uses']] if isinstance(d0['uses'], str) else d0['uses'])]
        fs[files[0][0]] = d0
        fs['mp.json'] = mp
    else:
        for path, data in files:
            fs[path] = data
    main = files[0][0]
    if conflict:
        # an otherwise valid tree in which a second config declares one of the classes again in the same namespace
        base_uses = fs[main].get('uses') or []
        u0 = (base_uses if isinstance(base_uses, list) else [base_uses])
        if u0:
            target = u0[0]
            ns_part = (' as ' + target.split(' as ')[1]) if ' as ' in target else ''
            cands = [c for c in names if not classes[c]['abstract']]
            cid = rng.choice(cands) if cands else names[0]
            q = {'tasks': [cid]}
            for p in classes[cid]['params']:
                v = rng.choice(VALS)
                if p.get('dtype'):
                    v = {'int': 3, 'str': 's', 'list': [1]}[p['dtype']]
                q[p.get('nic', p['name'])] = v
            # half of the time the second declaring file has the same stem as the first, in another directory
            pipeline_file = target.split(' as ')[0].replace('@cfg/', '')
            qname = ('other/' + pipeline_file.split('#')[0].split('/')[-1]) if rng.random() < 0.5 and '#' not in pipeline_file else 'q_conflict.json'
            fs[qname] = q
            fs[main]['uses'] = u0 + ['@cfg/' + qname + ns_part]
    kind = rng.choice(['none', 'none', 'dict', 'file', 'list', 'uses', 'uses'])
    kind = ctx_kind or kind
    ctx = None
    used = used_namespaces(fs)
    shared = rng.choice(used) if used and rng.random() < 0.7 else None
    if kind == 'dict':
        ctx = ctx_dict(rng, used)
    elif kind == 'file':
        fs['ctx.json'] = ctx_dict(rng, used); ctx = '@cfg/ctx.json'
    elif kind == 'list':
        fs['ctx.json'] = ctx_dict(rng, used, shared); ctx = [ctx_dict(rng, used, shared), '@cfg/ctx.json', ctx_dict(rng, used, shared)]
    elif kind == 'uses':
        fs['c1.json'] = ctx_dict(rng, used); fs['c2.json'] = ctx_dict(rng, used, shared)
        if not any(k in fs['c1.json'] for k in ('x', 'y', 'z', 'w')):
            fs['c1.json'][rng.choice(['x', 'y', 'z'])] = 'u1'       # a value no other context gives: where c1 reaches is visible
        if rng.random() < 0.65:
            # nested `uses` inside a context, with and without `as`: a plain one inherits the namespace of the using context
            fs['c2.json']['uses'] = '@cfg/c1.json' + (' as ' + rng.choice(NSN) if rng.random() < 0.5 else '')
        top = ctx_dict(rng, used, shared)
        ns_pick = lambda: rng.choice(used) if used and rng.random() < 0.6 else rng.choice(NSN)
        top['uses'] = ['@cfg/c1.json as ' + ns_pick(), '@cfg/c2.json' + rng.choice(['', ' as ' + ns_pick(), ' as ' + ns_pick()])]
        if rng.random() < 0.5:
            fs['ctx.json'] = top; ctx = '@cfg/ctx.json'
        else:
            ctx = top
    return {'module': gen.fresh_modname(), 'classes': classes, 'files': fs, 'main': main, 'context': ctx, 'ctx_kind': kind,
            'malformed': malformed, 'conflict': conflict}


def gen_exclusion_case(rng):
    """`excluded_tasks` is a matter of the declaring config alone: two or three config files declare the same classes (under different
    namespaces, or some at the root), only one of them excludes one; the others keep it — whatever the order of processing"""
    classes = {}
    for i, nm in enumerate(rng.sample(['t1', 't2', 't3', 'feat'], rng.randint(2, 3))):
        classes[f'K{i}'] = {'name': nm, 'group': rng.choice(['', 'g']), 'params': [{'name': 'x', 'default': 0}] if rng.random() < 0.5 else [],
                            'inputs': [], 'abstract': False, 'kind': 'json', 'run_args': [], 'pull': [], 'in_kinds': {}, 'base': 'Task'}
    ids = list(classes)
    # a consumer that takes the excluded class as an OPTIONAL input (where it is excluded the default is used, construction succeeds)
    victim = rng.choice(ids)
    classes['KC'] = {'name': 'cons', 'group': '', 'params': [], 'inputs': [{'by': 'class', 'ref': victim, 'default': rng.choice([None, 5])}],
                     'abstract': False, 'kind': 'json', 'run_args': [], 'pull': [], 'in_kinds': {}, 'base': 'Task'}
    n = rng.randint(2, 3)
    who = rng.randrange(n)                       # the config that excludes
    nss = rng.sample([None, 'a', 'b', 'n'], n)
    fs, uses = {}, []
    for j in range(n):
        d = {'tasks': ids + ['KC']}
        if j == who:
            d['excluded_tasks'] = [victim]
        if rng.random() < 0.5:
            d['x'] = j
        fs[f'p{j}.json'] = d
        uses.append(f'@cfg/p{j}.json' + (f' as {nss[j]}' if nss[j] else ''))
    fs['main.json'] = {'uses': uses}
    return {'module': gen.fresh_modname(), 'classes': classes, 'files': fs, 'main': 'main.json', 'context': None, 'ctx_kind': 'none',
            'malformed': False, 'conflict': False, 'family': 'exclusion'}


def gen_rootref_case(rng):
    """a ROOT-level task refers by name (required or optional input) to a task that exists only INSIDE a namespace (or only at the
    root while the referring task sits in a namespace): a name without namespace part is looked up in the referring task's own
    namespace only — the reference is dangling (error) or falls back to its default, it is never wired to the foreign task"""
    classes = {}
    prods = []
    for i, nm in enumerate(rng.sample(['t1', 't2', 'feat', 'raw'], rng.randint(1, 3))):
        cid = f'K{i}'
        classes[cid] = {'name': nm, 'group': rng.choice(['', '', 'g']), 'params': [], 'inputs': [], 'abstract': False, 'kind': 'json',
                        'run_args': [], 'pull': [], 'in_kinds': {}, 'base': 'Task'}
        prods.append(cid)
    target = classes[rng.choice(prods)]
    ref = rng.choice([target['name'], slug(target)])
    inp = {'by': 'name', 'ref': ref}
    if rng.random() < 0.5:
        inp['default'] = rng.choice([None, 5])
    cons = f'K{len(classes)}'
    classes[cons] = {'name': 'consumer', 'group': '', 'params': [], 'inputs': [inp], 'abstract': False, 'kind': 'json', 'run_args': [],
                     'pull': [], 'in_kinds': {}, 'base': 'Task'}
    ns = rng.choice(['a', 'n', 'train'])
    shape = rng.choice(['root-refers-into-ns', 'root-refers-into-ns', 'ns-refers-to-root', 'both-present'])
    if shape == 'root-refers-into-ns':
        fs = {'main.json': {'tasks': [cons], 'uses': [f'@cfg/p.json as {ns}']}, 'p.json': {'tasks': prods}}
    elif shape == 'ns-refers-to-root':
        fs = {'main.json': {'tasks': prods, 'uses': [f'@cfg/c.json as {ns}']}, 'c.json': {'tasks': [cons]}}
    else:
        fs = {'main.json': {'tasks': [cons] + prods, 'uses': [f'@cfg/p.json as {ns}']}, 'p.json': {'tasks': prods}}
    return {'module': gen.fresh_modname(), 'classes': classes, 'files': fs, 'main': 'main.json', 'context': None, 'ctx_kind': 'none',
            'malformed': False, 'conflict': False, 'family': 'root-ref:' + shape}


def gen_wildcard_case(rng):
    """a pipeline module declared by wildcard (`tasks: <module>.*`): every task class of the module, also classes whose Python name
    starts with an underscore, minus abstract ones; with and without an exclusion"""
    spec = gen_case(rng, wellformed=True)
    classes = spec['classes']
    # rename a few classes to "private" names (class ids are only labels)
    ren = {cid: ('_' + cid if rng.random() < 0.4 else cid) for cid in classes}
    def rn(x):
        return ren.get(x, x)
    new = {}
    for cid, c in classes.items():
        c = copy.deepcopy(c)
        for i in c['inputs']:
            if i['by'] == 'class':
                i['ref'] = rn(i['ref'])
        if c.get('parent'):
            c['parent'] = rn(c['parent'])
        new[rn(cid)] = c
    spec['classes'] = new
    def fix(d):
        if 'configs' in d:
            for p in d['configs'].values():
                fix(p)
            return
        if d.get('tasks'):
            full = set(los(d['tasks'])) == set(classes)
            r = rng.random()
            if full and r < 0.5:
                d['tasks'] = '*'
            elif full and r < 0.85:
                # partial wildcards over the Python class names: the public and the private classes (`T*`, `_T*`), any class (`*T*`);
                # (a wildcard that matches nothing is an ImportError: only patterns with a match are written)
                priv = any(x.startswith('_') for x in new)
                pub = any(not x.startswith('_') for x in new)
                if priv and pub:
                    d['tasks'] = rng.choice([['glob:T*', 'glob:_T*'], ['glob:_T*', 'glob:T*'], ['glob:*T*'], ['glob:TK*', 'glob:_T*']])
                else:
                    d['tasks'] = rng.choice([['glob:*T*'], ['glob:T*'] if pub else ['glob:_T*'], ['glob:TK*'] if pub else ['glob:_TK*']])
            else:
                d['tasks'] = [rn(x) for x in los(d['tasks'])]
        if d.get('excluded_tasks'):
            d['excluded_tasks'] = [rn(x) for x in los(d['excluded_tasks'])]
            if rng.random() < 0.3:
                import re as _re
                cands = [g for g in ['TK1*', '_T*', 'TK*2_', 'T*0_', '*1_'] if any(
                    _re.compile(_re.sub(r'((?<=([^.]))|^)\*', '.*', g)).match(pl.pyname(x)) for x in new)]
                if cands:
                    d['excluded_tasks'] = ['glob:' + rng.choice(cands)]
    for d in spec['files'].values():
        if isinstance(d, dict):
            fix(d)
    spec['family'] = 'wildcard'
    return spec


def gen_pattern_case(rng):
    """pattern inputs (`~literal`, `~literal.*`, `~~…`) declared at a namespace that is a proper ANCESTOR (or the root) of other
    namespaces holding matching tasks: a pattern reaches the tasks of exactly the declaring task's namespace, not of nested ones"""
    classes = {}
    prods = []
    for i, nm in enumerate(rng.sample(['t1', 't2', 't10', 't', 'tx', 'u1'], rng.randint(2, 4))):
        cid = f'K{i}'
        classes[cid] = {'name': nm, 'group': rng.choice(['', '', 'g']), 'params': [{'name': 'x', 'default': 1}] if rng.random() < 0.4 else [],
                        'inputs': [], 'abstract': False, 'kind': 'json', 'run_args': [], 'pull': [], 'in_kinds': {}, 'base': 'Task'}
        prods.append(cid)
    pat = rng.choice(['~t.*', '~t.*', '~t1', '~t1.*', '~~t.*', '~g:t.*', '~u.*'])
    cons = f'K{len(classes)}'
    classes[cons] = {'name': rng.choice(['collect', 'agg']), 'group': rng.choice(['', 'g']), 'params': [], 'inputs': [{'by': 'name', 'ref': pat}],
                     'abstract': False, 'kind': 'json', 'run_args': [], 'pull': [], 'in_kinds': {}, 'base': 'Task'}
    a, b_ = rng.sample(['a', 'n', 'train', 'g'], 2)
    shape = rng.choice(['root', 'root', 'mid', 'both'])
    near = rng.sample(prods, rng.randint(0, min(2, len(prods))))          # producers declared next to the consumer
    pdata = {'tasks': prods}
    fs = {}
    if shape == 'root':
        uses = [f'@cfg/p.json as {a}'] + ([f'@cfg/p.json as {b_}'] if rng.random() < 0.3 else []) + ([f'@cfg/p.json as {a}::{b_}'] if rng.random() < 0.3 else [])
        fs['main.json'] = {'tasks': [cons] + near, 'uses': uses}
        if near:
            fs['main.json'].update({})
        fs['p.json'] = pdata
    elif shape == 'mid':
        fs['main.json'] = {'uses': [f'@cfg/mid.json as {a}']}
        fs['mid.json'] = {'tasks': [cons] + near, 'uses': [f'@cfg/p.json as {b_}'] + (['@cfg/q.json'] if rng.random() < 0.4 else [])}
        fs['p.json'] = pdata
        if '@cfg/q.json' in fs['mid.json']['uses']:
            fs['q.json'] = {'tasks': [c for c in prods if c not in near][:2]}
            if not fs['q.json']['tasks']:
                fs['mid.json']['uses'].remove('@cfg/q.json'); del fs['q.json']
    else:
        # the consumer at the root AND (through a second mounting of its file) inside a namespace
        fs['main.json'] = {'uses': ['@cfg/c.json', f'@cfg/c.json as {a}', f'@cfg/p.json as {a}::{b_}']}
        fs['c.json'] = {'tasks': [cons] + near}
        fs['p.json'] = pdata
    for d in fs.values():
        for cid in d.get('tasks', []):
            for p_ in classes[cid]['params']:
                if rng.random() < 0.5:
                    d[p_['name']] = rng.choice([1, 2])
    return {'module': gen.fresh_modname(), 'classes': classes, 'files': fs, 'main': 'main.json', 'context': None, 'ctx_kind': 'none',
            'malformed': False, 'conflict': False, 'family': 'pattern-up'}


# --------------------------------------------------------------------------------------------- encoding for the model

def los(v):
    return [v] if isinstance(v, str) else list(v)


STRUCT = ('tasks', 'excluded_tasks', 'uses', 'main_part', 'configs', 'for_namespaces')


def enc_data(d):
    return [[k, pl.to_model(v)] for k, v in d.items() if k not in STRUCT]


def star_tasks(spec):
    """what `tasks: <module>.*` stands for: every task class defined in the module, in definition order (`module.__dict__`)"""
    return pl.order_classes(spec['classes'])


def expand_star(spec):
    """the spec with wildcard declarations written out (for the model and the reference; the files on disk keep the wildcard)"""
    def ex(d):
        d = dict(d)
        if 'configs' in d:
            d['configs'] = {k: ex(v) for k, v in d['configs'].items()}
        for f in ('tasks', 'excluded_tasks'):
            if d.get(f) == '*' or d.get(f) == ['*']:
                d[f] = star_tasks(spec)
            elif isinstance(d.get(f), list) and any(isinstance(x, str) and x.startswith('glob:') for x in d[f]):
                # a partial wildcard stands for every class of the module whose Python name matches from its start (`*` = any text),
                # in definition order
                out = []
                for x in d[f]:
                    if isinstance(x, str) and x.startswith('glob:'):
                        rx = re.compile(re.sub(r'((?<=([^.]))|^)\*', '.*', x[5:]))
                        out += [cid for cid in star_tasks(spec) if rx.match(pl.pyname(cid))]
                    else:
                        out.append(x)
                d[f] = out
        return d
    return {**spec, 'files': {k: ex(v) for k, v in spec['files'].items()}}


def enc_part(p, b):
    return {'data': enc_data(p), 'tasks': los(p.get('tasks', [])), 'excluded': los(p.get('excluded_tasks', [])),
            'uses': [pl.subst_paths(u, b) for u in los(p.get('uses', []))], 'main': bool(p.get('main_part', False))}


def enc_ctx_raw(d, b):
    return {'data': enc_data(d), 'for_ns': [[ns, enc_data(v)] for ns, v in d.get('for_namespaces', {}).items()],
            'uses': [pl.subst_paths(u, b) for u in los(d.get('uses', []))]}


def enc_ctx(c, b):
    if c is None:
        return None
    if isinstance(c, str):
        return {'file': pl.subst_paths(c, b)}
    if isinstance(c, dict):
        return {'dict': enc_ctx_raw(c, b)}
    return {'list': [enc_ctx(x, b) for x in c]}


def effective_inputs(c):
    """plain input_tasks first, then the InputTaskParameter declarations (those with a default), as the code iterates"""
    return [i for i in c['inputs'] if 'default' not in i] + [i for i in c['inputs'] if 'default' in i]


def enc_classes(spec):
    out = []
    for cid, c in spec['classes'].items():
        ps = []
        for p in c['params']:
            q = {'name': p['name'], 'nic': p.get('nic', p['name']), 'ignore': bool(p.get('ignore')), 'dpd': bool(p.get('dpd'))}
            if 'default' in p:
                q['default'] = pl.to_model(p['default'])
            if p.get('dtype'):
                q['dtype'] = p['dtype']
            ps.append(q)
        ins = []
        for i in effective_inputs(c):
            e = {'by': i['by'], 'ref': i['ref']}
            if 'default' in i:
                e['default'] = pl.to_model(i['default'])
            ins.append(e)
        out.append({'cid': cid, 'slug': gen.slug_of(c, spec['module']), 'abstract': bool(c.get('abstract')), 'params': ps, 'inputs': ins})
    return out


def encode(spec, b, mains=None):
    spec = expand_star(spec)
    files, ctx_files = [], []
    for rel, d in spec['files'].items():
        path = str(b.path(rel))
        if 'configs' in d:
            files.append([path, {'multi': [[pn, enc_part(p, b)] for pn, p in d['configs'].items()]}])
        else:
            files.append([path, {'single': enc_part(d, b)}])
        if 'configs' not in d:
            ctx_files.append([path, enc_ctx_raw(d, b)])
    req = {'m': 'build', 'classes': enc_classes(spec), 'files': files, 'ctx_files': ctx_files, 'np': []}
    if mains is None:
        req.update(op='build', main=str(b.path(spec['main'])), ns=spec.get('namespace'), ctx=enc_ctx(spec.get('context'), b))
    else:
        req.update(op='multi', mains=[{'main': str(b.path(m)), 'ctx': enc_ctx(c, b)} for m, c in mains])
    return req


# --------------------------------------------------------------------------------------------- implementation side

def describe_chain(chain, spec):
    from taskchain.task import Task
    out, objs = [], {}
    for n, t in chain.tasks.items():
        cid = [c for c in spec['classes'] if pl.pyname(c) == t.__class__.__name__][0]
        ins = []
        for k, v in t.input_tasks.items():
            ins.append([k, {'obj': objs.setdefault(id(v), len(objs))} if isinstance(v, Task) else {'default': pl.to_model(v)}])
        out.append({'full': n, 'cid': cid, 'slug': t.slugname, 'ns': t.get_config().namespace,
                    'params': [[p.name, pl.to_model(p._value)] for p in t.parameters.values()],
                    'inputs': ins, 'key': t.name_for_persistence, 'obj': objs.setdefault(id(t), len(objs))})
    return out


def canon_tasks(ts, with_obj=True):
    """comparable form: object ids renumbered by first occurrence; config index dropped"""
    ren = {}
    out = []
    by_name = {t['full']: t['obj'] for t in ts}
    for t in ts:
        u = {k: t[k] for k in ('full', 'cid', 'slug', 'ns', 'params', 'key')}
        ins = []
        for k, v in t['inputs']:
            if 'task' in v:          # model: names -> object of that name
                v = {'obj': by_name.get(v['task'], -1)}
            ins.append([k, v])
        u['inputs'] = ins
        u['obj'] = t['obj']
        out.append(u)
    # renumber objects by first occurrence (as task or as input)
    for u in out:
        u['obj'] = ren.setdefault(u['obj'], len(ren))
        for k, v in u['inputs']:
            if 'obj' in v:
                v['obj'] = ren.setdefault(v['obj'], len(ren))
    return out


def build_impl(spec, b, data_dir, **kw):
    chain, err = pl.build(b, data_dir, **kw)
    if err:
        return {'error': err}
    return {'ok': describe_chain(chain, spec), 'chain': chain}
