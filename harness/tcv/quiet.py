"""silence progress bars and library logging in the harness process (no effect on behaviour)"""
import logging
import os
import warnings


def quiet():
    warnings.filterwarnings('ignore')
    os.environ.setdefault('TQDM_DISABLE', '1')
    logging.disable(logging.CRITICAL)
    try:
        import taskchain.utils.iter as it
        it.tqdm = lambda data=None, **kw: data
        it.tqdm_notebook = it.tqdm
    except Exception:
        pass
