"""Seeded, structured generators shared by the property checks."""
import copy

ALPH = ["a", "b", "'", '"', "\\", " ", ",", ":", "#", "$", "=", "[", "]", "{", "}", "\n", "\t", "\x00", "\x7f", "é",
        "\xa0", "😀", "1", ".", "-", " "]
SAFE = ["a", "b", "c", "x", "y", "1", "2", "_", "-", ".", " ", "é", "/"]
INTS = [0, 1, -1, 2, 7, 10 ** 20, -7, 2 ** 63, 42]
FLOATS = [0.0, -0.0, 1.0, 1.5, 1e16, 1e-7, 5e-324, 1e22, 123456789.123, 2.0, -3.25]


def gen_str(rng, alphabet=None, maxlen=6):
    alphabet = alphabet or ALPH
    return ''.join(rng.choice(alphabet) for _ in range(rng.randrange(0, maxlen)))


def gen_value(rng, depth=0, maxdepth=4, alphabet=None, keys=None):
    """JSON-like value: None/bool/int/float/str/list/dict with str keys"""
    r = rng.random()
    if depth >= maxdepth or r < 0.5:
        k = rng.randrange(9)
        if k == 0:
            return None
        if k == 1:
            return rng.choice([True, False])
        if k in (2, 3):
            return rng.choice(INTS)
        if k == 4:
            return rng.choice(FLOATS)
        return gen_str(rng, alphabet)
    if r < 0.78:
        return [gen_value(rng, depth + 1, maxdepth, alphabet, keys) for _ in range(rng.randrange(0, 4))]
    return {gen_str(rng, keys or alphabet, 4): gen_value(rng, depth + 1, maxdepth, alphabet, keys) for _ in range(rng.randrange(0, 4))}


def quote_free(v):
    """the complement of the K1 class: no `'` (and no backslash) in any string or key"""
    if isinstance(v, str):
        return "'" not in v and '\\' not in v
    if isinstance(v, list):
        return all(quote_free(x) for x in v)
    if isinstance(v, dict):
        return all(quote_free(k) and quote_free(x) for k, x in v.items())
    return True


def strict_default_ok(value, default):
    """the complement of the K3 class: `value == default` only when they are the same JSON value"""
    return not (value == default and canon_json(value) != canon_json(default))


def canon_json(v):
    """canonical, type-strict identity of a JSON-like value (bool/int/float distinguished, -0.0 vs 0.0 distinguished)"""
    if isinstance(v, bool):
        return ('b', v)
    if isinstance(v, int):
        return ('i', v)
    if isinstance(v, float):
        return ('f', repr(v))
    if v is None:
        return ('n',)
    if isinstance(v, str):
        return ('s', str(v))
    if isinstance(v, list):
        return ('l', tuple(canon_json(x) for x in v))
    if isinstance(v, dict):
        return ('d', tuple(sorted((k, canon_json(x)) for k, x in v.items())))
    return ('o', repr(v))


GROUPS = ['', '', 'g', 'g:h', 'data', 'xg']
NAMES = ['up', 'down', 'a', 'b', 'mid', 'x_y', 'train', 'train_x', 'na', 'n']
NSS = ['n', 'm', 'xn', 'train', 'a', 'ns1']
KINDS_P = ['json', 'json', 'json', 'jsontuple', 'numpy', 'pandas', 'generated', 'listnp', 'dir', 'continues', 'memory', 'memfalsy']
PNAMES = ['pa', 'pb', 'pc', 'pd', 'x', 'lr', 'lr2', 'x_2']       # incl. names that are prefixes of one another: `lr=…` / `lr2=…` sort by NAME


def gen_params(rng, n, alphabet=None, keys=None, simple=False):
    out = []
    for name in rng.sample(PNAMES, n):
        p = {'name': name}
        r = rng.random()
        if r < 0.5:
            p['default'] = gen_value(rng, 2, alphabet=alphabet, keys=keys) if not simple else rng.choice([0, None, 'x', 1.5])
            if rng.random() < 0.6:
                p['dpd'] = True
        if rng.random() < 0.15:
            p['ignore'] = True
        if rng.random() < 0.15:
            p['nic'] = name + '_cfg'
        elif rng.random() < 0.08:
            p['nic'] = 'cfg_' + name[::-1]         # sorts differently from the parameter name
        if 'default' not in p and rng.random() < 0.12 and not any(q.get('dtype') == 'path' for q in out):
            p['dtype'] = 'path'
            p['name'] = 'pth'
            if 'nic' in p:
                p['nic'] = 'pth_cfg'
        out.append(p)
    return out


_uid = [0]


def fresh_modname(rng=None):
    _uid[0] += 1
    import os
    return f'tcvp{os.getpid()}x{_uid[0]}.tcvm{_uid[0]}'


def gen_pipeline(rng, n_classes=None, alphabet=None, keys=None, kinds=None, by_name=0.3, optional=0.15, maxdepth=3,
                 modname=None, bases=0.0, avoid=()):
    """a DAG of task classes + one pipeline config file declaring all of them with values for their parameters"""
    n = n_classes or rng.randint(1, 6)
    classes, values = {}, {}
    used_slugs = set()
    for i in range(n):
        cid = f'K{i}'
        while True:
            name, group = rng.choice(NAMES), rng.choice(GROUPS)
            base, meta_group = 'Task', None
            if modname and rng.random() < bases:
                base = rng.choice(['ModuleTask', 'DoubleModuleTask'])
                group = ''
                if rng.random() < 0.4:
                    # a Meta.task_group on a module-grouped class: ignored by ModuleTask, the group of a DoubleModuleTask
                    meta_group = rng.choice(['shared', 'g', 'x:y'])
            slug = slug_of({'name': name, 'group': group, 'base': base, 'meta_group': meta_group}, modname)
            if slug not in used_slugs:
                used_slugs.add(slug); break
        params = gen_params(rng, rng.randint(0, 3), alphabet, keys)
        for p in params:
            nic = p.get('nic', p['name'])
            if p.get('dtype') == 'path':
                values[nic] = rng.choice([None, 'some/dir', gen_str(rng, [c for c in (alphabet or ALPH) if c != '\x00'], 8)])
            elif 'default' not in p or rng.random() < 0.6:
                values[nic] = gen_value(rng, 0, maxdepth, alphabet, keys)
            if 'default' in p and p.get('dpd') and rng.random() < 0.3:
                values[nic] = copy.deepcopy(p['default'])
        inputs, in_kinds = [], {}
        prev = list(classes)
        for ref in rng.sample(prev, min(len(prev), rng.choice([0, 1, 1, 2]))):
            rc = classes[ref]
            rslug = slug_of(rc, modname)
            i_ = {'by': 'class', 'ref': ref}
            if rng.random() < by_name:
                i_ = {'by': 'name', 'ref': rslug}
            if rng.random() < optional:
                i_['default'] = rng.choice([None, 0, 'dflt'])
            inputs.append(i_)
            in_kinds[rslug] = rc['kind']
        if rng.random() < optional / 2:
            inputs.append({'by': 'name', 'ref': 'absent_task', 'default': rng.choice([None, 7])})
        kind = rng.choice(kinds or [k for k in KINDS_P if k not in avoid])
        # run arguments: parameters by name; inputs by the name usable as identifier (last segment of slug)
        run_args, pull, shorts = [], [], []
        for i_ in inputs:
            rs = i_['ref'] if i_['by'] == 'name' else slug_of(classes[i_['ref']], modname)
            shorts.append(rs.split(':')[-1])
        for p in params:
            if rng.random() < 0.6:
                run_args.append(p['name'])
        for i_ in inputs:
            rslug = i_['ref'] if i_['by'] == 'name' else slug_of(classes[i_['ref']], modname)
            short = rslug.split(':')[-1]
            in_kinds[short] = in_kinds.get(rslug, 'json')
            r = rng.random()
            if r < 0.5 and short.isidentifier() and shorts.count(short) == 1 and short not in [p['name'] for p in params]:
                run_args.append(short)
            elif r < 0.8 and shorts.count(short) == 1:
                pull.append(rslug)
        classes[cid] = {'name': name, 'group': group, 'base': base, 'params': params, 'inputs': inputs, 'kind': kind,
                        'run_args': run_args, 'pull': pull, 'in_kinds': in_kinds}
        if meta_group:
            classes[cid]['meta_group'] = meta_group
    # sometimes the last class (nothing depends on it) yields an empty sequence: a legitimate, 0-byte stored result
    if kinds is None and rng.random() < 0.2:
        classes[f'K{n - 1}']['kind'] = 'genempty'
    pfile = {'tasks': list(classes)}
    pfile.update(values)
    return classes, pfile


def slug_of(c, modname=None):
    base = c.get('base', 'Task')
    if base == 'ModuleTask':
        group = modname.split('.')[-1]
    elif base == 'DoubleModuleTask':
        # MetaDoubleModuleTask.group: Meta.task_group wins over the module-derived group;
        # MetaModuleTask.group (above) ignores Meta.task_group
        group = c.get('meta_group') or ':'.join(modname.split('.')[-2:])
    else:
        group = c.get('group') or ''
    return (group + ':' if group else '') + c['name']


def add_placeholders(rng, v, names=('D', 'N'), p=0.3):
    """prefix some string leaves (not keys) with a placeholder"""
    if isinstance(v, str) and rng.random() < p:
        return '{' + rng.choice(list(names) + ['UNDEF']) + '}/' + v
    if isinstance(v, list):
        return [add_placeholders(rng, x, names, p) for x in v]
    if isinstance(v, dict):
        return {k: add_placeholders(rng, x, names, p) for k, x in v.items()}
    return v


def gen_key_spec(rng, modname=None, alphabet=None, keys=None, kinds=None, mode='param', bases=0.25, dotted=False):
    """one pipeline file mounted (or not) under a namespace by a main config; optional placeholders"""
    modname = modname or fresh_modname()
    classes, pfile = gen_pipeline(rng, alphabet=alphabet, keys=keys, kinds=kinds, modname=modname, bases=bases)
    ns = rng.choice([None, None, 'n', 'n::m', 'train', 'a::b::c'])
    gv = None
    if rng.random() < 0.3:
        gv = {'D': rng.choice(['/data', "q'uote", 'x y']), 'N': rng.choice([5, 1.5])}
        pfile = {k: (add_placeholders(rng, v) if k not in ('tasks',) else v) for k, v in pfile.items()}
    # config file names: plain, or with dots inside the stem (`baseline.v2.json`: the config NAME is `baseline.v2`, and in name mode
    # it is the storage key — `baseline.v1` and `baseline.v2` are different results)
    mainf, pf = 'main.json', 'p.json'
    if dotted and rng.random() < (0.6 if mode == 'name' else 0.25):
        mainf = rng.choice(['exp.2024.json', 'main.v2.json', 'run.1.0.json', 'a.b.json'])
        pf = rng.choice(['base.v1.json', 'base.v2.json', 'p.final.json', 'p.0.json'])
    if ns is None and rng.random() < 0.5:
        files = {mainf: pfile}
        declaring = mainf
    else:
        files = {pf: pfile, mainf: {'uses': [f'@cfg/{pf}' + (f' as {ns}' if ns else '')]}}
        declaring = pf
    return {'module': modname, 'classes': classes, 'files': files, 'main': mainf, 'global_vars': gv, 'mode': mode,
            'declaring_file': declaring}
