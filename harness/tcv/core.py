"""Core of the correspondence harness: run context, model driver, Lean build + audit, verdict, evidence.

Everything a registered check does goes through `run_check` (see /verif/check)."""
import fcntl
import hashlib
import json
import os
import random
import re
import shutil
import signal
import subprocess
import sys
import tempfile
import time
import traceback
from pathlib import Path

VERIF = Path(__file__).resolve().parents[2]
REPO = Path(os.environ.get('TCV_REPO', '/repo'))
LEAN = VERIF / 'lean'
DRIVER = LEAN / '.lake' / 'build' / 'bin' / 'tcvdriver'
PY = '/venv/bin/python'

ALLOWED_AXIOMS = {'propext', 'Classical.choice', 'Quot.sound'}
FORBIDDEN = re.compile(r'\b(sorry|admit|native_decide|bv_decide|implemented_by|unsafe|maxHeartbeats\s+0)\b|^\s*axiom\s', re.M)

TRUSTED_BASE = [
    'Lean 4.33.0 kernel (lake build re-checks every theorem on every run; thorough tier adds leanchecker)',
    'axioms of every property theorem are audited per run to be a subset of {propext, Classical.choice, Quot.sound}; no native_decide, no own axioms, no sorry',
    'Lean compiler/runtime for the native driver executable (tcvdriver) that evaluates the model definitions',
    'the correspondence harness (generators, canonicalisation, diff, shrinking) in /verif/harness',
    'CPython, and the third-party libraries taskchain calls, are parameters of the model, not verified',
]


class BrokenCheck(Exception):
    """harness/tool failure: exit 2, never a verdict"""


# ------------------------------------------------------------------------------------------- lean side

def _strip_comments(src: str) -> str:
    out, i, depth, n = [], 0, 0, len(src)
    while i < n:
        if src.startswith('/-', i):
            depth += 1; i += 2; continue
        if depth and src.startswith('-/', i):
            depth -= 1; i += 2; continue
        if depth:
            i += 1; continue
        if src.startswith('--', i):
            j = src.find('\n', i)
            i = n if j < 0 else j
            continue
        out.append(src[i]); i += 1
    return ''.join(out)


def lean_sources():
    files = sorted(p for p in LEAN.rglob('*.lean') if '.lake' not in p.parts)
    return files


def source_hash():
    h = hashlib.sha256()
    for p in lean_sources() + [LEAN / 'lakefile.toml']:
        h.update(str(p.relative_to(LEAN)).encode()); h.update(b'\0'); h.update(p.read_bytes()); h.update(b'\0')
    return h.hexdigest()


def theorem_table():
    """property id -> list of fully qualified theorem names (the proof obligations of that property)"""
    return json.loads((VERIF / 'theorems.json').read_text())


def lean_build_and_audit(log):
    """lake build (all proof obligations re-checked by the kernel), forbidden-token grep, axiom audit.
    Returns dict: ok(bool), detail(str), axioms{thm: [axioms]}.  Serialised by a file lock so that checks started
    together share one build.  The audit result is cached by the hash of all Lean sources (it does not depend on /repo)."""
    lock_path = LEAN / '.build.lock'
    with open(lock_path, 'w') as lk:
        fcntl.flock(lk, fcntl.LOCK_EX)
        sh = source_hash()
        cache_file = LEAN / '.lake' / 'audit_cache.json'
        if cache_file.exists() and DRIVER.exists():
            try:
                c = json.loads(cache_file.read_text())
                if c.get('source_hash') == sh and c.get('ok'):
                    # still run the (no-op) build so that a stale or missing .olean is rebuilt
                    r = subprocess.run(['lake', 'build'], cwd=LEAN, capture_output=True, text=True)
                    if r.returncode == 0:
                        return c
            except Exception:
                pass
        t0 = time.time()
        res = {'source_hash': sh, 'ok': False, 'detail': '', 'axioms': {}}
        # forbidden tokens
        bad = []
        for p in lean_sources():
            m = FORBIDDEN.search(_strip_comments(p.read_text()))
            if m:
                bad.append(f'{p.relative_to(LEAN)}: {m.group(0).strip()}')
        if bad:
            res['detail'] = 'forbidden token(s): ' + '; '.join(bad)
            return res
        r = subprocess.run(['lake', 'build'], cwd=LEAN, capture_output=True, text=True)
        if r.returncode != 0:
            res['detail'] = 'lake build failed:\n' + (r.stdout + r.stderr)[-4000:]
            return res
        table = theorem_table()
        names = sorted({n for ns in table.values() for n in ns})
        audit = LEAN / '.lake' / 'Audit.lean'
        audit.write_text('import TCV\n' + ''.join(f'#print axioms {n}\n' for n in names))
        r = subprocess.run(['lake', 'env', 'lean', str(audit)], cwd=LEAN, capture_output=True, text=True)
        out = r.stdout + r.stderr
        if r.returncode != 0:
            res['detail'] = 'axiom audit failed:\n' + out[-4000:]
            return res
        axioms = {}
        for m in re.finditer(r"'([^']+)' depends on axioms: \[([^\]]*)\]", out):
            axioms[m.group(1)] = [a.strip() for a in m.group(2).replace('\n', ' ').split(',') if a.strip()]
        for m in re.finditer(r"'([^']+)' does not depend on any axioms", out):
            axioms[m.group(1)] = []
        missing = [n for n in names if n not in axioms]
        if missing:
            res['detail'] = f'axiom audit: no report for {missing[:5]}'
            return res
        offenders = {n: a for n, a in axioms.items() if not set(a) <= ALLOWED_AXIOMS}
        if offenders:
            res['detail'] = f'axiom audit: non-standard axioms {offenders}'
            res['axioms'] = axioms
            return res
        res.update(ok=True, axioms=axioms, build_s=round(time.time() - t0, 1))
        cache_file.write_text(json.dumps(res))
        return res


def module_closure(root_module):
    """TCV modules a module imports, transitively (by reading the `import TCV.` lines)"""
    seen, todo = [], [root_module]
    while todo:
        m = todo.pop()
        if m in seen:
            continue
        seen.append(m)
        f = LEAN / (m.replace('.', '/') + '.lean')
        if f.exists():
            for line in f.read_text().splitlines():
                mm = re.match(r'import (TCV\.[\w.]+)', line.strip())
                if mm:
                    todo.append(mm.group(1))
    return sorted(seen)


def leanchecker(pid):
    """thorough tier: Lean's independent re-checker replays the compiled declarations of the property's theorem file and of
    every TCV module it imports.  Cached by source hash."""
    mods = sorted({m for f in (LEAN / 'TCV' / 'Props').glob(f'{pid}*.lean') for m in module_closure(f'TCV.Props.{f.stem}')})
    lock_path = LEAN / '.build.lock'
    with open(lock_path, 'w') as lk:
        fcntl.flock(lk, fcntl.LOCK_EX)
        sh = source_hash()
        cache_file = LEAN / '.lake' / 'leanchecker_cache.json'
        cache = {}
        if cache_file.exists():
            try:
                cache = json.loads(cache_file.read_text())
            except Exception:
                cache = {}
        if cache.get('source_hash') != sh:
            cache = {'source_hash': sh, 'ok_modules': []}
        todo = [m for m in mods if m not in cache['ok_modules']]
        if todo:
            r = subprocess.run(['lake', 'env', 'leanchecker'] + todo, cwd=LEAN, capture_output=True, text=True)
            if r.returncode != 0:
                return {'ok': False, 'detail': 'leanchecker failed:\n' + (r.stdout + r.stderr)[-2000:], 'modules': mods}
            cache['ok_modules'] = sorted(set(cache['ok_modules']) | set(todo))
            cache_file.write_text(json.dumps(cache))
        return {'ok': True, 'modules': mods}


class Model:
    """the compiled Lean model behind the JSON-lines protocol"""

    def __init__(self):
        if not DRIVER.exists():
            raise BrokenCheck(f'model driver missing: {DRIVER}')
        self.calls = 0

    def many(self, reqs):
        if not reqs:
            return []
        data = '\n'.join(json.dumps(r, ensure_ascii=False) for r in reqs) + '\n'
        r = subprocess.run([str(DRIVER)], input=data.encode('utf-8', 'surrogatepass'), capture_output=True)
        if r.returncode != 0:
            raise BrokenCheck(f'model driver exited {r.returncode}: {r.stderr[-2000:]!r}')
        lines = r.stdout.decode('utf-8').split('\n')
        if lines and lines[-1] == '':
            lines.pop()
        if len(lines) != len(reqs):
            raise BrokenCheck(f'model driver: {len(lines)} replies for {len(reqs)} requests')
        self.calls += len(reqs)
        return [json.loads(l) for l in lines]

    def one(self, req):
        return self.many([req])[0]


# ------------------------------------------------------------------------------------------- findings

def load_findings():
    p = VERIF / 'known_findings.json'
    if not p.exists():
        return []
    return json.loads(p.read_text())['findings']


# ------------------------------------------------------------------------------------------- run context

class SearchTimeout(Exception):
    pass


class Ctx:
    def __init__(self, pid, tier, seed, budget):
        self.pid, self.tier, self.seed, self.budget = pid, tier, seed, budget
        self.model = Model()
        self.counts = {}            # distribution counters
        self.samples = []
        self.evaluations = 0
        self.distinct = set()
        self.divergences = []       # (name, case, impl, model)
        self.failures = []          # (what, case, detail)   concrete failures of the property on the real code
        self.known_hits = {}        # finding id -> count
        self.assumptions = []
        self.notes = {}
        self._tmp = None
        self.thorough = tier == 'thorough'

    # sizes
    def n(self, quick, thorough):
        return max(1, int((thorough if self.thorough else quick) * self.budget))

    def rng(self, *salt):
        return random.Random(f'{self.seed}/{self.pid}/' + '/'.join(map(str, salt)))

    def tmpdir(self):
        if self._tmp is None:
            base = os.environ.get('TCV_TMP') or tempfile.gettempdir()
            self._tmp = Path(tempfile.mkdtemp(prefix=f'tcv-{self.pid}-', dir=base))
        return self._tmp

    def cleanup(self):
        if self._tmp is not None:
            shutil.rmtree(self._tmp, ignore_errors=True)

    def count(self, key, k=1):
        self.counts[key] = self.counts.get(key, 0) + k

    def case(self, case, nontrivial=True):
        """register one explored case (for coverage accounting)"""
        self.evaluations += 1
        if nontrivial:
            self.distinct.add(hashlib.sha256(json.dumps(case, sort_keys=True, default=str).encode()).hexdigest())
        if len(self.samples) < 3:
            self.samples.append(case)

    def diverge(self, name, case, impl, model):
        self.divergences.append({'correspondence': name, 'case': case, 'impl': impl, 'model': model})

    def fail(self, what, case, detail=None, known=None):
        """the real code breaks the property on this concrete input.  `known` = id of an open finding whose class
        predicate this input satisfies (decided by the caller with tcv.findings)."""
        if known is not None:
            self.known_hits[known] = self.known_hits.get(known, 0) + 1
            return
        self.failures.append({'what': what, 'case': case, 'detail': detail})


def write_replay(ctx, kind, payload):
    d = VERIF / 'replays'
    d.mkdir(exist_ok=True)
    p = d / f'{ctx.pid}-{ctx.tier}-{ctx.seed}-{kind}.json'
    payload = dict(payload)
    payload.update(property=ctx.pid, tier=ctx.tier, seed=ctx.seed,
                   rerun=f'VERIF_SEED={ctx.seed} ./check {ctx.pid} {ctx.tier}')
    p.write_text(json.dumps(payload, indent=1, default=str, ensure_ascii=False))
    return p


def run_check(pid, tier, module):
    """the registered entry point for one property"""
    t0 = time.time()
    seed = int(os.environ.get('VERIF_SEED', '0') or 0)
    budget = float(os.environ.get('VERIF_BUDGET', '1') or 1)
    log = lambda *a: print(*a, file=sys.stderr, flush=True)
    table = theorem_table()
    obligations = table.get(pid, [])
    if not obligations:
        print(f'BROKEN-CHECK: no theorems registered for {pid}')
        return 2
    lean = lean_build_and_audit(log)
    lc = None
    if tier == 'thorough' and lean['ok']:
        lc = leanchecker(pid)
        if not lc['ok']:
            lean = dict(lean, ok=False, detail=lc['detail'])
    ctx = Ctx(pid, tier, seed, budget)
    exit_code = 0
    lines = []
    try:
        try:
            module.run(ctx)
        except BrokenCheck:
            raise
        except Exception as e:  # noqa
            # an implementation that already disagreed with the model / failed the oracle may also break assumptions of the harness:
            # the verdict is then given on what was recorded before; without any recorded disagreement the check itself is broken
            if not (ctx.failures or ctx.divergences):
                raise
            ctx.notes['harness_aborted'] = f'{type(e).__name__}: {e}'[:300] + ' | ' + traceback.format_exc()[-600:]
        broken_obligation = None
        if not lean['ok']:
            broken_obligation = lean['detail']
        # ---- verdict
        findings = [f for f in load_findings() if pid in f['properties'] and f['status'] == 'open']
        for f in findings:
            hits = ctx.known_hits.get(f['id'], 0)
            if hits or f.get('always_report'):
                lines.append(f"KNOWN-FINDING: property={pid} {f['what']} [{f['id']}; {hits} case(s) this run]")
        violations = 0
        if ctx.failures:
            violations = len(ctx.failures)
            p = write_replay(ctx, 'failing-input', {'kind': 'failing input on the real code', 'failures': ctx.failures[:5],
                                                   'divergences': ctx.divergences[:3], 'lean': lean['detail']})
            lines.append(f'VIOLATION property={pid} replay={p}')
            exit_code = 1
        elif ctx.divergences or broken_obligation:
            # failing-input search: give the property's oracle a larger, targeted budget
            found = None
            if hasattr(module, 'search'):
                ctx2 = Ctx(pid, tier, seed + 1000003, budget * 10)
                ctx2._tmp = None
                # the search is bounded in time (quick: 5 min, thorough: 20 min); what it found until then counts
                limit = int(os.environ.get('VERIF_SEARCH_S', 1200 if tier == 'thorough' else 300))

                def _expired(signum, frame):
                    raise SearchTimeout()
                old = signal.signal(signal.SIGALRM, _expired)
                signal.alarm(limit)
                try:
                    module.search(ctx2, ctx.divergences)
                except SearchTimeout:
                    ctx.notes['search'] = f'failing-input search stopped after {limit} s'
                except BrokenCheck:
                    raise
                except Exception as e:  # noqa  (a broken implementation may break the harness during the search as well)
                    ctx.notes['search'] = f'failing-input search aborted: {type(e).__name__}: {e}'[:300]
                finally:
                    signal.alarm(0)
                    signal.signal(signal.SIGALRM, old)
                    if ctx2.failures:
                        found = ctx2.failures
                    ctx2.cleanup()
            violations = 1
            if found:
                p = write_replay(ctx, 'failing-input', {'kind': 'failing input on the real code (found by search after a broken tie)',
                                                       'failures': found[:5], 'divergences': ctx.divergences[:3],
                                                       'broken_obligation': broken_obligation})
                lines.append(f'VIOLATION property={pid} replay={p}')
            else:
                names = sorted({d['correspondence'] for d in ctx.divergences})
                p = write_replay(ctx, 'broken-tie', {
                    'kind': 'correspondence or proof obligation no longer checks; no failing input found',
                    'no_longer_checks': ([f'corr:{n}' for n in names] + ([f'lean: {broken_obligation}'] if broken_obligation else [])),
                    'theorems': obligations, 'divergences': ctx.divergences[:5]})
                lines.append(f'VIOLATION property={pid} replay={p} no-failing-input-found')
            exit_code = 1
        # ---- evidence
        discharged = len([n for n in obligations if set(lean['axioms'].get(n, ['?'])) <= ALLOWED_AXIOMS]) if lean['ok'] else 0
        cov = {
            'obligations': len(obligations), 'discharged': discharged,
            'checker_cmd': 'cd /verif/lean && lake build && lake env lean .lake/Audit.lean   # #print axioms for: ' + ', '.join(obligations),
            'trusted_base': TRUSTED_BASE + getattr(module, 'TRUSTED', []),
            'theorems': {n: lean['axioms'].get(n) for n in obligations},
            'evaluations': ctx.evaluations, 'distinct_nontrivial': len(ctx.distinct),
            'rule': getattr(module, 'RULE', ''),
            'samples': ctx.samples or [{'note': 'no case generated'}],
            'distribution': dict(sorted(ctx.counts.items())),
            'traces_validated_against_impl': ctx.evaluations,
            'disagreements_checked': len(ctx.divergences),
            'model_calls': ctx.model.calls,
            'known_finding_hits': ctx.known_hits,
            'leanchecker': (None if lc is None else {'ok': lc['ok'], 'modules_rechecked': lc['modules']}),
            'notes': ctx.notes,
        }
        ev = {'property_id': pid, 'tier': tier, 'seed': seed, 'level': 'proof', 'coverage': cov,
              'assumptions': getattr(module, 'ASSUMPTIONS', []) + ctx.assumptions,
              'wall_s': round(time.time() - t0, 2), 'violations': violations}
        # evidence describes a run against /repo itself; a mutation run (TCV_REPO = a scratch copy) must not overwrite it
        evdir = VERIF / 'evidence' if REPO == Path('/repo') else Path(tempfile.gettempdir()) / 'tcv-mutation-evidence'
        evdir.mkdir(exist_ok=True)
        (evdir / f'{pid}.json').write_text(json.dumps(ev, indent=1, default=str, ensure_ascii=False))
        if ctx.evaluations == 0:
            raise BrokenCheck('no case was evaluated')
        if hasattr(module, 'sanity') and exit_code == 0:
            # distribution sanity is judged only on runs without alarm (a broken implementation may itself collapse the distribution)
            module.sanity(ctx)
    except BrokenCheck as e:
        print(f'BROKEN-CHECK: {pid}: {e}')
        return 2
    except Exception:
        traceback.print_exc()
        print(f'BROKEN-CHECK: {pid}: harness exception')
        return 2
    finally:
        ctx.cleanup()
    for l in lines:
        print(l)
    print(f'{pid} {tier} seed={seed}: {ctx.evaluations} cases, {len(ctx.distinct)} distinct, '
          f'{len(ctx.divergences)} divergences, {len(ctx.failures)} failures, '
          f'{len(obligations)} theorems, {time.time() - t0:.1f}s -> exit {exit_code}')
    return exit_code
