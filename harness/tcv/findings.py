"""Class predicates of the open known findings (decidable, implemented independently of taskchain).
A failing input is attributed to a finding only if it satisfies that finding's predicate; anything else is a VIOLATION."""


def frozen_repr(v):
    """the frozen (release 1.4.0) text of a JSON-like value: strings quoted without escaping"""
    if isinstance(v, str):
        return "'" + v + "'"
    if isinstance(v, list):
        return '[' + ', '.join(frozen_repr(x) for x in v) + ']'
    if isinstance(v, dict):
        return '{' + ', '.join(f"{frozen_repr(k)}: {frozen_repr(x)}" for k, x in sorted(v.items())) + '}'
    return repr(v)


def frozen_registry(assignment, names):
    """registry text of parameters `names` (all persisted) under the frozen scheme"""
    return '###'.join(f'{n}={frozen_repr(assignment.get(n))}' for n in sorted(names))


def has_quote(v):
    if isinstance(v, str):
        return "'" in v or '\\' in v
    if isinstance(v, list):
        return any(has_quote(x) for x in v)
    if isinstance(v, dict):
        return any(has_quote(k) or has_quote(x) for k, x in v.items())
    return False


def k1(assign_a, assign_b, names):
    """K1: the two assignments have the same text under the frozen scheme (so the collision is inherent to the scheme)
    and at least one of them contains a quote or backslash in a string (the cause)."""
    return (has_quote(assign_a) or has_quote(assign_b)) and frozen_registry(assign_a, names) == frozen_registry(assign_b, names)


def k3(value, default):
    """K3: value == default in Python although they are different JSON values"""
    from tcv.gen import canon_json
    try:
        return value == default and canon_json(value) != canon_json(default)
    except Exception:
        return False
