"""one history segment in a fresh interpreter: stdin JSON {spec, variants, ops, root, data} -> stdout JSON (portable segment)"""
import json
import sys
from pathlib import Path


def main():
    job = json.load(sys.stdin)
    sys.path.insert(0, job['repo_src'])
    from tcv.quiet import quiet
    quiet()
    from tcv import machine
    hist = machine.run_history(job['spec'], job['variants'], job['ops'], Path(job['root']), data=Path(job['data']))
    seg = machine.portable(hist, job['spec'])
    seg['wiring'] = [r['wiring'] for r in hist['rec'] if r.get('wiring')]
    seg['errors'] = [r.get('error') for r in hist['rec'] if r.get('error')]
    seg['unexpected'] = [{'op': r['op'], 'exception': r['unexpected']} for r in hist['rec'] if r.get('unexpected') and not r['op'].get('failing')]
    seg['values'] = [{'op': r['op'], 'value': r.get('value'), 'expected': r.get('expected'), 'raised': r.get('raised', False),
                      'k3': machine.k3_in_closure(r['task'], job['spec']) if 'task' in r and r['op']['op'] == 'value' else False}
                     for r in hist['rec'] if r['op']['op'] == 'value' and not r.get('skipped')]
    sys.stdout.write('\n@@SEGMENT@@' + json.dumps(seg, default=str))


if __name__ == '__main__':
    main()
