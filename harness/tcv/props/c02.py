"""C02 — storage location depends only on what goes into the computation.

Metamorphic: a generated configuration and a computation-preserving rewriting of it (composed from: rename/move config files,
re-mount under another namespace path, permute tasks / uses / parameter declarations / input declarations / mapping keys at
any depth, add ignored or default-valued parameters, move values between config and context, change global_vars values, add an
absent optional input) must give every task the same location.  The same chain built in fresh interpreters with different
PYTHONHASHSEED must give identical paths.  Model side: literal keys of both configurations."""
import copy
import json
import os
import pathlib
import subprocess
import sys

from tcv import gen, pipeline as pl
from tcv.quiet import quiet
from tcv.props.c03 import model_keys

RULE = ('seeded (configuration, rewriting) pairs; rewritings are drawn and composed (1-4 per pair) from 8 computation-preserving '
        'families; compared: location of every task before/after (oracle, implementation) and literal keys implementation vs '
        'model for both; plus chains rebuilt in fresh interpreters with different PYTHONHASHSEED; '
        'distinct = distinct (spec, rewriting list); non-trivial = pipeline with at least 2 tasks and 1 persisted parameter')
ASSUMPTIONS = ['JSON-like and ReprStr parameter values; parameter objects in two dedicated streams: the K2 witness and generated AutoParameterObject '
               'subclasses (per-argument storage convention: public, `_private`, private plus derived property/attribute, IgnoreForPersistence, '
               'missing) compared with the Lean model TCV.AutoObj and rewritten (global_vars value, kwargs order, ignored argument)',
               'process independence is a runtime fact: established by correspondence across interpreters, the model being a function']
TRUSTED = ['modelled, not verified: sorted() on str, dict insertion order semantics of CPython']

RW = ['rename', 'mount', 'perm_tasks', 'perm_keys', 'perm_decl', 'add_ignored', 'add_default', 'to_context', 'gv', 'absent_optional']


def two_file(spec):
    """normal form: main.json uses p.json (with or without namespace)"""
    spec = copy.deepcopy(spec)
    if 'p.json' not in spec['files']:
        spec['files'] = {'p.json': spec['files']['main.json'], 'main.json': {'uses': ['@cfg/p.json']}}
    return spec


def pipeline_file(spec):
    return [k for k in spec['files'] if k != spec['main']][0]


def shuffle_keys(rng, v):
    if isinstance(v, dict):
        items = [(k, shuffle_keys(rng, x)) for k, x in v.items()]
        rng.shuffle(items)
        return dict(items)
    if isinstance(v, list):
        return [shuffle_keys(rng, x) for x in v]
    return v


def apply_rw(rng, spec, name):
    spec = copy.deepcopy(spec)
    pf = pipeline_file(spec)
    pdata = spec['files'][pf]
    main = spec['files'][spec['main']]
    if name == 'rename':
        new = rng.choice(['sub/q.json', 'renamed_pipeline.json', 'deep/er/dir/x.y.json', 'p2.yaml'])
        spec['files'][new] = spec['files'].pop(pf)
        main['uses'] = [u.replace('@cfg/' + pf, '@cfg/' + new) for u in main['uses']]
        if rng.random() < 0.5:
            newmain = rng.choice(['other_main.json', 'm/main2.json'])
            spec['files'][newmain] = spec['files'].pop(spec['main']); spec['main'] = newmain
    elif name == 'mount':
        ns = rng.choice([None, 'n', 'zz', 'train', 'n::m', 'a::b::c', 'up'])
        u = main['uses'][0].split(' as ')[0]
        main['uses'] = [u + (f' as {ns}' if ns else '')]
    elif name == 'perm_tasks':
        ts = list(pdata['tasks']); rng.shuffle(ts); pdata['tasks'] = ts
        items = list(pdata.items()); rng.shuffle(items)
        spec['files'][pf] = dict(items)
    elif name == 'perm_keys':
        spec['files'][pf] = {k: (shuffle_keys(rng, v) if k != 'tasks' else v) for k, v in pdata.items()}
        for c in spec['classes'].values():
            for p in c['params']:
                if 'default' in p:
                    p['default'] = shuffle_keys(rng, p['default'])
    elif name == 'perm_decl':
        for c in spec['classes'].values():
            rng.shuffle(c['params']); rng.shuffle(c['inputs'])
        spec['module'] = gen.fresh_modname()
    elif name == 'add_ignored':
        c = rng.choice(list(spec['classes'].values()))
        pname = 'zz_ign'
        if all(p['name'] != pname for p in c['params']):
            c['params'].insert(rng.randint(0, len(c['params'])), {'name': pname, 'ignore': True, 'default': 0})
            if rng.random() < 0.7:
                pdata[pname] = gen.gen_value(rng, 1, 3)
        spec['module'] = gen.fresh_modname()
    elif name == 'add_default':
        c = rng.choice(list(spec['classes'].values()))
        pname = f'aa_dflt{rng.randint(0, 10 ** 6)}'
        dv = rng.choice([None, 0, 'x', [1, 2], {'k': 'v'}, 1.5, True])
        if all(p['name'] != pname for p in c['params']) and pname not in pdata:
            if rng.random() < 0.25:
                # a `dtype=Path` parameter whose default is a Path object; the config may spell the default out as a string
                txt = rng.choice(['some/dir', '/abs/x', 'a', 'data/v1.0/in'])
                c['params'].insert(rng.randint(0, len(c['params'])), {'name': pname, 'default': {'$path': txt}, 'dpd': True, 'dtype': 'path'})
                if rng.random() < 0.6:
                    pdata[pname] = txt
            else:
                c['params'].insert(rng.randint(0, len(c['params'])), {'name': pname, 'default': dv, 'dpd': True})
                if rng.random() < 0.5:
                    pdata[pname] = copy.deepcopy(dv)
        spec['module'] = gen.fresh_modname()
    elif name == 'to_context':
        keys = [k for k in pdata if k != 'tasks']
        if keys:
            ctx = spec.get('context') or {}
            if not isinstance(ctx, dict):
                return spec
            ctx = copy.deepcopy(ctx)
            keys = [k for k in keys if k not in ctx]
            if not keys:
                return spec
            moved = rng.sample(keys, rng.randint(1, len(keys)))
            for k in moved:
                ctx[k] = pdata[k]
                if rng.random() < 0.5:
                    del pdata[k]
                else:
                    pdata[k] = gen.gen_value(rng, 2, 3)       # overridden by the context anyway
            spec['context'] = ctx
    elif name == 'gv':
        if spec.get('global_vars'):
            spec['global_vars'] = {k: rng.choice(['/other', 'v2', 77, "it's"]) for k in spec['global_vars']}
    elif name == 'absent_optional':
        c = rng.choice(list(spec['classes'].values()))
        if all(i.get('ref') != 'zz_absent' for i in c['inputs']):
            c['inputs'].append({'by': 'name', 'ref': 'zz_absent', 'default': rng.choice([None, 5])})
        spec['module'] = gen.fresh_modname()
    return spec


def build_desc(spec, root, tag):
    b = pl.materialize(spec, root / tag, modname=spec['module'])
    data = root / (tag + '_data')
    chain, err = pl.build(b, data)
    return b, chain, err, data


def by_slug(chain, data):
    out = {}
    for n, t in chain.tasks.items():
        out[t.slugname] = None if t.data_path is None else os.path.relpath(str(t.data_path), str(data))
    return out


HASHSEED_SCRIPT = r'''
import sys, json
sys.path.insert(0, %(harness)r); sys.path.insert(0, %(repo)r)
from tcv.quiet import quiet; quiet()
from tcv import pipeline as pl
spec = json.load(open(%(specfile)r))
b = pl.Built(%(root)r, spec['module'], spec)
chain, err = pl.build(b, %(data)r)
print(json.dumps({n: str(t.data_path) for n, t in chain.tasks.items()} if chain else {'error': err}))
'''


def run(ctx):
    quiet()
    from tcv.core import REPO, VERIF
    root = ctx.tmpdir()
    n = ctx.n(150, 2500)
    chains, metas = [], []
    for i in range(n):
        rng = ctx.rng('rw', i)
        base = two_file(gen.gen_key_spec(rng, alphabet=None if i % 3 == 0 else gen.SAFE, keys=gen.SAFE if i % 2 else None, bases=0.0))
        rws = [rng.choice(RW) for _ in range(rng.randint(1, 4))]
        new = base
        for r in rws:
            new = apply_rw(rng, new, r)
        if new.get('module') == base['module']:
            new['module'] = gen.fresh_modname()
        b1, c1, e1, d1 = build_desc(base, root, f'a{i}')
        b2, c2, e2, d2 = build_desc(new, root, f'b{i}')
        case = {'spec': base['module'], 'rewritings': rws, 'classes': len(base['classes'])}
        if e1 or e2:
            ctx.count(f'construction-error:{e1 or e2}')
            if bool(e1) != bool(e2):
                ctx.case(case)
                ctx.diverge('rewriting-changes-constructibility', {**case, 'base': base, 'new': new}, e1, e2)
            continue
        try:
            for ch in (c1, c2):
                for t in ch.tasks.values():
                    pl.model_params(t)
        except TypeError:
            ctx.count('outside-domain'); continue
        ctx.case(case, nontrivial=len(c1.tasks) >= 2)
        for r in rws:
            ctx.count(f'rw:{r}')
        l1, l2 = by_slug(c1, d1), by_slug(c2, d2)
        if l1 != l2:
            moved = sorted(s for s in l1 if l1.get(s) != l2.get(s))
            ctx.fail('a computation-preserving rewriting moved a storage location', {**case, 'base': base, 'new': new},
                     {'moved': moved[:4], 'before': [l1[s] for s in moved[:4]], 'after': [l2.get(s) for s in moved[:4]]})
        chains.extend([c1, c2]); metas.append((case, base, new))
        b1.cleanup_module(); b2.cleanup_module()
    keys, _ = model_keys(ctx, chains)
    for j, (case, base, new) in enumerate(metas):
        for ch, km in ((chains[2 * j], keys[2 * j]), (chains[2 * j + 1], keys[2 * j + 1])):
            impl = {nm: t.name_for_persistence for nm, t in ch.tasks.items()}
            if impl != {nm: km[nm] for nm in impl}:
                ctx.diverge('keys', case, impl, km); break
    # ---- fresh interpreters with different PYTHONHASHSEED
    m = ctx.n(3, 10)
    rng = ctx.rng('hashseed')
    spec = two_file(gen.gen_key_spec(rng, alphabet=gen.SAFE, keys=gen.SAFE))
    spec['module'] = 'tcvhs.tcvm'
    b = pl.materialize(spec, root / 'hs', modname=spec['module'])
    (root / 'hs_spec.json').write_text(json.dumps(spec))
    script = HASHSEED_SCRIPT % {'harness': str(VERIF / 'harness'), 'repo': str(REPO / 'src'), 'specfile': str(root / 'hs_spec.json'),
                                'root': str(root / 'hs'), 'data': str(root / 'hs_data')}
    procs = [subprocess.Popen([sys.executable, '-c', script], env={**os.environ, 'PYTHONHASHSEED': str(1 + 7919 * k)},
                              stdout=subprocess.PIPE, stderr=subprocess.PIPE, text=True) for k in range(m)]
    outs = []
    for p in procs:
        o, e = p.communicate(timeout=120)
        if p.returncode != 0:
            from tcv.core import BrokenCheck
            raise BrokenCheck('hashseed subprocess failed: ' + e[-500:])
        outs.append(json.loads(o.strip().split('\n')[-1]))
    ctx.case({'hashseed_interpreters': m, 'tasks': len(outs[0])}); ctx.count('interpreters', m)
    if any(o != outs[0] for o in outs):
        ctx.fail('storage locations differ between interpreters with different PYTHONHASHSEED', {'spec': spec}, outs[:3])
    # ---- K2 witness: mapping-key order inside an object argument
    k2_witness(ctx, root)
    # ---- parameter objects derived from AutoParameterObject
    auto_objects(ctx, root)
    config_object_probe(ctx, root)
    object_default_probe(ctx, root)
    nested_mount_probe(ctx, root)
    registry_reuse_probe(ctx, root)
    root_homonym_probe(ctx, root)
    path_spelling_probe(ctx, root)
    ambient_probe(ctx, root)
    class_history_probe(ctx, root)


K2_SRC = '''
class AutoObj(AutoParameterObject):
    def __init__(self, a=None, b=None):
        self.a = a; self.b = b
'''


def k2_witness(ctx, root):
    from taskchain import Config
    spec = {'classes': {'K0': {'name': 'o', 'group': '', 'params': [{'name': 'obj'}], 'inputs': [], 'kind': 'json', 'run_args': []}},
            'files': {}, 'main': None}
    modname = gen.fresh_modname()
    b = pl.materialize(spec, root / 'k2', modname=modname)
    f = (root / 'k2').joinpath(*modname.split('.')).with_suffix('.py')
    f.write_text(f.read_text() + K2_SRC)
    mod = b.module()
    cls = getattr(mod, pl.pyname('K0'))
    paths = []
    for arg in ({'x': 1, 'y': 2}, {'y': 2, 'x': 1}):
        ch = Config(root / 'k2d', name='c', data={'tasks': [cls], 'obj': {'class': f'{modname}.AutoObj', 'kwargs': {'a': arg}}}).chain()
        paths.append(ch.tasks['o'].data_path)
    ctx.case({'witness': 'K2'})
    if paths[0] != paths[1]:
        ctx.fail('K2 witness', {'witness': 'K2'}, known='K2')
    else:
        ctx.notes['K2'] = 'witness no longer moves: finding K2 appears repaired'
    # scalar-argument objects must be order independent (outside the K2 class)
    p2 = []
    for kw in ({'a': 1, 'b': 'x'}, {'b': 'x', 'a': 1}):
        ch = Config(root / 'k2d', name='c', data={'tasks': [cls], 'obj': {'class': f'{modname}.AutoObj', 'kwargs': kw}}).chain()
        p2.append(ch.tasks['o'].data_path)
    ctx.case({'object': 'scalar kwargs order'})
    if p2[0] != p2[1]:
        ctx.fail('kwargs order of a parameter object with scalar arguments moved the location', {'kwargs': ['a,b', 'b,a']}, [str(p) for p in p2])
    b.cleanup_module()


# ------------------------------------------------------------------------------------------- AutoParameterObject

AO_NAMES = ['root', 'a', 'b', 'size', 'opt', 'verbose', 'debug']
AO_SCALARS = [0, 1, -3, 2.5, True, None, 'x', '', "it's", 'a b', 'é']


def gen_auto_class(rng, k):
    """declaration of one AutoParameterObject subclass + its source; storage convention chosen per argument"""
    names = rng.sample(AO_NAMES, rng.randint(1, 4))
    args = []
    for n in names:
        a = {'name': n, 'how': rng.choice(['pub', 'pub', 'priv', 'priv', 'priv+prop', 'priv+attr', 'ign'] + (['missing'] if rng.random() < 0.25 else []))}
        if rng.random() < 0.5:
            a['default'] = rng.choice(AO_SCALARS)
        args.append(a)
    # arguments with a default come last in a Python signature
    args.sort(key=lambda a: 'default' in a)
    ignore = rng.choice([None, None, [names[0]], []])
    dpd = [a['name'] for a in args if 'default' in a and rng.random() < 0.4]
    cls = f'AO{k}'
    sig = ', '.join(a['name'] + (f"={a['default']!r}" if 'default' in a else '') for a in args)
    body, props = [], []
    for a in args:
        n = a['name']
        if a['how'] == 'pub':
            body.append(f'self.{n} = {n}')
        elif a['how'] == 'ign':
            body.append(f'self.{n} = _Ign({n})')
        elif a['how'] == 'missing':
            body.append(f'self.{n}_renamed = {n}')
        else:
            body.append(f'self._{n} = {n}')
            if a['how'] == 'priv+attr':
                body.append(f'self.{n} = _derive({n})')
            elif a['how'] == 'priv+prop':
                props.append(f'    @property\n    def {n}(self):\n        return _derive(self._{n})\n')
    src = [f'class {cls}(AutoParameterObject):', f'    def __init__(self, {sig}):'] + ['        ' + b for b in body] + props
    if ignore is not None:
        src.append(f'    @staticmethod\n    def ignore_persistence_args():\n        return {ignore!r}\n')
    if dpd:
        src.append(f'    @staticmethod\n    def dont_persist_default_value_args():\n        return {dpd!r}\n')
    return {'cls': cls, 'args': args, 'ignore': ['verbose', 'debug'] if ignore is None else ignore, 'dpd': dpd}, '\n'.join(src) + '\n'


AO_PRELUDE = '''
from pathlib import Path as _P
from taskchain.parameter import IgnoreForPersistence as _IFP


class _Ign(_IFP):
    def __init__(self, v):
        self.v = v


def _derive(v):
    # what a convenience accessor typically returns: something computed from the raw argument
    return _P(v) if isinstance(v, str) else [v, 'derived']
'''


def auto_objects(ctx, root):
    from pathlib import PurePath
    from taskchain import Config
    from taskchain.parameter import IgnoreForPersistence
    n = ctx.n(60, 800)
    spec = {'classes': {'K0': {'name': 'o', 'group': '', 'params': [{'name': 'obj'}], 'inputs': [], 'kind': 'json', 'run_args': []}},
            'files': {}, 'main': None}
    modname = gen.fresh_modname()
    b = pl.materialize(spec, root / 'ao', modname=modname)
    decls, src = [], [AO_PRELUDE]
    for k in range(n):
        d, s_ = gen_auto_class(ctx.rng('ao-class', k), k)
        decls.append(d); src.append(s_)
    f = (root / 'ao').joinpath(*modname.split('.')).with_suffix('.py')
    f.write_text(f.read_text() + '\n'.join(src))
    mod = b.module()
    task_cls = getattr(mod, pl.pyname('K0'))

    def enc(x):
        if isinstance(x, IgnoreForPersistence):
            return 'ignored'
        if isinstance(x, PurePath):
            return {'o': repr(x)}
        if isinstance(x, list):
            return {'l': [enc(y) for y in x]}
        return pl.to_model(x)

    def build(d, kwargs, gv, order=None, nest=None):
        kw = {k_: kwargs[k_] for k_ in (order or list(kwargs))}
        defn = {'class': f'{modname}.{d["cls"]}', 'kwargs': kw}
        # the object is the parameter value itself, or sits inside a list- / dict-valued parameter
        val = {None: defn, 'list': [defn, 1], 'dict': {'k': defn, 'n': [defn]}}[nest]
        ch = Config(root / 'aod', name='c', data={'tasks': [task_cls], 'obj': val}, global_vars={'D': gv}).chain()
        t = ch.tasks['o']
        o = t.params['obj']
        return t, {None: lambda: o, 'list': lambda: o[0], 'dict': lambda: o['k']}[nest]()
    reqs, metas = [], []
    for k, d in enumerate(decls):
        rng = ctx.rng('ao-val', k)
        in_dpd_or_ign = set(d['dpd']) | set(d['ignore'])
        kwargs = {}
        for a in d['args']:
            if 'default' in a and rng.random() < 0.4:
                continue
            r = rng.random()
            if 'default' in a and a['name'] in d['dpd'] and r < 0.4:
                v = a['default']
            elif r < 0.35 and a['name'] not in d['dpd']:
                v = rng.choice(['{D}/corpus', 'pre{D}', '{D}'])
            elif r < 0.5:
                v = [rng.choice(AO_SCALARS) for _ in range(rng.randint(0, 3))]
            else:
                v = rng.choice(AO_SCALARS)
            kwargs[a['name']] = v
        case = {'decl': d, 'kwargs': kwargs}
        nest = rng.choice([None, None, 'list', 'dict'])
        case['nested_in'] = nest
        try:
            t1, o1 = build(d, kwargs, '/srv/data', nest=nest)
            impl = {'repr': o1.repr()}
        except AttributeError:
            impl = {'error': 'AttributeError'}
            # an object whose text cannot be derived has no location either: the key is refused, not taken from some other text of the object
            # (its definition, whose kwargs order would then matter)
            try:
                t_bad, _ = build(d, kwargs, '/srv/data', nest=nest)
                k_bad = t_bad.name_for_persistence
                ctx.fail('a parameter object whose representation cannot be derived was given a storage key all the same', case, {'key': k_bad})
            except AttributeError:
                pass
            t1 = o1 = None
        ctx.case(case, nontrivial=len(d['args']) >= 2)
        ctx.count('auto-object:' + ('repr' if 'repr' in impl else 'attribute-error'))
        for a in d['args']:
            ctx.count(f"auto-arg:{a['how']}")
        if o1 is None:
            # the instance exists even if repr() fails: rebuild it directly for the model's view
            inst = getattr(mod, d['cls'])(**{k_: v for k_, v in kwargs.items()})
        else:
            inst = o1
        attrs = []
        for a in d['args']:
            for nme in ('_' + a['name'], a['name']):
                if hasattr(inst, nme):
                    attrs.append([nme, enc(getattr(inst, nme))])
        req = {'m': 'autoobj', 'decl': {'cls': d['cls'], 'args': [{'name': a['name'], **({'default': pl.to_model(a['default'])} if 'default' in a else {})} for a in d['args']],
                                       'ignore': d['ignore'], 'dpd': d['dpd']}, 'attrs': attrs}
        req['np'] = sorted(pl.nonprintable(req))
        reqs.append(req); metas.append((case, impl))
        if t1 is None:
            continue
        # ---- oracle: computation-preserving rewritings of the object definition keep the location
        loc = t1.data_path
        ctx.count(f'auto-object:nested-in-{nest}')
        rewrites = {'global_vars value': lambda: build(d, kwargs, '/home/me/mnt', nest=nest),
                    'kwargs order': lambda: build(d, kwargs, '/srv/data', order=list(reversed(list(kwargs))), nest=nest)}
        ign = [a['name'] for a in d['args'] if a['name'] in d['ignore']]
        if ign:
            kw2 = {**kwargs, ign[0]: 'changed-ignored-argument'}
            rewrites['value of an ignored argument'] = lambda: build(d, kw2, '/srv/data', nest=nest)
        for what, fn in rewrites.items():
            t2, _ = fn()
            ctx.count(f'auto-rw:{what}')
            if t2.data_path != loc:
                ctx.fail('a computation-preserving rewriting of a parameter object moved a storage location', {**case, 'rewriting': what},
                         {'before': str(loc), 'after': str(t2.data_path), 'repr_before': t1.params.repr, 'repr_after': t2.params.repr})
    for (case, impl), mo in zip(metas, ctx.model.many(reqs)):
        if impl != mo:
            ctx.diverge('auto-parameter-object:repr', case, impl, mo)
    b.cleanup_module()


OBJDEF_SRC = '''
class Plain(AutoParameterObject):
    def __init__(self, a=None, b=None):
        self.a = a; self.b = b


class NoEq:
    """a default that is an arbitrary object (identity equality only)"""
    def __repr__(self):
        return 'NoEq()'


class WithObj(Task):
    class Meta:
        name = 'withobj'
        parameters = [Parameter('x'), Parameter('o', default=Plain(1, [2]), dont_persist_default_value=True),
                      Parameter('q', default=NoEq(), dont_persist_default_value=True)]

    def run(self, x) -> dict:
        return {'x': x}


class Without(Task):
    class Meta:
        name = 'withobj'
        parameters = [Parameter('x')]

    def run(self, x) -> dict:
        return {'x': x}
'''


def object_default_probe(ctx, root):
    """a parameter added with `dont_persist_default_value=True` and left at its default does not move the location — also when the default
    is an OBJECT (a parameter object, or any object without value equality): the task with such parameters, not mentioned in the config, is
    stored where the task without them is"""
    from taskchain import Config
    spec = {'classes': {'K0': {'name': 'o', 'group': '', 'params': [], 'inputs': [], 'kind': 'json', 'run_args': []}}, 'files': {}, 'main': None}
    modname = gen.fresh_modname()
    b = pl.materialize(spec, root / 'od', modname=modname)
    f = (root / 'od').joinpath(*modname.split('.')).with_suffix('.py')
    f.write_text(f.read_text() + OBJDEF_SRC)
    mod = b.module()
    for k in range(ctx.n(4, 30)):
        rng = ctx.rng('object-default', k)
        x = gen.gen_value(rng, 0, 2, gen.SAFE, gen.SAFE)
        ns = rng.choice([None, 'n'])
        case = {'probe': 'object default with dont_persist_default_value', 'x': x, 'namespace': ns}
        ctx.case(case); ctx.count('object-default-probe')
        paths = []
        for cls in (mod.Without, mod.WithObj, mod.WithObj):
            ch = Config(root / 'odd', name='c', namespace=ns, data={'tasks': [cls], 'x': x}).chain()
            t = ch.tasks[(ns + '::' if ns else '') + 'withobj']
            paths.append(str(t.data_path))
        if len(set(paths)) != 1:
            ctx.fail('a parameter declared dont_persist_default_value and left at its (object) default moved the storage location', case,
                     {'without_the_parameters': paths[0], 'with_them': paths[1:]})
    b.cleanup_module()


def nested_mount_probe(ctx, root):
    """the location does not depend on the namespace a pipeline is mounted under — also when the pipeline has inner namespaces of its own and
    the outer name overlaps textually with an inner one (`rawdata` inside, mounted `as data`; `xn` inside, mounted `as n`; equal names)"""
    for k in range(ctx.n(8, 60)):
        rng = ctx.rng('nested-mount', k)
        inner = rng.choice(['xn', 'rawdata', 'a::b', 'n', 'data'])
        outers = [None] + rng.sample(['n', 'data', 'b', 'xn', 'a', 'rawdata', 'ta', 'a::b', 'b::a', 'zz'], 4)
        x = gen.gen_value(rng, 0, 2, gen.SAFE, gen.SAFE)
        grp = rng.choice(['', 'g'])
        up = (grp + ':' if grp else '') + 'up'
        spec = {'classes': {'K0': {'name': 'up', 'group': grp, 'params': [{'name': 'x'}], 'inputs': [], 'kind': 'json', 'run_args': ['x']},
                            'K1': {'name': 'down', 'group': '', 'params': [{'name': 'y', 'default': 1}],
                                   'inputs': [{'by': 'name', 'ref': f'{inner}::{up}'}], 'kind': 'json', 'run_args': ['y'], 'pull': [f'{inner}::{up}'],
                                   'in_kinds': {f'{inner}::{up}': 'json'}}},
                'files': {'q.json': {'tasks': ['K0'], 'x': x}, 'p.json': {'tasks': ['K1'], 'uses': [f'@cfg/q.json as {inner}']}}, 'main': None,
                'module': gen.fresh_modname()}
        for j, o in enumerate(outers):
            spec['files'][f'main{j}.json'] = {'uses': ['@cfg/p.json' + (f' as {o}' if o else '')]}
        b = pl.materialize(spec, root / f'nmount{k}', modname=spec['module'])
        b.module()
        case = {'probe': 'nested mount', 'inner_namespace': inner, 'outer_namespaces': outers, 'x': x}
        ctx.case(case); ctx.count('nested-mount-probe')
        locs = {}
        for j, o in enumerate(outers):
            chain, err = pl.build(b, root / f'nmount{k}' / 'data', main=f'main{j}.json')
            if err:
                # finding K8: the reference `inner::up`, declared inside the outer namespace, starts with `<outer>::`
                k8 = o is not None and (inner + '::').startswith(o + '::')
                ctx.fail('a pipeline with an inner namespace cannot be mounted under an outer namespace', case, {'outer': o, 'error': err},
                         known='K8' if k8 else None)
                if k8:
                    continue
                break
            for n, t in chain.tasks.items():
                locs.setdefault(t.slugname, {})[str(o)] = os.path.relpath(str(t.data_path), str(root / f'nmount{k}' / 'data'))
        moved = {sl: v for sl, v in locs.items() if len(set(v.values())) > 1}
        if moved:
            ctx.fail('mounting a pipeline under another namespace moved a storage location', case, moved)
        b.cleanup_module()


def registry_reuse_probe(ctx, root):
    """a parameter registry (or a task's `parameters`) that is given the values of another config after its representation or location was
    looked at once — `set_values` is public API, tests/test_parameter.py uses registries this way — describes the CURRENT values: it has the
    representation, and the task the location, of a fresh instance with those values"""
    from taskchain import Config
    from taskchain.parameter import Parameter, ParameterRegistry
    for k in range(ctx.n(10, 80)):
        rng = ctx.rng('registry-reuse', k)
        v1 = {'a': gen.gen_value(rng, 0, 2, gen.SAFE, gen.SAFE), 'b': gen.gen_value(rng, 0, 2, gen.SAFE, gen.SAFE)}
        v2 = {'a': gen.gen_value(rng, 0, 2, gen.SAFE, gen.SAFE), 'b': rng.choice([v1['b'], gen.gen_value(rng, 0, 1, gen.SAFE, gen.SAFE)])}
        mk = lambda: ParameterRegistry([Parameter('a'), Parameter('b', default=0, dont_persist_default_value=bool(k % 2))])      # noqa
        looks = [rng.random() < 0.7 for _ in range(3)]
        case = {'probe': 'registry given values twice', 'first': v1, 'second': v2, 'looked_at_in_between': looks}
        ctx.case(case); ctx.count('registry-reuse-probe')
        reg = mk()
        seq = [v1, v2, v1] if k % 3 == 0 else [v1, v2]
        for j, vals in enumerate(seq):
            reg.set_values(Config(root / 'rr', name=f'c{j}', data=dict(vals)))
            fresh = mk(); fresh.set_values(Config(root / 'rr', name='f', data=dict(vals)))
            if looks[j] or j == len(seq) - 1:
                if reg.repr != fresh.repr:
                    ctx.fail('a parameter registry given new values keeps describing earlier ones: equal persisted values, different representation',
                             case, {'step': j, 'reused': reg.repr, 'fresh': fresh.repr})
                    break
    # the same on a task of a chain: location after `task.parameters.set_values(other config)`
    spec = {'classes': {'K0': {'name': 'o', 'group': '', 'params': [{'name': 'a'}, {'name': 'b', 'default': 0}], 'inputs': [], 'kind': 'json', 'run_args': []}},
            'files': {}, 'main': None}
    b = pl.materialize(spec, root / 'rrt', modname=gen.fresh_modname())
    cls = getattr(b.module(), pl.pyname('K0'))
    for k in range(ctx.n(6, 40)):
        rng = ctx.rng('task-reuse', k)
        v1 = {'a': gen.gen_value(rng, 0, 2, gen.SAFE, gen.SAFE), 'b': 1}
        v2 = {'a': gen.gen_value(rng, 0, 2, gen.SAFE, gen.SAFE), 'b': 2}
        case = {'probe': 'task given values twice', 'first': v1, 'second': v2}
        ctx.case(case); ctx.count('registry-reuse-probe:task')
        t = Config(root / 'rrd', name='c1', data={'tasks': [cls], **v1}).chain().tasks['o']
        if k % 4 != 3:
            _ = t.data_path
        t.parameters.set_values(Config(root / 'rrd', name='c2', data=dict(v2)))
        ref = Config(root / 'rrd', name='c2', data={'tasks': [cls], **v2}).chain().tasks['o']
        if t.params.repr != ref.params.repr:
            ctx.fail('a task given new parameter values keeps the representation of the earlier ones', case, {'reused': t.params.repr, 'fresh': ref.params.repr})
    b.cleanup_module()


def root_homonym_probe(ctx, root):
    """the location of a mounted pipeline's task does not depend on what ELSE the chain holds: an optional by-name input the pipeline does not
    provide stays absent (default) — and the key unchanged — when the root of the chain, or a sibling namespace, has a task of that name"""
    for k in range(ctx.n(6, 40)):
        rng = ctx.rng('root-homonym', k)
        ns = rng.choice(['n', 'm::k'])
        spec = {'classes': {'K0': {'name': 'ext', 'group': '', 'params': [{'name': 'e', 'default': 1}], 'inputs': [], 'kind': 'json', 'run_args': []},
                            'K1': {'name': 'down', 'group': '', 'params': [{'name': 'y', 'default': 1}], 'inputs': [{'by': 'name', 'ref': 'ext', 'default': 5}],
                                   'kind': 'json', 'run_args': ['y'], 'pull': ['ext'], 'in_kinds': {'ext': 'json'}}},
                'files': {'p.json': {'tasks': ['K1']}, 'e.json': {'tasks': ['K0']},
                          'main_alone.json': {'uses': [f'@cfg/p.json as {ns}']},
                          'main_root.json': {'uses': [f'@cfg/p.json as {ns}'], 'tasks': ['K0']},
                          'main_sibling.json': {'uses': [f'@cfg/p.json as {ns}', '@cfg/e.json as other']}},
                'main': 'main_alone.json', 'module': gen.fresh_modname()}
        b = pl.materialize(spec, root / f'rh{k}', modname=spec['module'])
        b.module()
        case = {'probe': 'task of the same name at the root / in a sibling namespace', 'namespace': ns}
        ctx.case(case); ctx.count('root-homonym-probe')
        locs = {}
        for main in ('main_alone.json', 'main_root.json', 'main_sibling.json'):
            chain, err = pl.build(b, root / f'rh{k}' / 'data', main=main)
            if err:
                ctx.fail('a chain with a task named like an absent optional input of a mounted pipeline cannot be built', case, {'main': main, 'error': err}); break
            t = chain.tasks[f'{ns}::down']
            locs[main] = (os.path.relpath(str(t.data_path), str(root / f'rh{k}' / 'data')), sorted(k_ for k_, v in t.input_tasks.items() if hasattr(v, 'fullname')))
        if len({v[0] for v in locs.values()}) > 1 or any(v[1] for v in locs.values()):
            ctx.fail('a task of the same name elsewhere in the chain changed the inputs or the location of a mounted task', case, locs)
        b.cleanup_module()


def path_spelling_probe(ctx, root):
    """the location does not depend on HOW the path of a config file is written, nor on the process's working directory: absolute, relative
    to the current directory, with `./` and `dir/../dir` segments, with a trailing-slash base directory, through a symbolic link to the
    directory — one computation, one location (parameter mode); in name mode the config NAME (file stem) decides, the same for all spellings"""
    from taskchain import Config
    for k in range(ctx.n(4, 24)):
        rng = ctx.rng('path-spelling', k)
        x = gen.gen_value(rng, 0, 2, gen.SAFE, gen.SAFE)
        spec = {'classes': {'K0': {'name': 'up', 'group': '', 'params': [{'name': 'x'}], 'inputs': [], 'kind': 'json', 'run_args': ['x']},
                            'K1': {'name': 'down', 'group': 'g', 'params': [], 'inputs': [{'by': 'class', 'ref': 'K0'}], 'kind': 'json', 'run_args': [],
                                   'pull': [], 'in_kinds': {}}},
                'files': {'sub/p.json': {'tasks': ['K0', 'K1'], 'x': x}, 'main.json': {'uses': ['@cfg/sub/p.json as n']}}, 'main': 'main.json',
                'module': gen.fresh_modname()}
        b = pl.materialize(spec, root / f'ps{k}', modname=spec['module'])
        b.module()
        main = b.path('main.json')
        cfgdir = main.parent
        link = root / f'ps{k}' / 'link-to-cfg'
        if not link.exists():
            link.symlink_to(cfgdir, target_is_directory=True)
        data = root / f'ps{k}' / 'data'
        pmode = bool(k % 3)
        case = {'probe': 'path spelling and working directory', 'x': x, 'parameter_mode': pmode}
        ctx.case(case); ctx.count('path-spelling-probe')
        spellings = {
            'absolute': (None, str(main), str(data)),
            'relative to cwd': (str(cfgdir), 'main.json', str(data)),
            'dot segments': (None, str(cfgdir / '.' / 'sub' / '..' / 'main.json'), str(data) + '/'),
            'relative from parent': (str(cfgdir.parent), str(pathlib.Path(cfgdir.name) / 'main.json'), str(data)),
            'through a symlink': (None, str(link / 'main.json'), str(data)),
        }
        locs = {}
        old_cwd = os.getcwd()
        for how, (cwd, path, dd) in spellings.items():
            try:
                if cwd:
                    os.chdir(cwd)
                chain = Config(dd, path).chain(parameter_mode=pmode)
                locs[how] = {n: os.path.relpath(os.path.realpath(str(t.data_path)), os.path.realpath(str(data))) for n, t in chain.tasks.items()}
            except Exception as e:      # noqa
                locs[how] = {'error': f'{type(e).__name__}: {e}'[:120]}
            finally:
                os.chdir(old_cwd)
        if len({json.dumps(v, sort_keys=True) for v in locs.values()}) > 1:
            ctx.fail('the spelling of a config path or the working directory changed a storage location', case, locs)
        b.cleanup_module()


def ambient_probe(ctx, root):
    """the location does not depend on the environment of the process: `HOME` (a `dtype=Path` value written `~/data`), the working directory
    (a relative `Path` value; a relative DATA directory resolves against the working directory — not against the place of the config
    file, so a copied or moved config file stores where the original did)"""
    import shutil
    from taskchain import Config
    spec = {'classes': {'K0': {'name': 'o', 'group': '', 'params': [{'name': 'pth', 'dtype': 'path'}, {'name': 'x', 'default': 1}], 'inputs': [], 'kind': 'json',
                               'run_args': []}},
            'files': {'a/main.json': {'tasks': ['K0'], 'pth': '~/data/corpus'}, 'rel.json': {'tasks': ['K0'], 'pth': 'inputs/raw'}}, 'main': 'a/main.json',
            'module': gen.fresh_modname()}
    b = pl.materialize(spec, root / 'amb', modname=spec['module'])
    b.module()
    main = b.path('a/main.json')
    copy = main.parent.parent / 'b' / 'main.json'
    copy.parent.mkdir(exist_ok=True)
    shutil.copy(main, copy)
    work = root / 'amb' / 'work'
    other = root / 'amb' / 'elsewhere'
    for d_ in (work, other, work / 'inputs' / 'raw'):
        d_.mkdir(parents=True, exist_ok=True)
    old_home, old_cwd = os.environ.get('HOME'), os.getcwd()
    case = {'probe': 'HOME / working directory / place of the config file'}
    ctx.case(case, nontrivial=True); ctx.count('ambient-probe')
    try:
        keys = {}
        for home in ('/home/alice', '/srv/bob'):
            os.environ['HOME'] = home
            keys[home] = Config(root / 'amb' / 'data', str(main)).chain().tasks['o'].name_for_persistence
        if len(set(keys.values())) > 1:
            ctx.fail('the key of a task depends on the HOME of the process', case, keys)
        keys = {}
        for cwd in (work, other):
            os.chdir(cwd)
            keys[str(cwd.name)] = Config(root / 'amb' / 'data', str(b.path('rel.json'))).chain().tasks['o'].name_for_persistence
        if len(set(keys.values())) > 1:
            ctx.fail('the key of a task with a relative path value depends on the working directory', case, keys)
        os.chdir(work)
        locs = {}
        for how, path in (('original', main), ('copy elsewhere', copy)):
            t = Config(pathlib.Path('store'), str(path)).chain().tasks['o']
            locs[how] = os.path.realpath(str(t.data_path))
        if len(set(locs.values())) > 1 or not all(v.startswith(os.path.realpath(str(work / 'store'))) for v in locs.values()):
            ctx.fail('a relative data directory is not resolved against the working directory (a copied config file stores elsewhere)', case, locs)
    finally:
        os.chdir(old_cwd)
        if old_home is None:
            os.environ.pop('HOME', None)
        else:
            os.environ['HOME'] = old_home
    b.cleanup_module()


def class_history_probe(ctx, root):
    """the location does not depend on what the process did before: a parameter object of a SUBCLASS has the same text whether or not an
    object of its parent class was used earlier in the process"""
    from taskchain import Config
    from taskchain.parameter import AutoParameterObject
    spec = {'classes': {'K0': {'name': 'o', 'group': '', 'params': [{'name': 'obj'}], 'inputs': [], 'kind': 'json', 'run_args': []}}, 'files': {}, 'main': None}
    b = pl.materialize(spec, root / 'clshist', modname=gen.fresh_modname())
    cls = getattr(b.module(), pl.pyname('K0'))

    def classes():
        class Base(AutoParameterObject):
            def __init__(self, scale=1):
                self.scale = scale

        class Extended(Base):
            def __init__(self, scale=1, extra=0):
                super().__init__(scale)
                self.extra = extra
        return Base, Extended

    def key_of(o):
        return Config(root / 'clshistd', name='c', data={'tasks': [cls], 'obj': o}).chain().tasks['o'].name_for_persistence
    keys = {}
    for order in ('subclass first', 'parent first', 'parent first, twice'):
        Base, Extended = classes()
        if order != 'subclass first':
            for _ in range(2 if 'twice' in order else 1):
                _ = key_of(Base(7))
        keys[order] = key_of(Extended(2, extra=5))
    case = {'probe': 'parameter object of a subclass, with and without earlier use of the parent class'}
    ctx.case(case); ctx.count('class-history-probe')
    if len(set(keys.values())) > 1:
        ctx.fail('the location of a task depends on which parameter-object classes the process used before', case, keys)
    b.cleanup_module()


def config_object_probe(ctx, root):
    """the location does not depend on HOW the pipeline config reaches the chain — as a file path in `uses` or as a prepared Config object
    in `uses` (which the chain prepares a second time) — nor on the values substituted for placeholders, also for strings that mix a
    defined placeholder with one left for the task (`{D}/model_{epoch}.pt`)"""
    import json as _json
    from taskchain import Config
    spec = {'classes': {'K0': {'name': 'o', 'group': '', 'params': [{'name': 's'}, {'name': 'l', 'default': None}], 'inputs': [], 'kind': 'json', 'run_args': []},
                        'K1': {'name': 'd', 'group': '', 'params': [], 'inputs': [{'by': 'class', 'ref': 'K0'}], 'kind': 'json', 'run_args': [],
                               'pull': [], 'in_kinds': {}}},
            'files': {}, 'main': None}
    b = pl.materialize(spec, root / 'cop', modname=gen.fresh_modname())
    mod = b.module()
    tasks = [f'{b.modname}.{pl.pyname("K0")}', f'{b.modname}.{pl.pyname("K1")}']
    for k in range(ctx.n(12, 80)):
        rng = ctx.rng('config-object', k)
        sval = rng.choice(['{D}/model_{epoch}.pt', '{D}/x', 'pre{D}{E}', '{undefined}/{D}', 'plain', "{D}'q"])
        lval = rng.choice([None, ['{D}', {'k': '{D}/{n}'}]])
        d = root / f'cop{k}'
        d.mkdir(parents=True, exist_ok=True)
        pdata = {'tasks': tasks, 's': sval}
        if lval is not None:
            pdata['l'] = lval
        (d / 'p.json').write_text(_json.dumps(pdata))
        (d / 'main.json').write_text(_json.dumps({'uses': [str(d / 'p.json')]}))
        ns = rng.choice([None, 'n'])
        case = {'probe': 'Config object in uses', 's': sval, 'l': lval, 'namespace': ns}
        ctx.case(case); ctx.count('config-object-probe')
        locs = {}
        for how in ('file', 'object'):
            for gv in ({'D': '/srv/a', 'E': 1}, {'D': '/mnt/b', 'E': 'two'}):
                try:
                    if how == 'file':
                        (d / 'main.json').write_text(_json.dumps({'uses': [str(d / 'p.json') + (f' as {ns}' if ns else '')]}))
                        ch = Config(d / 'data', str(d / 'main.json'), global_vars=gv).chain()
                    else:
                        used = Config(d / 'data', str(d / 'p.json'), global_vars=gv, namespace=ns)
                        ch = Config(d / 'data', name='main', data={'uses': [used]}, global_vars=gv).chain()
                    locs[(how, gv['D'])] = {t.slugname: str(t.data_path) for t in ch.tasks.values()}
                except Exception as e:      # noqa
                    locs[(how, gv['D'])] = f'{type(e).__name__}: {e}'[:120]
        if len({_json.dumps(v, sort_keys=True) for v in locs.values()}) != 1:
            ctx.fail('the storage location depends on how the pipeline config is handed to the chain or on the values of global_vars', case,
                     {f'{h}/{g}': v for (h, g), v in locs.items()})
    b.cleanup_module()


def search(ctx, divergences):
    run(ctx)


def sanity(ctx):
    from tcv.core import BrokenCheck
    c = ctx.counts
    if sum(1 for r in RW if c.get(f'rw:{r}', 0) > 0) < len(RW):
        raise BrokenCheck(f'some rewriting family never exercised: {c}')
