"""C16 — `cached` keys identify the call, not how it was written.

Generated method signatures (0-5 parameters: positional-or-keyword with trailing defaults, keyword-only with or without
defaults), several methods / versions sharing one cache, ignored names; per binding 2-6 spellings (positional prefix length,
keyword order, defaults spelled or omitted) and perturbed bindings; control keywords; three back ends (a recording dict cache
passed as `cache_object`, the object's own JsonCache, the object's own InMemoryCache — always behind a recording proxy, so no
hook in the repo).  Compared with the Lean model `TCV.Cached` (+ `TCV.Cache`): key text, sub-cache name, result, method-call
count per call, number of entries; oracle: `inspect.signature(...).bind` + `apply_defaults` and a dictionary."""
import inspect
import json

from tcv import gen

RULE = ('seeded cases: 1-3 method slots (name, version; same name with different versions, look-alike names) with generated '
        'signatures (0-3 positional-or-keyword parameters with trailing defaults, 0-2 keyword-only parameters, a quarter with a **kwargs catch-all and 0-2 extra keyword arguments, ignored subsets) '
        'on one cache; 3-8 bindings per slot over JSON-like values that Python\'s == conflates (0/False/0.0, 1/True/1.0, "1", '
        'nested mappings in different insertion orders), each called in 2-6 spellings plus single-argument perturbations '
        '(ignored and non-ignored), with force_cache / only_cache / store_cache_value (and the rejected combination), raising '
        'methods; back ends: recording dict cache as cache_object, own JsonCache, own InMemoryCache, bare @cached descriptor; plus '
        'invalid calls (surplus positionals, duplicate, unknown, missing names) through only_cache for the key text and '
        'validity; compared with the Lean model per call: key text, sub-cache name, result, method calls, and the entry count; '
        'distinct = distinct (signatures, call list); non-trivial = a slot with >= 2 parameters and >= 2 spellings of one binding')
ASSUMPTIONS = ['argument values are JSON-like (None/bool/int/float/str/list/dict with str keys); two values are the same argument iff '
               'their json.dumps(sort_keys=True) texts are equal (type-strict identity)',
               'method names are identifiers (no "."), versions are path-component strings; parameters are not named like the '
               'control keywords nor `obj` (the wrapper\'s own first parameter: `o.m(obj=1)` raises TypeError); no *args in the decorated signature; a `**rest_` catch-all with extra keyword arguments named zx/a0/Z/extra is part of the domain (theorems in Props/C16Kwargs.lean)',
               'json.dumps(…, sort_keys=True) is injective on JSON-distinguishable sorted dictionaries (hypothesis of '
               'different_binding_different_key; exercised, not proved)']
TRUSTED = ['modelled, not verified: inspect.signature parameter order/defaults, dict insertion order, json.dumps text '
           '(re-implemented in TCV.Json.dumpsStd and compared literally on every call)']

VALS = [0, 1, True, False, None, 1.0, 0.0, -0.0, 2, 'a', '1', '', 'True', 'é😀"\\\n\x7f', [1], [True], [1.0], [], {}, {'k': 1}, {'k': True},
        {'b': 1, 'a': 2}, {'a': 2, 'b': 1}, {'a': {'y': [None], 'x': 0}}, [[], {}], 2 ** 53, -7, 1e16, 1.5, 'null']
NAMES = ['a', 'b', 'ab', 'a_', 'k', 'x', 'y', 'z', 'key', 'force', 'cache', 'args', 'kwargs', 'B', 'é']
METHODS = ['m', 'm2', 'mm', 'M', 'compute', 'm_1']
VERSIONS = [None, None, '1', '2', '1.0', '1.', '', 'v', 'm', 'é 1', '2.0 beta', '2.0_beta', '2.0-beta']
STORE = ['S', None, 0, ['s', 1], {'s': None}]


class Boom(Exception):
    pass


def jv(v):
    """Python JSON-like value -> tagged JSON for the driver (numbers as the token json.dumps prints)"""
    if v is None or isinstance(v, (bool, str)):
        return v
    if isinstance(v, (int, float)):
        return {'num': json.dumps(v)}
    if isinstance(v, list):
        return [jv(x) for x in v]
    if isinstance(v, dict):
        return {'obj': [[k, jv(x)] for k, x in v.items()]}
    raise TypeError(v)


def jtext(v):
    return json.dumps(v, sort_keys=True)


# ------------------------------------------------------------------------------------------- generated methods

class SigList(list):
    """the parameters of a generated method; `varkw`: the method also takes `**rest_` (extra keyword arguments)"""
    varkw = False


EXTRAS = ['zx', 'a0', 'Z', 'extra']           # names of extra keyword arguments (never parameter names)


def gen_sig(rng):
    npos, nkw = rng.choice([0, 1, 1, 2, 2, 3]), rng.choice([0, 0, 1, 1, 2])
    names = rng.sample(NAMES, npos + nkw)
    params, seen_default = [], False
    for i in range(npos):
        has_d = seen_default or rng.random() < 0.35
        seen_default = seen_default or has_d
        params.append({'name': names[i], 'kw_only': False, 'has_default': has_d, 'default': rng.choice(VALS) if has_d else None})
    for i in range(nkw):
        has_d = rng.random() < 0.6
        params.append({'name': names[npos + i], 'kw_only': True, 'has_default': has_d, 'default': rng.choice(VALS) if has_d else None})
    ign = [p['name'] for p in params if rng.random() < 0.2]
    if rng.random() < 0.1:
        ign.append('not_a_param')
    params = SigList(params)
    if rng.random() < 0.25:
        params.varkw = True
        if rng.random() < 0.3:
            ign.append(rng.choice(EXTRAS))          # an ignored extra keyword
    return params, ign


def make_function(name, params):
    pos = [p for p in params if not p['kw_only']]
    kw = [p for p in params if p['kw_only']]
    defaults = {}

    def decl(p):
        if p['has_default']:
            defaults[f"_d_{p['name']}"] = p['default']
            return f"{p['name']}=_d_{p['name']}"
        return p['name']
    sig = 'self' + ''.join(', ' + decl(p) for p in pos)
    if kw:
        sig += ', *' + ''.join(', ' + decl(p) for p in kw)
    body = ', '.join(f"{p['name']!r}: {p['name']}" for p in params)
    if getattr(params, 'varkw', False):
        sig += ', **rest_'
        body += (', ' if body else '') + "'rest_': rest_"
    src = (f"def {name}({sig}):\n"
           f"    self.log.append({name!r})\n"
           f"    if self.boom:\n        raise Boom()\n"
           f"    return [{name!r}, self.tag, {{{body}}}]\n")
    ns = dict(defaults, Boom=Boom)
    exec(src, ns)
    return ns[name]


def sig_json(params):
    out = []
    for p in params:
        d = {'name': p['name'], 'kw_only': p['kw_only']}
        if p['has_default']:
            d['default'] = {'v': jv(p['default'])}
        out.append(d)
    return out


def gen_binding(rng, params):
    b = {p['name']: (p['default'] if p['has_default'] and rng.random() < 0.4 else rng.choice(VALS)) for p in params}
    if getattr(params, 'varkw', False) and rng.random() < 0.75:
        # extra keyword arguments, caught by `**rest_`: part of the call like any named argument
        b['**'] = {n: rng.choice(VALS) for n in rng.sample(EXTRAS, rng.randint(1, 2))}
    return b


def reorder(rng, v):
    """the same JSON value with its mappings built in another insertion order"""
    if isinstance(v, dict):
        items = [(k, reorder(rng, x)) for k, x in v.items()]
        rng.shuffle(items)
        return dict(items)
    if isinstance(v, list):
        return [reorder(rng, x) for x in v]
    return v


def spell(rng, params, b):
    """a random valid spelling of binding b: positional prefix, shuffled keywords, defaults omitted when equal (type-strictly),
    mappings inside argument values built in another order"""
    b = {k: (reorder(rng, v) if rng.random() < 0.5 else v) for k, v in b.items()}
    pos = [p for p in params if not p['kw_only']]
    npos_given = rng.randint(0, len(pos))
    args = [b[p['name']] for p in pos[:npos_given]]
    rest = pos[npos_given:] + [p for p in params if p['kw_only']]
    rng.shuffle(rest)
    rest = [(p, None) for p in rest] + [(None, n) for n in b.get('**', {})]
    rng.shuffle(rest)
    kwargs = {}
    for p, extra in rest:
        if p is None:
            kwargs[extra] = b['**'][extra]
            continue
        if p['has_default'] and jtext(b[p['name']]) == jtext(p['default']) and rng.random() < 0.5:
            continue
        kwargs[p['name']] = b[p['name']]
    return args, kwargs


def invalid_spelling(rng, params, b):
    """a call Python rejects (the decorator does not): surplus positional, duplicate, unknown or missing name"""
    args, kwargs = spell(rng, params, b)
    pos = [p for p in params if not p['kw_only']]
    how = rng.choice(['surplus', 'dup', 'unknown', 'missing'])
    if how == 'surplus':
        args = [b[p['name']] for p in pos] + [rng.choice(VALS) for _ in range(rng.randint(1, 2))]
        kwargs = {k: v for k, v in kwargs.items() if k not in [p['name'] for p in pos]}
    elif how == 'dup' and args:
        kwargs = dict(kwargs)
        kwargs[pos[rng.randrange(len(args))]['name']] = rng.choice(VALS)
    elif how == 'unknown':
        kwargs = dict(kwargs, zz_unknown=rng.choice(VALS))
    else:
        req = [p for p in params if not p['has_default']]
        if req:
            victim = rng.choice(req)['name']
            idx = [p['name'] for p in pos].index(victim) if victim in [p['name'] for p in pos] else None
            if idx is not None and idx < len(args):
                args = args[:idx]
                for p in pos[idx + 1:]:
                    if p['name'] not in kwargs and not p['has_default']:
                        kwargs[p['name']] = b[p['name']]
            kwargs = {k: v for k, v in kwargs.items() if k != victim}
    return args, kwargs


# ------------------------------------------------------------------------------------------- back ends behind a recording proxy

def make_backend(kind, root):
    import taskchain.cache as tc
    if kind == 'json':
        return tc.JsonCache(root)
    if kind == 'mem':
        return tc.InMemoryCache()

    class DictCache(tc.Cache):
        """the plain dictionary cache a user may pass as cache_object"""
        def __init__(self):
            self.store = {}

        def get(self, key):
            return self.store.get(key, tc.NO_VALUE)

        def get_or_compute(self, key, computer, force=False):
            if key not in self.store or force:
                self.store[key] = computer()
            return self.store[key]

        def subcache(self, *a):
            raise NotImplementedError
    return DictCache()


def make_proxy(backend, record, path=()):
    import taskchain.cache as tc

    class Proxy(tc.Cache):
        def get(self, key):
            record.append({'sub': list(path), 'op': 'get', 'key': key})
            return backend.get(key)

        def get_or_compute(self, key, computer, force=False):
            record.append({'sub': list(path), 'op': 'goc', 'key': key, 'force': force})
            return backend.get_or_compute(key, computer, force=force)

        def subcache(self, name):
            return make_proxy(backend.subcache(name), record, path + (name,))
    return Proxy()


def count_entries(kind, backend, root, subs):
    import os
    if kind == 'json':
        n = 0
        for dp, dn, fn in os.walk(root):
            n += sum(1 for f in fn if f.endswith('.json'))
        return n
    if kind == 'mem':
        return len(backend) + sum(len(backend.subcache(s)) for s in subs)
    return len(backend.store)


# ------------------------------------------------------------------------------------------- one case

def run_case(ctx, rng, idx, root):
    import shutil
    import taskchain.cache as tc
    kind = rng.choice(['rec', 'rec', 'json', 'json', 'mem'])
    own = kind != 'rec'
    bare = own and rng.random() < 0.2          # `@cached` without parentheses (descriptor form)
    if root.exists():
        shutil.rmtree(root)
    backend = make_backend(kind, root)
    record = []
    proxy = make_proxy(backend, record)
    nslots = rng.choice([1, 2, 2, 3])
    slots, used = [], set()
    while len(slots) < nslots:
        sibling = slots and own and not bare and rng.random() < 0.5
        if sibling:
            # a confusable sibling of an existing slot: same signature, ignored names and bindings (hence the same key texts),
            # another method name / version such that only the sub-cache keeps them apart
            base = rng.choice(slots)
            name, version = rng.choice([(base['method'], v) for v in VERSIONS] + [(base['method'] + '2', None), (base['method'] + '2', '2'),
                                                                                  (base['method'], '2'), (base['method'] + '_1', None)])
            params, ign, bindings = base['params'], base['ign'], base['bindings']
        else:
            name = rng.choice(METHODS[:3]) if rng.random() < 0.6 else rng.choice(METHODS)
            version = None if (bare or not own) else rng.choice(VERSIONS)
            params, ign = gen_sig(rng)
            if bare:
                ign = []
            bindings = [gen_binding(rng, params) for _ in range(rng.randint(3, 8) if ctx.thorough else rng.randint(2, 5))]
        if (name, version) in used:
            continue
        used.add((name, version))
        slots.append({'method': name, 'version': version, 'params': params, 'ign': ign, 'func': make_function(name, params),
                      'bindings': bindings})
    # one class per slot (a class cannot hold two methods of one name); all objects share the cache
    objs = []
    for i, s in enumerate(slots):
        if bare:
            deco = tc.cached(s['func'])
        elif own:
            deco = tc.cached(ignore_kwargs=s['ign'], version=s['version'])(s['func'])
        else:
            deco = tc.cached(proxy, ignore_kwargs=s['ign'])(s['func'])
        cls = type(f'O{i}', (), {s['method']: deco})
        o = cls()
        o.log, o.boom, o.tag, o.cache = [], False, i, proxy
        objs.append(o)
    values, vindex = [], {}

    def intern(v):
        t = jtext(v)
        if t not in vindex:
            vindex[t] = len(values)
            values.append(v)
        return vindex[t]

    calls, impl, meta = [], [], []
    stats = {'spellings': 0, 'params': max(len(s['params']) for s in slots)}
    for si, s in enumerate(slots):
        o = objs[si]
        pysig = inspect.signature(s['func'])
        bindings = s['bindings']
        plan = []
        for b in bindings:
            k = rng.randint(2, 6) if (s['params'] or b.get('**')) else 1
            for _ in range(k):
                plan.append((b, 'valid'))
            stats['spellings'] = max(stats['spellings'], k)
            if s['params'] and rng.random() < 0.7:
                b2 = dict(b)
                victim = rng.choice(s['params'])['name']
                b2[victim] = rng.choice([v for v in VALS if jtext(v) != jtext(b[victim])])
                plan.append((b2, 'valid'))
            if s['params'].varkw and rng.random() < 0.8:
                # the same call with another value for / without / with one more extra keyword argument
                b3 = dict(b); ex = dict(b.get('**', {}))
                how = rng.choice(['change', 'drop', 'add']) if ex else 'add'
                if how == 'add':
                    free = [n for n in EXTRAS if n not in ex]
                    ex[rng.choice(free)] = rng.choice(VALS)
                else:
                    n = rng.choice(sorted(ex))
                    if how == 'drop':
                        del ex[n]
                    else:
                        ex[n] = rng.choice([v for v in VALS if jtext(v) != jtext(ex[n])])
                b3['**'] = ex
                plan.append((b3, 'valid'))
                stats['extras'] = stats.get('extras', 0) + 1
            if rng.random() < 0.25:
                plan.append((b, 'invalid'))
        rng.shuffle(plan)
        for b, mode in plan:
            if mode == 'invalid':
                args, kwargs = invalid_spelling(rng, s['params'], b)
                ctl = {'force': False, 'only': True, 'store': None}
            else:
                args, kwargs = spell(rng, s['params'], b)
                r = rng.random()
                ctl = {'force': r < 0.12, 'only': 0.12 <= r < 0.24, 'store': None}
                if 0.24 <= r < 0.36:
                    ctl['store'] = {'v': rng.choice(STORE)}
                    ctl['force'] = rng.random() < 0.3
                    ctl['only'] = rng.random() < 0.1
            o.boom = mode == 'valid' and rng.random() < 0.08
            # Python's own view of the call
            try:
                ba = pysig.bind(o, *args, **kwargs)
                ba.apply_defaults()
                pyb = {k: v for k, v in ba.arguments.items() if k != 'self'}
            except TypeError:
                pyb = None
            would = [s['method'], si, dict(pyb)] if pyb is not None else None
            res_idx = 'raise' if o.boom else ({'ret': intern(would)} if would is not None else {'ret': None})
            call = {'method': s['method'], 'version': s['version'], 'sig': sig_json(s['params']), 'ign': s['ign'],
                    'args': [jv(a) for a in args], 'kwargs': [[k, jv(v)] for k, v in kwargs.items()],
                    'force': ctl['force'], 'only': ctl['only'], 'result': res_idx, **({'varkw': 'rest_'} if s['params'].varkw else {})}
            if ctl['store'] is not None:
                call['store'] = {'v': None if ctl['store']['v'] is None else intern(ctl['store']['v'])}
            # run the real decorated method
            n_rec, n_log = len(record), len(o.log)
            extra = {}
            if ctl['force']:
                extra['force_cache'] = True
            if ctl['only']:
                extra['only_cache'] = True
            if ctl['store'] is not None:
                extra['store_cache_value'] = ctl['store']['v']
            try:
                r = getattr(o, s['method'])(*args, **kwargs, **extra)
                out = 'no_value' if r is tc.NO_VALUE else ({'val': None} if r is None else
                                                          ({'val': vindex[jtext(r)]} if jtext(r) in vindex else {'unknown': repr(r)[:200]}))
            except Boom:
                out = 'raised'
            except AssertionError:
                out = 'assert'
            except tc.CacheException:
                out = 'cache_error'
            except Exception as e:  # noqa
                out = {'error': type(e).__name__}
            recs = record[n_rec:]
            calls.append(call)
            impl.append({'key': recs[-1]['key'] if recs else None, 'sub': (recs[-1]['sub'][-1] if recs and recs[-1]['sub'] else None),
                         'out': out, 'mcalls': len(o.log) - n_log, 'nrec': len(recs),
                         'recop': (recs[-1]['op'], recs[-1].get('force')) if recs else None})
            meta.append({'slot': si, 'pyb': pyb, 'mode': mode, 'ctl': ctl, 'boom': o.boom, 'args': args, 'kwargs': kwargs,
                         'result': r if isinstance(out, dict) and 'val' in out else None})
    subs = sorted({c['sub'] for c in impl if c['sub']})
    entries = count_entries(kind, backend, root, subs)
    case = {'kind': kind, 'own': own, 'bare': bare, 'calls': calls}
    return case, impl, meta, entries, slots, stats


def oracle(ctx, case, impl, meta, slots):
    """dictionary semantics over Python's own binding; independent of the model"""
    store = {}          # (slot, ident) -> result object
    key_of = {}         # (slot, ident) -> (sub, key text)
    ident_of = {}       # (sub, key text) -> (slot, ident)
    for i, (got, m) in enumerate(zip(impl, meta)):
        if m['pyb'] is None or got['out'] == 'assert':
            continue
        s = slots[m['slot']]
        # (extra keyword arguments caught by `**rest_` are arguments like the named ones: flattened, then ignored names dropped)
        flat = {**{k: v for k, v in m['pyb'].items() if k != 'rest_'}, **m['pyb'].get('rest_', {})} if s['params'].varkw else m['pyb']
        ident = (m['slot'], jtext({k: v for k, v in flat.items() if k not in s['ign']}))
        detail = {'call_index': i, 'method': s['method'], 'version': s['version'], 'ignore': s['ign'], 'args': m['args'],
                  'kwargs': m['kwargs'], 'ctl': m['ctl'], 'got': got}
        loc = (got['sub'], got['key'])
        if ident in key_of and key_of[ident] != loc:
            ctx.fail('two spellings of one binding (up to ignored arguments) use different cache entries', case, detail)
            return
        if loc in ident_of and ident_of[loc] != ident:
            other = ident_of[loc]
            what = ('different methods/versions share a cache entry' if other[0] != ident[0] and case['own'] else
                    'calls that differ in a non-ignored argument share a cache entry')
            if other[0] == ident[0] or case['own']:
                ctx.fail(what, case, detail)
                return
        key_of[ident] = loc
        ident_of.setdefault(loc, ident)
        ctl = m['ctl']
        cached = ident in store if case['own'] or True else None
        # with a shared cache_object different methods may legitimately share entries; key the dictionary by location then
        dkey = ident if case['own'] else loc
        cached = dkey in store
        if ctl['only']:
            exp_calls = 0
            exp = ('val', store[dkey]) if cached else ('no_value',)
        elif ctl['store'] is not None:
            exp_calls = 0
            if cached and not ctl['force']:
                exp = ('val', store[dkey])
            else:
                store[dkey] = ctl['store']['v']
                exp = ('val', ctl['store']['v'])
        elif cached and not ctl['force']:
            exp_calls, exp = 0, ('val', store[dkey])
        else:
            exp_calls = 1
            if m['boom']:
                exp = ('raised',)
            else:
                would = [s['method'], m['slot'], dict(m['pyb'])]
                store[dkey] = would
                exp = ('val', would)
        if got['mcalls'] != exp_calls:
            ctx.fail('the method ran %d time(s), expected %d (only_cache/store_cache_value never run it, a cached binding is not '
                     'recomputed, force_cache recomputes)' % (got['mcalls'], exp_calls), case, detail)
            return
        if exp[0] == 'val':
            ok = isinstance(got['out'], dict) and 'val' in got['out'] and jtext(m['result']) == jtext(exp[1])
        else:
            ok = got['out'] == exp[0]
        if not ok:
            ctx.fail('result differs from the dictionary semantics of the bound call', case, dict(detail, expected=str(exp)[:300]))
            return


def run(ctx):
    import tcv.quiet
    tcv.quiet.quiet()
    root = ctx.tmpdir() / 'c16' / 'cache'
    root.parent.mkdir(parents=True, exist_ok=True)
    n = ctx.n(400, 5000)
    batch = []
    for i in range(n):
        rng = ctx.rng('case', i)
        batch.append(run_case(ctx, rng, i, root))
    reqs = []
    for case, impl, meta, entries, slots, stats in batch:
        reqs.append({'m': 'cached', 'op': 'calls', 'kind': 'json' if case['kind'] == 'json' else 'mem', 'own': case['own'],
                     'calls': case['calls']})
        for c, m in zip(case['calls'], meta):
            reqs.append({'m': 'cached', 'op': 'key', 'sig': c['sig'], 'ign': c['ign'], 'args': c['args'], 'kwargs': c['kwargs'],
                         **({'varkw': 'rest_'} if slots[m['slot']]['params'].varkw else {})})
    mos = iter(ctx.model.many(reqs))
    for case, impl, meta, entries, slots, stats in batch:
        mo = next(mos)
        keyinfo = [next(mos) for _ in case['calls']]
        ctx.case(case, nontrivial=stats['params'] >= 2 and stats['spellings'] >= 2)
        ctx.count(f"backend={case['kind']}" + ('/bare' if case['bare'] else ''))
        if any(s_['params'].varkw for s_ in slots):
            ctx.count('catch-all-kwargs'); ctx.count('extra-keyword-variants', stats.get('extras', 0))
        ctx.count('calls', len(case['calls']))
        for m, got in zip(meta, impl):
            ctx.count('mode=' + m['mode'])
            if m['ctl']['only']:
                ctx.count('ctl=only')
            elif m['ctl']['store'] is not None:
                ctx.count('ctl=store')
            elif m['ctl']['force']:
                ctx.count('ctl=force')
            if got['out'] == 'raised':
                ctx.count('raised')
            if got['mcalls'] == 0 and isinstance(got['out'], dict) and 'val' in got['out'] and not m['ctl']['only'] and m['ctl']['store'] is None:
                ctx.count('hit')
        if 'err' in mo or any('err' in k for k in keyinfo):
            ctx.diverge('cached_calls', case, impl, [mo] + keyinfo)
            continue
        bad = None
        for i, (got, exp, ki, m) in enumerate(zip(impl, mo['calls'], keyinfo, meta)):
            # validity and binding: Lean's `valid`/`binding` against inspect.signature(...).bind + apply_defaults
            py_valid = m['pyb'] is not None
            if ki['valid'] != py_valid:
                bad = ('cached_valid', i, {'python_accepts': py_valid}, {'valid': ki['valid']})
                break
            if py_valid:
                # (extra keyword arguments: flattened out of the catch-all dictionary, in call order — `bindingKw`)
                pyb = [[k, jtext(v)] for k, v in m['pyb'].items() if k != 'rest_' or not slots[m['slot']]['params'].varkw]
                if slots[m['slot']]['params'].varkw:
                    pyb += [[k, jtext(v)] for k, v in m['pyb'].get('rest_', {}).items()]
                if pyb != ki['binding']:
                    bad = ('cached_binding', i, pyb, ki['binding'])
                    break
            g = {'key': got['key'], 'sub': got['sub'] if case['own'] else None, 'out': got['out'], 'mcalls': got['mcalls']}
            e = {'key': exp['key'] if exp['out'] != 'assert' else None, 'sub': exp['sub'] if case['own'] and exp['out'] != 'assert' else None,
                 'out': exp['out'], 'mcalls': exp['mcalls']}
            if m['mode'] == 'invalid':
                # an invalid call is only looked up: the key text is compared, the outcome of the lookup too
                pass
            if g != e:
                bad = ('cached_calls', i, g, e)
                break
        if bad:
            ctx.diverge(bad[0], {'kind': case['kind'], 'own': case['own'], 'bare': case['bare'], 'call_index': bad[1],
                                 'call': case['calls'][bad[1]], 'calls_before': case['calls'][:bad[1]]}, bad[2], bad[3])
        elif entries != mo['entries']:
            ctx.diverge('cached_entries', case, entries, mo['entries'])
        oracle(ctx, case, impl, meta, slots)
    object_lifetime_probe(ctx)


def object_lifetime_probe(ctx):
    """(i) the cache of an object belongs to that object: after it is gone, a new object (which may live at the same address) with an empty
    cache of its own computes again; (ii) what a cached call returned is the caller's copy: changing it does not change what later calls return"""
    import gc
    import taskchain.cache as tc
    root = ctx.tmpdir() / 'lifetime'

    class Holder:
        def __init__(self, cache, tag):
            self.cache, self.tag, self.log = cache, tag, []

        @tc.cached()
        def m(self, x):
            self.log.append(x)
            return [self.tag, x, {'k': [x]}]
    for k in range(ctx.n(6, 40)):
        case = {'probe': 'a new object after the old one is gone', 'round': k}
        ctx.case(case); ctx.count('object-lifetime')
        mk = (lambda: tc.InMemoryCache()) if k % 2 else (lambda: tc.JsonCache(root / f'c{k}-{id(object())}'))
        outs = []
        for tag in ('first', 'second', 'third'):
            o = Holder(mk() if k % 2 else tc.JsonCache(root / f'c{k}-{tag}'), tag)
            outs.append((o.m(1), list(o.log)))
            del o
            gc.collect()
        bad = [(r, log) for (r, log), tag in zip(outs, ('first', 'second', 'third')) if r[0] != tag or log != [1]]
        if bad:
            ctx.fail('a new object with an empty cache of its own was served the entry of an object that no longer exists', case, {'calls': outs})
    for k, cache in enumerate([tc.InMemoryCache(), tc.JsonCache(root / 'mut')]):
        o = Holder(cache, 't')
        case = {'probe': 'changing a returned value', 'cache': type(cache).__name__}
        ctx.case(case); ctx.count('returned-value-mutation')
        a = o.m(5)
        b = o.m(5)
        if type(cache).__name__ == 'JsonCache':
            b.append('changed'); b[2]['k'].append('changed')
            c = o.m(5)
            if c != ['t', 5, {'k': [5]}]:
                ctx.fail('changing the value a cached call returned changed what a later call returns (file cache)', case, {'later_call': c})
        if o.log != [5]:
            ctx.fail('the method ran again for a cached binding', case, o.log)


def search(ctx, divergences):
    run(ctx)


def sanity(ctx):
    from tcv.core import BrokenCheck
    if ctx.failures or ctx.divergences:
        return
    c = ctx.counts
    need = {'mode=valid': 2000, 'mode=invalid': 100, 'ctl=only': 100, 'ctl=store': 100, 'ctl=force': 100, 'hit': 500, 'raised': 30,
            'backend=rec': 50, 'backend=json': 50, 'backend=mem': 20}
    low = {k: c.get(k, 0) for k, v in need.items() if c.get(k, 0) < v}
    if low:
        raise BrokenCheck(f'generator distribution collapsed: {low}')
