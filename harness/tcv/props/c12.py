"""C12 — the storage scheme is stable.

(i) golden corpus captured from the pinned commit (before any repair): the model (from the captured parameter/inputs
description) and the implementation (rebuilding the captured spec on the current tree) must both reproduce every key and path;
(ii) generated configurations: literal key, data/run-info/log path of the implementation equal to the model's;
(iii) the files are where the paths say after computing."""
import json
import logging
import warnings
from pathlib import Path

from tcv import gen, pipeline as pl
from tcv.core import VERIF

RULE = ('golden corpus corpus/c12_golden.jsonl (531 specs / ~1800 tasks captured at the pinned commit: every data class, group '
        'form none/single/multi-level/module-derived, namespace depth 0-3, adversarial and plain values, placeholders, Path '
        'parameters, name mode) replayed on model and implementation, plus seeded generated specs of the same family; '
        'compared: key, data path, run-info path, log path (literal), files on disk after computing; '
        'distinct = distinct (spec, task); non-trivial = task with at least one persisted parameter or input')
ASSUMPTIONS = ['hashlib.sha256 equals the model driver SHA-256 (validated on every key text of this run)',
               'supported domain: string-keyed JSON-like parameter values, ReprStr, Path parameters; parameter objects are opaque reprs']
TRUSTED = ['modelled, not verified: Python repr of int/float/bool/None/str, sorted() on str, f-strings, pathlib joining']

EXT = {'json': 'json', 'jsontuple': 'json', 'numpy': 'npy', 'pandas': 'pd', 'generated': 'jsonl', 'genempty': 'jsonl'}


def model_reqs(tasks, keys_by_name, mode):
    reqs = []
    for t in tasks:
        np_ = sorted(pl.nonprintable(t['params']))
        ins = [[n, keys_by_name[f]] for n, f in t['inputs']]
        reqs.append({'m': 'key', 'op': 'key', 'params': t['params'], 'ns': t['ns'], 'inputs': ins, 'np': np_})
    return reqs


def expected_paths(slug, key, ext):
    d = '/'.join(slug.split(':'))
    return {'data': f'{d}/{key}' + (f'.{ext}' if ext else ''), 'run_info': f'{d}/{key}.run_info.yaml', 'log': f'{d}/{key}.log'}


def describe_tasks(chain, data, spec):
    desc = pl.describe(chain, data)
    tasks = []
    for d in desc:
        t = chain.tasks[d['name']]
        kind = [c for cid, c in spec['classes'].items() if pl.pyname(cid) == d['cls']][0]['kind']
        exp = {'key': d['key'], 'data': d['data_path']}
        if d['persist']:
            dobj = t._data_without_value
            exp['run_info'] = str(dobj.run_info_path.relative_to(data)); exp['log'] = str(dobj.log_path.relative_to(data))
        tasks.append({'fullname': d['fullname'], 'slug': d['slug'], 'cls': d['cls'], 'ns': d['ns'], 'params': d['params'], 'ext': EXT.get(kind),
                      'persist': d['persist'], 'inputs': [[n, x['task']] for n, x in d['inputs'] if 'task' in x],
                      'config': d['config'], 'expect': exp, 'name': d['name']})
    return tasks


def model_key(spec, t, mo):
    mode = spec.get('mode', 'param')
    if mode == 'param':
        return mo['key']
    if spec.get('declaring_file'):
        # name mode: the storage key is the NAME of the declaring config = its file name without the last extension
        return '.'.join(spec['declaring_file'].split('.')[:-1])
    return t['config']


def check_model(ctx, label, spec, tasks, results):
    """model vs captured/implementation expectation for every task of one spec"""
    mode = spec.get('mode', 'param')
    # paths from the Lean model (TCV.Key.dataPath / runInfoPath / logPath); the Python transcription is only a cross-check
    preqs = [{'m': 'key', 'op': 'path', 'slug': t['slug'], 'key': model_key(spec, t, mo), 'ext': t['ext']} for t, mo in zip(tasks, results)]
    mpaths = ctx.model.many(preqs)
    for t, mo, mp in zip(tasks, results, mpaths):
        case = {'source': label, 'module': spec.get('module'), 'task': t['fullname'], 'mode': mode}
        nontrivial = bool(t['inputs']) or mo.get('registry') != 'None'
        ctx.case(case, nontrivial=nontrivial)
        exp = t['expect']
        # the task name and group come from the class (Meta.name / class name; Meta.task_group / module for ModuleTask): computed here
        # from the spec, not taken from the implementation
        cspec = [c for cid, c in spec.get('classes', {}).items() if pl.pyname(cid) == t.get('cls')]
        if cspec and spec.get('module'):
            want_slug = gen.slug_of(cspec[0], spec['module'])
            if want_slug != t['slug']:
                ctx.diverge(f'{label}:task-name-and-group', case, t['slug'], want_slug); return False
        key = model_key(spec, t, mo)
        if mode != 'param':
            ctx.count(f'{label}:name-mode-dotted' if '.' in key else f'{label}:name-mode-plain')
        got = {'key': key}
        if t['persist']:
            if 'data' not in mp:
                ctx.diverge(f'{label}:model-path', case, exp, mp); return False
            got.update({k: '/'.join(mp[k]) for k in ('data', 'run_info', 'log')})
            if '.' not in key and got != {'key': key, **expected_paths(t['slug'], key, t['ext'])}:
                ctx.diverge(f'{label}:model-path-vs-transcription', case, expected_paths(t['slug'], key, t['ext']), got); return False
        else:
            got['data'] = None
        ctx.count(f'{label}:{"param" if mode == "param" else "name"}-mode')
        if got != exp:
            ctx.diverge(f'{label}:key-and-paths', {**case, 'key_text': mo.get('text')}, exp, got)
            return False
    return True


# ---------------------------------------------------------------------------------- parameter objects (golden corpus of the pinned release)
OBJ_VALUES = [0, 1, -3, 2.5, True, None, 'x', '', "it's", 'say "hi"', 'a b', 'é', {'b': 1, 'a': 2}, {'z': {'y': 0, 'x': [1]}, 'a': "q'"},
              ['q"uote', {'k2': 0, 'k1': [1]}], [[], {}], 1e16]


def object_case(root, line):
    """build a one-task chain whose parameter `obj` is (or contains) an object of the class in `line` -> {repr, params_repr} or {error}"""
    import shutil
    from taskchain import Config
    from tcv.props import c02
    spec = {'classes': {'K0': {'name': 'o', 'group': '', 'params': [{'name': 'obj'}], 'inputs': [], 'kind': 'json', 'run_args': []}},
            'files': {}, 'main': None}
    modname = gen.fresh_modname()
    b = pl.materialize(spec, root, modname=modname)
    f = root.joinpath(*modname.split('.')).with_suffix('.py')
    f.write_text(f.read_text() + c02.AO_PRELUDE + line['src'])
    try:
        mod = b.module()
        defn = {'class': f"{modname}.{line['decl']['cls']}", 'kwargs': dict(line['kwargs'])}
        val = {None: defn, 'list': [defn, 1], 'dict': {'k': defn, 'n': [defn]}}[line['nest']]
        t = Config(root / 'data', name='c', data={'tasks': [getattr(mod, pl.pyname('K0'))], 'obj': val}).chain().tasks['o']
        o = t.params['obj']
        o = {None: lambda: o, 'list': lambda: o[0], 'dict': lambda: o['k']}[line['nest']]()
        # (the module name is generated per run: it is part of the text and is masked)
        return {'repr': o.repr().replace(modname, '<module>'), 'params_repr': (t.params.repr or '').replace(modname, '<module>')}
    except Exception as e:      # noqa
        return {'error': f'{type(e).__name__}: {e}'[:200]}
    finally:
        b.cleanup_module()
        shutil.rmtree(root, ignore_errors=True)


def golden_objects(ctx, root):
    """parameter objects: the text an AutoParameterObject contributes to the key is the one release 1.4.0 produced (frozen corpus
    `corpus/c12_objects.jsonl`, captured from the pinned commit by tools/capture_golden_objects.py)"""
    f = VERIF / 'corpus' / 'c12_objects.jsonl'
    lines = [json.loads(l) for l in f.read_text().split('\n') if l.strip()]
    for k, line in enumerate(lines if ctx.thorough else lines[ctx.seed % 2::2]):
        case = {'golden': 'parameter object', 'decl': line['decl'], 'kwargs': line['kwargs'], 'nested_in': line['nest']}
        ctx.case(case, nontrivial=len(line['kwargs']) >= 2); ctx.count('golden-objects')
        got = object_case(root / f'gobj{k}', line)
        if got != line['expect']:
            ctx.fail('the text a parameter object contributes to the key differs from the reference scheme (release 1.4.0): results stored '
                     'under the earlier key are orphaned', case, {'now': got, 'reference': line['expect']})


# ---------------------------------------------------------------------------------- values a JSON file cannot hold (YAML / Config(data=…))
REPR_LITERALS = [
    "{1: 'a', 2: 'b', 3: 'c', 10: 'd'}", "{10: 0, 9: 1, 100: 2, -1: 3}", "{2: {20: 1, 3: 2}, 11: [ {5: 0, 40: 1} ]}", "{1.5: 'x', 0.25: 'y', 10.0: 'z'}",
    "{True: 1, False: 0}", "{'b': 1, 'a': 2, 'B': 3, 'a0': 4, 'a-': 5}", "{'10': 1, '9': 2, '1': 3}", "(1, 2, 3)", "(1, (2, 'x'), [3])", "[(1, 2), (3,)]",
    "{'k': (1, 2)}", "{-3: 'm', 0: 'z', 7: 'p'}", "{100: 'a', 20: 'b', 3: 'c'}", "[{2: 'x', 1: 'y'}, {'2': 'x', '1': 'y'}]", "{1: None, 2: True, 3: 1.0, 4: '1'}",
    "{'é': 1, 'e': 2, 'z': 3, 'É': 4}", "{'a b': 1, 'a': 2, 'a_b': 3}", "{0: {0: {0: 'deep'}}}", "[[], {}, (), '']", "{'x': [ {3: 1, 1: 3}, {1: 3, 3: 1} ]}",
    "1e22", "-0.0", "{'f': [1e16, 1.5e-07, 3.0]}", "2 ** 70", "{12: 'a', 111: 'b', 2: 'c', 1: 'd'}",
]


def literal_case(root, lit):
    """a one-task chain whose parameter `v` is the value of the Python literal -> {repr, key} or {error}"""
    import shutil
    from taskchain import Config
    spec = {'classes': {'K0': {'name': 'o', 'group': '', 'params': [{'name': 'v'}], 'inputs': [], 'kind': 'json', 'run_args': []}}, 'files': {}, 'main': None}
    b = pl.materialize(spec, root, modname=gen.fresh_modname())
    try:
        t = Config(root / 'data', name='c', data={'tasks': [getattr(b.module(), pl.pyname('K0'))], 'v': eval(lit)}).chain().tasks['o']
        return {'repr': t.params.repr, 'key': t.name_for_persistence}
    except Exception as e:      # noqa
        return {'error': f'{type(e).__name__}: {e}'[:200]}
    finally:
        b.cleanup_module()
        shutil.rmtree(root, ignore_errors=True)


def golden_reprs(ctx, root):
    """the parameter text and the key of values that only YAML files or `Config(data=…)` can hold — integer, float, bool keys, tuples — are the
    ones release 1.4.0 produced (frozen corpus `corpus/c12_reprs.jsonl`, captured from the pinned commit by tools/capture_golden_reprs.py)"""
    f = VERIF / 'corpus' / 'c12_reprs.jsonl'
    for k, line in enumerate(json.loads(l) for l in f.read_text().split('\n') if l.strip()):
        case = {'golden': 'parameter value text', 'literal': line['literal']}
        ctx.case(case, nontrivial=True); ctx.count('golden-reprs')
        got = literal_case(root / f'grepr{k}', line['literal'])
        if got != line['expect']:
            ctx.fail('the text of a parameter value (hence the key) differs from the reference scheme (release 1.4.0): results stored under the '
                     'earlier key are orphaned', case, {'now': got, 'reference': line['expect']})


def module_group_probe(ctx, root):
    """module-derived groups come from the MODULE NAME (`ModuleTask`: last component, `DoubleModuleTask`: last two) — not from the name or
    place of the source file: a module loaded under another name than its file's, or from a checkout directory with another name, keeps
    the directory its results were stored in under release 1.4.0"""
    import importlib.util
    import sys
    from taskchain import Config
    src = ("from taskchain import ModuleTask, DoubleModuleTask\n\n"
           "class Stage(ModuleTask):\n    def run(self) -> int:\n        return 1\n\n"
           "class Deep(DoubleModuleTask):\n    def run(self) -> int:\n        return 2\n")
    for k, (modname, relpath) in enumerate([('pipelines.features', 'checkout_a/impl_v2.py'), ('features', 'other-dir/features_impl.py'),
                                            ('proj.pipelines.features', 'x/features.py')]):
        f = root / 'modgrp' / relpath
        f.parent.mkdir(parents=True, exist_ok=True)
        f.write_text(src)
        spec_ = importlib.util.spec_from_file_location(modname, f)
        mod = importlib.util.module_from_spec(spec_)
        sys.modules[modname] = mod
        try:
            spec_.loader.exec_module(mod)
            ch = Config(root / 'modgrp' / f'data{k}', name='c', data={'tasks': [mod.Stage, mod.Deep]}).chain()
            parts = modname.split('.')
            want = {'stage': parts[-1] + ':stage', 'deep': ':'.join(parts[-2:]) + ':deep'}
            got = {t.slugname.split(':')[-1]: t.slugname for t in ch.tasks.values()}
            case = {'probe': 'module-derived group', 'module': modname, 'file': relpath}
            ctx.case(case); ctx.count('module-group-probe')
            if got != want:
                ctx.fail('the group of a module task (hence the directory of its results) is not derived from the module name', case,
                         {'now': got, 'reference': want})
            dirs = {n: str(t.data_path.parent.relative_to(root / 'modgrp' / f'data{k}')) for n, t in ch.tasks.items()}
            if dirs != {v: v.replace(':', '/') for v in want.values()}:
                ctx.fail('results of a module task are not under <group levels>/<task name>', case, dirs)
        finally:
            sys.modules.pop(modname, None)


def name_mode_prefix_probe(ctx, root):
    """name mode: configs whose names are dot-prefixes of each other (`exp`, `exp.small`) keep separate results on one data directory — also
    when the shorter one is forced with `delete_data=True`: the other's result, run info and log stay where they were"""
    spec = {'classes': {'K0': {'name': 'w', 'group': 'g', 'params': [{'name': 'x'}], 'inputs': [], 'kind': 'json', 'run_args': ['x']}},
            'files': {'exp.json': {'tasks': ['K0'], 'x': 1}, 'exp.small.json': {'tasks': ['K0'], 'x': 2}, 'exp.small.v2.json': {'tasks': ['K0'], 'x': 3}},
            'main': 'exp.json', 'module': gen.fresh_modname()}
    b = pl.materialize(spec, root / 'nmprefix', modname=spec['module'])
    b.module()
    data = root / 'nmprefix' / 'data'
    chains = {}
    for m in ('exp.json', 'exp.small.json', 'exp.small.v2.json'):
        chains[m], _ = pl.build(b, data, main=m, parameter_mode=False)
        _ = chains[m].tasks['g:w'].value
    before = sorted(str(p_.relative_to(data)) for p_ in data.rglob('*') if p_.is_file())
    case = {'probe': 'name mode, dot-prefixed config names, delete_data on the shorter', 'files_before': before}
    ctx.case(case); ctx.count('name-mode-prefix-probe')
    want = ['g/w/' + n for n in ('exp.json', 'exp.small.json', 'exp.small.v2.json')]
    if not all(w in before for w in want):
        ctx.fail('name-mode results are not at <group>/<task>/<config name>.<extension>', case, {})
    chains['exp.json'].tasks['g:w'].force(delete_data=True)
    after = sorted(str(p_.relative_to(data)) for p_ in data.rglob('*') if p_.is_file())
    lost = [f for f in before if f not in after and not f.startswith('g/w/exp.json') and not f.startswith('g/w/exp.run_info') and not f.startswith('g/w/exp.log')]
    if lost:
        ctx.fail('deleting the result of one config removed files of a config whose name extends it: its stored result is orphaned', case, {'lost': lost})
    b.cleanup_module()


def foreign_data_class_probe(ctx, root):
    """the extension of a result is the one of the library's data class for the task's type: a `Data` subclass that some imported module
    defines for a type the library already handles does not silently take over (the library refuses the ambiguity, or keeps its own class)"""
    import gc
    from taskchain import Task, Config
    from taskchain.data import JSONData

    class Other(JSONData):
        DATA_TYPES = [dict]

        @property
        def extension(self):
            return 'other'

    class Plain(Task):
        class Meta:
            name = 'plain'

        def run(self) -> dict:
            return {'v': 1}
    case = {'probe': 'a foreign Data subclass for a type the library handles'}
    ctx.case(case); ctx.count('foreign-data-class-probe')
    try:
        t = Config(root / 'foreigndc', name='c', data={'tasks': [Plain]}).chain().tasks['plain']
        if not str(t.data_path).endswith('.json'):
            ctx.fail('the result of a dict-valued task is not stored as <key>.json: results stored earlier are orphaned', case, {'path': str(t.data_path.name)})
    except (AttributeError, ValueError):
        pass
    finally:
        del Other
        gc.collect()


def run(ctx, generated_only=False):
    from tcv.quiet import quiet
    quiet()
    root = ctx.tmpdir()
    lines = [json.loads(l) for l in (VERIF / 'corpus' / 'c12_golden.jsonl').read_text().split('\n') if l.strip()]
    if not ctx.thorough:
        lines = lines[ctx.seed % 2::2] if not generated_only else []
    if generated_only:
        lines = []
    # ---- (i) golden: model side
    reqs, owners = [], []
    for li, line in enumerate(lines):
        keys = {t['fullname']: t['expect']['key'] for t in line['tasks']}
        rs = model_reqs(line['tasks'], keys, line['spec']['mode'])
        reqs.extend(rs); owners.extend([li] * len(rs))
    out = ctx.model.many(reqs)
    pos = 0
    for li, line in enumerate(lines):
        n = len(line['tasks'])
        check_model(ctx, 'golden-model', line['spec'], line['tasks'], out[pos:pos + n]); pos += n
    # ---- (i) golden: implementation side
    for li, line in enumerate(lines):
        spec = line['spec']
        b = pl.materialize(spec, root / f'g{li}', modname=spec['module'])
        data = root / f'gd{li}'
        chain, err = pl.build(b, data, parameter_mode=(spec['mode'] == 'param'))
        case = {'source': 'golden-impl', 'module': spec['module']}
        if err:
            ctx.case(case); ctx.count('golden-impl:construction-error')
            ctx.fail('a configuration that built at release 1.4.0 no longer builds (its stored results are unreachable)', case, err)
            b.cleanup_module(); continue
        got = {t['fullname']: t['expect'] for t in describe_tasks(chain, data, spec)}
        for t in line['tasks']:
            c2 = {**case, 'task': t['fullname']}
            ctx.case(c2); ctx.count('golden-impl')
            if got.get(t['fullname']) != t['expect']:
                ctx.fail('stored result of release 1.4.0 is no longer found at its key/path', c2,
                         {'pinned': t['expect'], 'now': got.get(t['fullname'])})
        b.cleanup_module()
    # ---- (ii) generated specs: implementation vs model
    n = ctx.n(120, 2500)
    batch, metas = [], []
    for i in range(n):
        rng = ctx.rng('gen', i)
        spec = gen.gen_key_spec(rng, alphabet=None if i % 3 else gen.SAFE, keys=gen.SAFE if i % 2 else None,
                                mode='name' if i % 10 >= 8 else 'param', dotted=True)
        b = pl.materialize(spec, root / f's{i}', modname=spec['module'])
        data = root / f'sd{i}'
        chain, err = pl.build(b, data, parameter_mode=(spec['mode'] == 'param'))
        if err:
            ctx.count(f'generated:construction-error:{err}'); b.cleanup_module(); continue
        try:
            tasks = describe_tasks(chain, data, spec)
        except TypeError:
            ctx.count('generated:outside-domain'); b.cleanup_module(); continue
        keys = {t['fullname']: t['expect']['key'] for t in tasks}
        batch.append(model_reqs(tasks, keys, spec['mode'])); metas.append((spec, tasks, chain, data, b, i))
    flat = [r for rs in batch for r in rs]
    out = ctx.model.many(flat)
    pos = 0
    for (spec, tasks, chain, data, b, i), rs in zip(metas, batch):
        ok = check_model(ctx, 'generated', spec, tasks, out[pos:pos + len(rs)]); pos += len(rs)
        # sha256 validation on the key texts
        # ---- (iii) files on disk (a sample)
        if ok and i % 4 == 0:
            for t in tasks:
                task = chain.tasks[t['name']]
                try:
                    _ = task.value
                except Exception as e:  # noqa
                    ctx.count('generated:run-error'); continue
                if t['persist']:
                    kind = [c for cid, c in spec['classes'].items() if pl.pyname(cid) == task.__class__.__name__][0]['kind']
                    p = data / t['expect']['data']
                    if kind == 'continues':
                        ctx.count('on-disk'); 
                    if not p.exists():
                        ctx.fail('computed result is not at its data path', {'module': spec['module'], 'task': t['fullname']}, str(p))
                    for side in ('run_info', 'log'):
                        if not (data / t['expect'][side]).exists():
                            ctx.fail(f'{side} file is not beside the result', {'module': spec['module'], 'task': t['fullname']}, t['expect'][side])
                    ctx.count('on-disk')
        b.cleanup_module()
    if not generated_only:
        golden_objects(ctx, root)
        golden_reprs(ctx, root)
        module_group_probe(ctx, root)
        name_mode_prefix_probe(ctx, root)
        foreign_data_class_probe(ctx, root)
    # ---- sha256 of the driver vs hashlib
    import hashlib
    texts = [o['text'] for o in out if 'text' in o][:2000]
    hs = ctx.model.many([{'m': 'key', 'op': 'sha', 'text': t} for t in texts])
    for t, h in zip(texts, hs):
        if hashlib.sha256(t.encode()).hexdigest() != h['hex']:
            ctx.diverge('sha256', {'text': t}, hashlib.sha256(t.encode()).hexdigest(), h['hex'])
    ctx.notes['sha256_validated_on'] = len(texts)


def search(ctx, divergences):
    run(ctx)
