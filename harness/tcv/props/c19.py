"""C19 — test helpers compute what the real chain computes.

Generated task families (1-6 classes; groups; inputs by class / by name / by qualified name, optional inputs with defaults,
an optional input that is never present; inputs taken as run arguments, pulled through `self.input_tasks[...]` or unused;
parameters with and without defaults; JSON-persisting and in-memory classes) whose tasks return provenance terms.  A random
subset of the classes is handed to `TestChain` / `create_test_task` as real tasks, their remaining inputs are mocked (by class
or by name) with arbitrary JSON values incl. the falsy ones; the *same family* is built as a real parameter-mode chain in which
the mocked classes are constants returning the mock values.  Compared: every value, the run log, the files in the helper's
base_dir, and construction errors — with the Lean model `TCV.TestM` and with the real chain."""
import copy
import json
import os
import re
import shutil
import tempfile
from pathlib import Path

from tcv import gen, pipeline as pl
from tcv.quiet import quiet

RULE = ('seeded families from tcv.gen.gen_pipeline (kinds json/memory, 1-6 classes, by-class / by-name inputs, optional inputs, run '
        'arguments vs pulled vs unused inputs, defaults) x a choice of real tasks (the class under test plus a random part of its '
        'upstream) x mocks for the rest (keys by class or by name; values from JSON incl. 0, "", [], {}, None, False) x parameter '
        'assignment (values, defaults left out, parameter objects); scenarios: fresh temporary dir, explicit fresh dir, '
        'create_test_task, missing mock, missing required parameter, explicit base_dir reused for a second assignment (K4 class); '
        'observed: values of all requested tasks (real and mock), run log, data files under base_dir, error at construction; '
        'compared with the Lean model (helper machine) and with a real chain of the same family whose upstream tasks are '
        'constants equal to the mocks; distinct = distinct (family, split, assignment, scenario); non-trivial = at least one mock')
ASSUMPTIONS = ['mock names are full slugs (or classes); input names resolve by exact name in the model (name resolution itself is C10)',
               'values are JSON-like (what a provenance term can carry); data kinds json and in-memory (round trips are C06)',
               'the real chain runs in parameter mode on a fresh directory']
TRUSTED = ['modelled, not verified: inspect.signature order of run arguments, tempfile']

CONST_SRC = '''
class {py}(Task):
    class Meta:
        name = {name!r}{group}
        data_class = InMemoryData
        input_tasks = []
        parameters = []

    def run(self) -> object:
        RUNLOG.append((self.fullname, None))
        return CONSTS[{slug!r}]
'''

MOCK_VALUES = [0, '', [], {}, None, False, 1, 'm', [0], {'k': None}, 1.5, True, [[], ''], 'x y', {'t': 'fake', 'p': {}, 'i': []}, -1]


def sanitize(v):
    """JSON-like values a stored provenance term can carry without loss: no integers beyond 53 bits, no exotic floats"""
    if isinstance(v, bool) or v is None or isinstance(v, str):
        return v
    if isinstance(v, int):
        return v if abs(v) < 2 ** 53 else 7
    if isinstance(v, float):
        return v if repr(v) in ('0.0', '1.0', '1.5', '2.0', '-3.25') else 2.5
    if isinstance(v, list):
        return [sanitize(x) for x in v]
    if isinstance(v, dict):
        return {k: sanitize(x) for k, x in v.items()}
    return v


_PO = []


def param_object(r):
    """a ParameterObject with the given representation (what a provenance term shows of it: {'__obj__': r})"""
    if not _PO:
        from taskchain.parameter import ParameterObject

        class PO(ParameterObject):
            def __init__(self, r):
                self.r = r

            def repr(self):
                return self.r
        _PO.append(PO)
    return _PO[0](r)


_CPO = []


def chain_param_object(r, lookup=None):
    """a ParameterObject that is also a ChainObject: every chain (real or test helper) must call init_chain on it before tasks run"""
    if not _CPO:
        from taskchain.parameter import ParameterObject
        from taskchain.chain import ChainObject

        class CPO(ParameterObject, ChainObject):
            def __init__(self, r, lookup=None):
                self.r = r
                self.lookup = lookup
                self.tcv_state = 'fresh'

            def repr(self):
                return self.r

            def init_chain(self, chain):
                # the documented use: look at the chain (here: find a task by name) — the chain must be complete by now
                if self.lookup is not None:
                    chain[self.lookup]
                self.tcv_state = 'attached'
        _CPO.append(CPO)
    return _CPO[0](r, lookup)


def mform(v):
    """value as the model (and a provenance term) sees it"""
    if _PO and isinstance(v, _PO[0]):
        return {'__obj__': v.repr()}
    if _CPO and isinstance(v, _CPO[0]):
        return {'__obj__': v.repr(), 'state': 'attached'}      # what run must see in any chain
    if isinstance(v, list):
        return [mform(x) for x in v]
    if isinstance(v, dict):
        return {k: mform(x) for k, x in v.items()}
    return v


def norm(v):
    return json.loads(json.dumps(mform(v)))


def real_module_source(classes, mocked, modname):
    src = [pl.PRELUDE, 'CONSTS = {}\n']
    for cid in pl.order_classes(classes):
        c = classes[cid]
        if cid in mocked:
            src.append(CONST_SRC.format(py=pl.pyname(cid), name=c['name'], slug=gen.slug_of(c, modname),
                                        group=f'\n        task_group = {c["group"]!r}' if c.get('group') else ''))
        else:
            src.append(pl.class_source(cid, c, classes))
    return '\n\n'.join(src)


def gen_family(rng, modname):
    while True:
        classes, pfile = gen.gen_pipeline(rng, n_classes=rng.choice([1, 2, 2, 3, 3, 3, 4, 4, 4, 5, 5, 6, 6]), alphabet=gen.SAFE, keys=gen.SAFE, kinds=['json', 'json', 'memory'], optional=0.3,
                                          modname=modname, by_name=0.4, maxdepth=2)
        # short names unique: otherwise a name resolves to a same-named task of another group (name resolution is C10's business)
        if len({c['name'] for c in classes.values()}) == len(classes):
            break
    for c in classes.values():
        for p in c['params']:
            p.pop('dtype', None)            # `nic` (name_in_config) stays: the helpers read values under the config key
            if 'default' in p:
                p['default'] = sanitize(p['default'])
            if p['name'] == 'pth':
                p['name'] = 'pq'
                if 'nic' in p:
                    p['nic'] = 'pq_cfg'
        c['run_args'] = ['pq' if a == 'pth' else a for a in c['run_args']]
        for i_ in c['inputs']:
            if 'default' in i_:
                i_['default'] = sanitize(i_['default'])
        c['base'] = 'Task'
    if rng.random() < 0.3:
        # a list-valued parameter left at its declared default that the run uses as scratch space (appends in place): every helper and every
        # real chain starts from the declared default
        c = rng.choice(list(classes.values()))
        if all(p['name'] != 'acc_' for p in c['params']):
            c['params'].append({'name': 'acc_', 'default': [0]})
    return classes


def split_family(rng, classes, modname):
    """class under test + a random part of its upstream closure as real tasks; what they need beyond that gets mocked"""
    cids = list(classes)
    with_inputs = [c for c in cids if any(ref_cid(classes, i_, modname) is not None for i_ in classes[c]['inputs'])]
    target = rng.choice(with_inputs) if with_inputs and rng.random() < 0.9 else rng.choice(cids)
    real = [target]
    frontier = [target]
    while frontier:
        c = classes[frontier.pop()]
        for i_ in c['inputs']:
            ref = ref_cid(classes, i_, modname)
            if ref is not None and ref not in real and rng.random() < 0.35:
                real.append(ref); frontier.append(ref)
    if len(real) > 1 and rng.random() < 0.5 and all(ref_cid(classes, i_, modname) in real or ref_cid(classes, i_, modname) is None
                                                     for c in real for i_ in classes[c]['inputs']):
        real = [target]                                                    # nothing left to mock: test the class alone instead
    if rng.random() < 0.15 and len(cids) > len(real):
        real.append(rng.choice([c for c in cids if c not in real]))       # an unrelated task in the helper
    needed = []
    for cid in real:
        for i_ in classes[cid]['inputs']:
            ref = ref_cid(classes, i_, modname)
            if ref is not None and ref not in real and ref not in needed:
                needed.append(ref)
    return target, real, needed


def ref_cid(classes, i_, modname):
    if i_['by'] == 'class':
        return i_['ref']
    for cid, c in classes.items():
        if gen.slug_of(c, modname) == i_['ref']:
            return cid
    return None


def model_tasks(classes, real, modname):
    out = []
    for cid in real:
        c = classes[cid]
        ins, use = [], []
        names = []
        for i_ in c['inputs']:
            nm = i_['ref'] if i_['by'] == 'name' else gen.slug_of(classes[i_['ref']], modname)
            names.append(nm)
            ins.append([nm, i_['default']] if 'default' in i_ else [nm])
        pnames = [p['name'] for p in c['params']]
        for a in c['run_args']:
            if a not in pnames:
                use.append([a, [n.split(':')[-1] for n in names].index(a)])
        for nm in c.get('pull', []):
            use.append([nm, names.index(nm)])
        def pdecl(p):
            if p.get('nic'):
                return dict({'n': p['name'], 'k': p['nic']}, **({'d': p['default']} if 'default' in p else {}))
            return [p['name'], p['default']] if 'default' in p else [p['name']]
        out.append({'slug': gen.slug_of(c, modname), 'params': [pdecl(p) for p in c['params']],
                    'inputs': ins, 'use': use, 'persist': c['kind'] != 'memory'})
    return out


def data_files(base):
    base = Path(base)
    if not base.exists():
        return []
    return sorted(str(p.relative_to(base)) for p in base.rglob('*') if p.is_file() and not p.name.endswith(('.run_info.yaml', '.log')))


def helper_eval(hmod, rmod_unused, classes, modname, real, mocks, given, base_dir, requests, via_create, mock_by):
    """-> dict(values, runs, store) or dict(err, name)"""
    from taskchain.utils.testing import TestChain, create_test_task
    cls_of = {cid: getattr(hmod, pl.pyname(cid)) for cid in classes}
    slug = {cid: gen.slug_of(classes[cid], modname) for cid in classes}
    mock_arg = {}
    for k, v in mocks.items():
        cid = next((c for c in classes if slug[c] == k), None)
        mock_arg[cls_of[cid] if (cid is not None and mock_by.get(k) == 'class') else k] = copy.deepcopy(v)
    params = {k: copy.deepcopy(v) for k, v in given.items()}
    hmod.RUNLOG.clear()
    try:
        if via_create:
            t = create_test_task(cls_of[real[0]], input_tasks=mock_arg or None, parameters=params or None, base_dir=base_dir)
            get = lambda n: t if n == slug[real[0]] else t.input_tasks[n]
            bd = t.get_config().base_dir
        else:
            tc = TestChain([cls_of[c] for c in real], mock_tasks=mock_arg or None, parameters=params or None, base_dir=base_dir)
            get = lambda n: tc[n]
            bd = tc.config.base_dir
    except KeyError as e:
        # a by-class input whose class is absent while a longer-named task matches its short name: reported as KeyError
        return {'err': 'missing_input', 'name': e.args[0] if e.args else ''}
    except ValueError as e:
        msg = str(e)
        m = re.search(r'Value for parameter `(.*?)` not found', msg)
        if m:
            return {'err': 'missing_param', 'name': m.group(1)}
        m = re.search(r'Input task `(.*?)` of task `(.*?)` not found', msg)
        if m:
            return {'err': 'missing_input', 'name': m.group(1), 'task': m.group(2)}
        return {'err': 'other', 'name': msg[:100]}
    try:
        vals = [norm(get(n).value) for n in requests]
    except Exception as e:      # noqa
        return {'raised': f'{type(e).__name__}: {e}'[:200]}
    return {'values': vals, 'runs': sorted(fn for fn, *_ in hmod.RUNLOG), 'files': data_files(bd)}


def real_eval(rmod, classes, modname, real, mocks, given, data_dir, requests):
    from taskchain import Config
    slug = {cid: gen.slug_of(classes[cid], modname) for cid in classes}
    rmod.CONSTS.clear(); rmod.CONSTS.update(copy.deepcopy(mocks))
    by_slug = {s: c for c, s in slug.items()}
    tasks = [getattr(rmod, pl.pyname(c)) for c in real] + [getattr(rmod, pl.pyname(by_slug[k])) for k in mocks if k in by_slug]
    d = {'tasks': tasks}
    d.update(copy.deepcopy(given))
    rmod.RUNLOG.clear()
    try:
        chain = Config(data_dir, name='real', data=d).chain()
    except ValueError as e:
        return {'err': 'construction', 'name': str(e)[:100]}
    if any(v is None for v in mocks.values()):
        # a real task cannot return None (`Value of InMemoryData is not set`): no real chain corresponds to a None mock
        return {'err': 'none-constant', 'name': ''}
    return {'values': [norm(chain[n].value) for n in requests], 'runs': [fn for fn, *_ in rmod.RUNLOG]}


def run(ctx):
    import os
    # (ambient state the helpers do not depend on: an environment variable that looks like a configuration knob)
    os.environ['TASKCHAIN_TEST_DIR'] = str(ctx.tmpdir() / 'env-test-dir')
    os.environ['TASKCHAIN_DATA_DIR'] = str(ctx.tmpdir() / 'env-data-dir')
    quiet()
    root = ctx.tmpdir()
    (root / 'tmp').mkdir(exist_ok=True)
    old_tmp = tempfile.tempdir
    tempfile.tempdir = str(root / 'tmp')       # TestChain's default directory is created (and left) under tempfile's directory
    try:
        reqs, metas = [], []
        for i in range(ctx.n(600, 6000)):
            one_family(ctx, i, root, reqs, metas)
        for (case, impl, what), mo in zip(metas, ctx.model.many(reqs)):
            # generated tasks leave parameters declared `ignore_persistence` out of their provenance term
            ign = {gen.slug_of(c, None) if c.get('base', 'Task') == 'Task' else None: {p['name'] for p in c['params'] if p.get('ignore')}
                   for c in case['classes'].values()}
            if impl != project(mo, impl, ign):
                ctx.diverge(what, case, impl, mo)
        k4_witness(ctx, root)
        opaque_mock_probe(ctx, root)
        force_probe(ctx, root)
    finally:
        tempfile.tempdir = old_tmp


def strip_ignored(v, ign):
    if isinstance(v, dict) and set(v) == {'t', 'p', 'i'} and isinstance(v['p'], dict):
        return {'t': v['t'], 'p': {k: x for k, x in v['p'].items() if k not in ign.get(v['t'], ())},
                'i': [[n, strip_ignored(x, ign)] for n, x in v['i']]}
    return v


def project(mo, impl, ign=None):
    """model reply in the shape of the implementation's observation"""
    ign = ign or {}
    if 'raised' in impl:
        return None
    if 'err' in mo:
        out = {'err': mo['err'], 'name': mo['name']}
        if 'task' in impl:
            out['task'] = mo['task']
        return out
    return {'values': [strip_ignored(norm(v), ign) for v in mo['values']], 'runs': sorted(mo['runs']),
            'files': sorted(n.replace(':', '/') + '/test.json' for n, _ in mo['store'])}


def one_family(ctx, i, root, reqs, metas):
    rng = ctx.rng('family', i)
    modname = gen.fresh_modname()
    classes = gen_family(rng, modname)
    target, real, needed = split_family(rng, classes, modname)
    slug = {cid: gen.slug_of(classes[cid], modname) for cid in classes}
    base = root / f'f{i}'
    spec = {'classes': classes, 'files': {}, 'main': None}
    hb = pl.materialize(spec, base / 'h', modname=modname)
    rname = modname.replace('tcvm', 'tcvr')          # the real-chain module lives in the same generated package
    d = hb.root.joinpath(*modname.split('.')[:-1])
    rb = pl.Built(hb.root, rname, spec)
    try:
        hmod = hb.module()
        # assignments
        mocks = {slug[c]: rng.choice(MOCK_VALUES) if rng.random() < 0.7 else sanitize(gen.gen_value(rng, 1, 3, gen.SAFE, gen.SAFE)) for c in needed}
        optional_absent = []
        for cid in real:
            for i_ in classes[cid]['inputs']:
                ref = ref_cid(classes, i_, modname)
                if ref in needed and 'default' in i_ and rng.random() < 0.5 and all(
                        'default' in j_ for c2 in real for j_ in classes[c2]['inputs'] if ref_cid(classes, j_, modname) == ref):
                    optional_absent.append(slug[ref])
        for s in optional_absent:
            mocks.pop(s, None)            # an optional input that is simply not provided: the default is used
        given = {}
        for cid in real:
            for p in classes[cid]['params']:
                if 'default' not in p or rng.random() < 0.5:
                    if p.get('nic'):
                        ctx.count('name-in-config')
                    given.setdefault(p.get('nic', p['name']), sanitize(gen.gen_value(rng, 1, 3, gen.SAFE, gen.SAFE)))
        if len(real) > 1 and rng.random() < 0.2:
            # a class that is given as a task *and* mocked: the mock wins (`tasks[name] = MockTask(value)`)
            over = rng.choice([c for c in real if c != target])
            mocks[slug[over]] = rng.choice([v_ for v_ in MOCK_VALUES if v_ is not None])
            ctx.count('mock-overrides-task')
        if given and rng.random() < 0.2:
            mk = rng.choice([param_object, chain_param_object])
            if mk is chain_param_object and rng.random() < 0.6:
                given[rng.choice(sorted(given))] = mk('PO(' + gen.gen_str(rng, gen.SAFE, 4) + ')', lookup=slug[target])
            else:
                given[rng.choice(sorted(given))] = mk('PO(' + gen.gen_str(rng, gen.SAFE, 4) + ')')
            ctx.count('parameter-object' if mk is param_object else 'parameter-object:chain-object')
        mock_by = {k: rng.choice(['class', 'name']) for k in mocks}
        scenario = rng.choice(['fresh', 'fresh', 'explicit', 'create', 'missing-mock', 'missing-param', 'reuse', 'reuse'])
        via_create = scenario == 'create' and len(real) == 1
        if scenario == 'missing-mock':
            req_mocks = [k for k in mocks if any('default' not in i_ for c in real for i_ in classes[c]['inputs'] if slug.get(ref_cid(classes, i_, modname)) == k)]
            if req_mocks:
                del mocks[rng.choice(req_mocks)]
            else:
                scenario = 'fresh'
        if scenario == 'missing-param':
            req_p = [p.get('nic', p['name']) for c in real for p in classes[c]['params'] if 'default' not in p]
            if req_p:
                del given[rng.choice(req_p)]
            else:
                scenario = 'fresh'
        mocked_cids = [c for c in classes if slug[c] in mocks]
        (d / f'{rname.split(".")[-1]}.py').write_text(real_module_source(classes, set(mocked_cids), modname))
        rmod = rb.module()
        requests = [slug[c] for c in real if rng.random() < 0.8] + [k for k in mocks if rng.random() < 0.4]
        if slug[target] not in requests:
            requests.append(slug[target])
        rng.shuffle(requests)
        if via_create:
            requests = [slug[target]] + [r for r in requests if r in mocks and any(
                slug.get(ref_cid(classes, i_, modname)) == r for i_ in classes[target]['inputs'])]
        base_dir = None if scenario in ('fresh', 'missing-mock', 'missing-param') else base / 'bd'
        case = {'classes': classes, 'real': real, 'mocks': mocks, 'mock_by': mock_by, 'given': mform(given), 'scenario': scenario,
                'requests': requests, 'via_create': via_create}
        mt = model_tasks(classes, real, modname)
        rounds = [(mocks, given)]
        if scenario == 'reuse':
            mocks2 = {k: rng.choice([v_ for v_ in MOCK_VALUES if norm(v_) != norm(v)]) if rng.random() < 0.7 else v for k, v in mocks.items()}
            given2 = {k: (sanitize(gen.gen_value(rng, 1, 3, gen.SAFE, gen.SAFE)) if rng.random() < 0.4 else v) for k, v in given.items()}
            rounds.append((mocks2, given2))
        ctx.case(case, nontrivial=bool(mocks))
        ctx.count(f'scenario:{scenario}'); ctx.count('mocks:' + str(min(len(mocks), 3))); ctx.count('real:' + str(min(len(real), 3)))
        if any(v in (0, '', [], {}, None, False) for v in map(norm, mocks.values())):
            ctx.count('falsy-mock')
        if any(c.get('pull') for c in (classes[x] for x in real)):
            ctx.count('pulled-input')
        store = []
        for rno, (mk, gv) in enumerate(rounds):
            impl = helper_eval(hmod, rmod, classes, modname, real, mk, gv, base_dir, requests, via_create, mock_by)
            reqs.append({'m': 'test', 'op': 'helper', 'tasks': mt, 'mocks': [[k, v] for k, v in mk.items()],
                         'given': [[k, mform(v)] for k, v in gv.items()], 'store': store, 'requests': requests})
            metas.append((dict(case, round=rno, mocks=mk, given=mform(gv)), impl, 'TestChain' if not via_create else 'create_test_task'))
            # ---- oracle: reference for what is missing, and the real chain
            miss_p = [p['name'] for c in real for p in classes[c]['params'] if 'default' not in p and p.get('nic', p['name']) not in gv]
            have = {slug[c] for c in real} | set(mk)
            eff = [c for c in real if slug[c] not in mk]
            miss_i = [(i_['ref'] if i_['by'] == 'name' else slug[i_['ref']]) for c in eff for i_ in classes[c]['inputs']
                      if 'default' not in i_ and (i_['ref'] if i_['by'] == 'name' else slug[i_['ref']]) not in have]
            if miss_p or miss_i:
                ctx.count('construction-error')
                if 'err' not in impl:
                    ctx.fail('a missing input or required parameter was not reported when the helper was constructed', dict(case, round=rno),
                             {'missing_params': miss_p, 'missing_inputs': miss_i})
                break
            if 'err' in impl:
                ctx.fail('helper construction failed although every input and parameter is provided', dict(case, round=rno), impl)
                break
            if 'raised' in impl:
                ctx.fail('the helper raised while a value was requested although it was constructed', dict(case, round=rno), impl)
                break
            real_out = real_eval(rmod, classes, modname, real, mk, gv, base / f'real{rno}', requests)
            reused = rno > 0
            changed = reused and (norm(mk) != norm(rounds[0][0]) or norm(gv) != norm(rounds[0][1]))
            if 'err' in real_out:
                ctx.count('real-chain:' + real_out['err'])
            elif impl['values'] != real_out['values']:
                ctx.fail('value from the test helper differs from the value in the real chain', dict(case, round=rno),
                         {'helper': impl['values'], 'real': real_out['values']}, known='K4' if changed else None)
                if changed:
                    ctx.count('k4')
            mock_names = set(mk)
            ran_mocks = [n for n in impl['runs'] if n in mock_names]
            stored_mocks = [f for f in impl['files'] if any(f.startswith(n.replace(':', '/') + '/') for n in mock_names)]
            if ran_mocks or stored_mocks:
                ctx.fail('a mocked task was run or persisted', dict(case, round=rno), {'ran': ran_mocks, 'files': stored_mocks})
            if len(set(impl['runs'])) != len(impl['runs']):
                ctx.fail('a task of the helper chain ran twice', dict(case, round=rno), impl['runs'])
            # the store the next round starts from: what this round left behind in the explicit base_dir
            store = []
            if base_dir is not None:
                for f_ in impl['files']:
                    store.append([f_[:-len('/test.json')].replace('/', ':'), json.loads((Path(base_dir) / f_).read_text())])
    finally:
        hb.cleanup_module(); rb.cleanup_module()
        shutil.rmtree(base, ignore_errors=True)


K4_CLASSES = {
    'K0': {'name': 'src', 'group': '', 'params': [], 'inputs': [], 'kind': 'json', 'run_args': []},
    'K1': {'name': 'tested', 'group': 'g', 'params': [{'name': 'p', 'default': 0}], 'inputs': [{'by': 'class', 'ref': 'K0'}], 'kind': 'json',
           'run_args': ['src', 'p'], 'in_kinds': {'src': 'json'}},
}


def k4_witness(ctx, root):
    from taskchain.utils.testing import create_test_task
    modname = gen.fresh_modname()
    b = pl.materialize({'classes': K4_CLASSES, 'files': {}, 'main': None}, root / 'k4' / 'mod', modname=modname)
    try:
        mod = b.module()
        bd = root / 'k4' / 'reused'
        first = create_test_task(mod.TK1_, input_tasks={mod.TK0_: 1}, base_dir=bd).value
        second = create_test_task(mod.TK1_, input_tasks={mod.TK0_: 2}, base_dir=bd).value
        ctx.case({'witness': 'K4'})
        if second['i'] != [['src', 2]]:
            ctx.fail('K4 witness', {'witness': 'K4'}, {'first': first, 'second': second}, known='K4')
        else:
            ctx.notes['K4'] = 'witness passes: finding K4 appears repaired'
    finally:
        b.cleanup_module()


def opaque_mock_probe(ctx, root):
    """a mock value is handed to the task as it is — also when it is a callable, a class or a generator factory (values that a
    real upstream task can legitimately return); implementation-only clause (such values are not JSON)"""
    from taskchain import Task, InMemoryData
    from taskchain.utils.testing import create_test_task, TestChain

    class Up(Task):
        class Meta:
            data_class = InMemoryData

        def run(self) -> object:
            return len

    class Down(Task):
        class Meta:
            input_tasks = [Up]
            data_class = InMemoryData

        def run(self, up) -> object:
            return {'same': up}

    calls = []

    def fn(*a):
        calls.append(a); return 'CALLED'
    shared_list = [1, {'k': [2]}]         # (a mutable value: the task receives THE object that was supplied, as it would from a real upstream task)
    for k, mock in enumerate([fn, dict, (lambda: 5), shared_list]):
        case = {'probe': 'opaque mock value', 'kind': ['function', 'class', 'lambda', 'mutable list'][k]}
        ctx.case(case); ctx.count('opaque-mock-probe')
        for via in ('create_test_task', 'TestChain'):
            if via == 'create_test_task':
                t = create_test_task(Down, input_tasks={Up: mock}, base_dir=root / f'opq{k}a')
            else:
                t = TestChain([Down], mock_tasks={Up: mock}, base_dir=root / f'opq{k}b')['down']
            got = t.value['same']
            if got is not mock or calls:
                ctx.fail('a mocked task did not return the supplied value (the helper called or replaced it)', case,
                         {'via': via, 'got': repr(got)[:80], 'mock_was_called': bool(calls)})
                calls.clear()


def force_probe(ctx, root):
    """"yields exactly the value the same task yields in a real chain", also after forcing: a TestChain is a chain — forcing the mocked
    upstream task (`recompute` or not, persisting or in-memory dependants) recomputes the dependants from the mock value, as the real
    chain recomputes them from the real upstream value; the mock itself is never run or stored"""
    from taskchain import Task, Config, InMemoryData, Parameter
    from taskchain.utils.testing import TestChain, MockTask
    runs = []

    class FpUp(Task):
        def run(self) -> list:
            runs.append('up'); return [3, 1, 2]

    class FpMid(Task):
        class Meta:
            input_tasks = [FpUp]
            parameters = [Parameter('rev', default=False)]

        def run(self, fp_up, rev) -> list:
            runs.append('mid'); return sorted(fp_up, reverse=rev)

    class FpTopMem(Task):
        class Meta:
            input_tasks = [FpMid]
            data_class = InMemoryData

        def run(self, fp_mid) -> dict:
            runs.append('top'); return {'first': fp_mid[0]}
    import itertools
    for k, (target, recompute, delete, rev) in enumerate(itertools.product(['fp_up', 'fp_mid'], [True, False], [False, True], [False, True])):
        case = {'probe': 'force through a TestChain', 'target': target, 'recompute': recompute, 'delete_data': delete, 'rev': rev}
        ctx.case(case); ctx.count('force-probe')
        real = Config(root / f'fpr{k}', name='cfg', data={'tasks': [FpUp, FpMid, FpTopMem], 'rev': rev}).chain()
        exp0 = real['fp_top_mem'].value
        real.force(target, recompute=recompute, delete_data=delete)
        exp1, exp_mid = real['fp_top_mem'].value, real['fp_mid'].value
        runs.clear()
        mock_ran = []
        orig = MockTask.run
        MockTask.run = lambda self, *a: mock_ran.append(1) or orig(self, *a)
        try:
            tc = TestChain([FpMid, FpTopMem], mock_tasks={FpUp: [3, 1, 2]}, parameters={'rev': rev}, base_dir=root / f'fph{k}')
            got0 = tc['fp_top_mem'].value
            try:
                tc.force(target, recompute=recompute, delete_data=delete)
                got1, got_mid = tc['fp_top_mem'].value, tc['fp_mid'].value
            except Exception as e:      # noqa
                ctx.fail('forcing through a TestChain raised where the real chain recomputes', case, f'{type(e).__name__}: {e}'[:200]); continue
        finally:
            MockTask.run = orig
        if (got0, got1, got_mid) != (exp0, exp1, exp_mid):
            ctx.fail('a TestChain yields other values than the real chain after forcing', case, {'helper': [got0, got1, got_mid], 'real': [exp0, exp1, exp_mid]})
        if mock_ran or 'up' in runs:
            ctx.fail('a mocked task was run', case, {'runs': list(runs)})
        if runs.count('mid') != 2 or runs.count('top') != 2:
            ctx.fail('forcing through a TestChain did not recompute the dependants exactly once', case, {'runs': list(runs)})


def search(ctx, divergences):
    run(ctx)


def sanity(ctx):
    from tcv.core import BrokenCheck
    c = ctx.counts
    tot = sum(v for k, v in c.items() if k.startswith('scenario:'))
    if tot < 20 or c.get('construction-error', 0) < 0.05 * tot or c.get('falsy-mock', 0) < 0.1 * tot or c.get('pulled-input', 0) < 0.05 * tot:
        raise BrokenCheck(f'generator distribution collapsed: {c}')
    if c.get('mocks:0', 0) > 0.6 * tot or c.get('scenario:reuse', 0) < 5:
        raise BrokenCheck(f'generator distribution collapsed: {c}')
