"""C20 — migration to parameter mode carries every result over unchanged.

Generated file-based pipelines (1-6 task classes with groups, parameters, inputs, mounted directly or through `uses … as ns`,
optionally with placeholders) over all storable data kinds are computed *partially* in name mode; then
`migrate_to_parameter_mode` is run as {dry, real, real twice, dry then real, real onto a target that already holds natively
computed results, real onto a target with a foreign file}.  Source and target trees are check-summed before and after every
invocation and compared with the Lean model `TCV.Migrate.migrate`; the parameter-mode chain on the target is then asked for
`has_data` and for the values (provenance terms) with the run log watching."""
import contextlib
import hashlib
import io
import os
import shutil
from pathlib import Path

import copy
from tcv import gen, pipeline as pl
from tcv.quiet import quiet

RULE = ('seeded pipelines from tcv.gen.gen_key_spec(mode=name): 1-6 classes, groups, by-class/by-name/optional inputs, run arguments '
        'or pulled inputs, data kinds json/numpy/pandas/generated/listnp/dir/continues/memory, one config file or `uses` with a '
        'namespace, optional global_vars; a random subset of tasks requested in name mode (so a dependency-closed subset has results); '
        'scenario in {dry, real, twice, dry-real, pre-populated target, foreign file in target}, verbose on/off; compared with the '
        'Lean model: result files (location, size, digest) and directories of source and target after every invocation, error or '
        'success; oracle on the real code: source results byte-identical, target results = exactly the computed persisting tasks, '
        'values equal, nothing run, second run changes nothing, dry run writes no file; distinct = distinct (pipeline, subset, '
        'scenario); non-trivial = at least one result to migrate')
ASSUMPTIONS = ['locations of the tasks in both chains (task directory, <config name> / <key> file names, data kind) are extracted from the '
               'real chains and are inputs of the model (their derivation is C12/C02/C03 business)',
               'shutil.copyfile/copytree copy contents faithfully; st_size is what the size assertion compares',
               'the configuration is file-based (also a part of a multi-part file or with a namespace argument: regression cases of F14); no leftover <name>_tmp directories with contents in the source']
TRUSTED = ['modelled, not verified: shutil, pathlib.stat, math.isclose on sizes, the data classes\' exists()/init_persistence()']

KINDS20 = ['json', 'json', 'numpy', 'pandas', 'generated', 'genempty', 'listnp', 'dir', 'dirlink', 'continues', 'memory']
SCENARIOS = ['dry', 'real', 'real', 'twice', 'twice', 'dry-real', 'pre', 'foreign']


def digest_path(p):
    h = hashlib.sha256()
    if p.is_file():
        h.update(p.read_bytes())
    else:
        for q in sorted(p.rglob('*')):
            h.update(str(q.relative_to(p)).encode() + b'\0')
            if q.is_file():
                h.update(q.read_bytes())
            h.update(b'\1')
    return h.hexdigest()[:16]


def snapshot(root, result_locs):
    """-> (files {rel: (size, digest)} for result locations that exist, dirs [rel] outside results, stray files [rel])"""
    files, dirs, stray = {}, set(), {}
    if not root.exists():
        return files, dirs, stray
    for loc in result_locs:
        p = root / loc
        if p.exists():
            files[loc] = (p.stat().st_size, digest_path(p))
    for dp, dn, fn in os.walk(root):
        rel = os.path.relpath(dp, root)
        rel = '' if rel == '.' else rel
        if any(rel == l or rel.startswith(l + '/') for l in files):
            dn[:] = []
            continue
        if rel:
            dirs.add(rel)
        for f in fn:
            r = f'{rel}/{f}' if rel else f
            if r not in files:
                stray[r] = hashlib.sha256((Path(dp) / f).read_bytes()).hexdigest()[:16]
    return files, dirs, stray


def closure(dirs):
    out = set()
    for d in dirs:
        parts = d.split('/')
        for i in range(1, len(parts) + 1):
            out.add('/'.join(parts[:i]))
    return out


def loc_of(task, kinds):
    """location of a task's result relative to its data directory, without touching the file system"""
    kind = kinds[task.__class__.__name__]
    ext = pl.KINDS[kind][1]
    return task.slugname.replace(':', '/') + '/' + task.name_for_persistence + (f'.{ext}' if ext else ''), kind


def tree_json(files, dirs):
    return {'files': [[l, s, d] for l, (s, d) in sorted(files.items())], 'dirs': sorted(dirs)}


def run_case(ctx, i, root, reqs, metas):
    from taskchain.data import InMemoryData
    from taskchain.utils.migration import migrate_to_parameter_mode
    rng = ctx.rng('case', i)
    spec = gen.gen_key_spec(rng, alphabet=gen.SAFE, keys=gen.SAFE, kinds=KINDS20, mode='name')
    scenario = rng.choice(SCENARIOS)
    pfile = spec['files'].get('p.json', spec['files']['main.json'])
    if rng.random() < 0.5:
        # declaration order is not dependency order
        rng.shuffle(pfile['tasks'])
    if 'p.json' in spec['files'] and ' as ' in spec['files']['main.json']['uses'][0] and rng.random() < 0.4:
        # the same task classes a second time, from another config file with other values, under another namespace
        q = copy.deepcopy(pfile)
        for k in [k for k in q if k not in ('tasks', 'uses')]:
            if rng.random() < 0.6:
                q[k] = gen.gen_value(rng, 1, 2, gen.SAFE, gen.SAFE) if not isinstance(q[k], str) or not q[k].startswith('{') else q[k]
        path_keys = {p_.get('nic') or p_['name'] for c in spec['classes'].values() for p_ in c['params'] if p_.get('dtype') == 'path'}
        for k in path_keys & set(q):
            q[k] = pfile[k]
        spec['files']['q.json'] = q
        spec['files']['main.json']['uses'].append('@cfg/q.json as ' + rng.choice(['second', 'n2::x']))
    if rng.random() < 0.3:
        # one large parameter value, so that some result files exceed one copy buffer / one page
        cands = [k for k in pfile if k not in ('tasks', 'uses') and isinstance(pfile[k], (str, list))]
        if cands:
            k = rng.choice(cands)
            pfile[k] = 'big-' + 'xy' * rng.choice([2100, 40000]) if isinstance(pfile[k], str) else list(pfile[k]) + ['z' * 9000]
    if rng.random() < 0.35:
        # a dict context that overrides one configured value (the migration has to hand the context on to the new chain)
        pfile = spec['files'].get('p.json', spec['files']['main.json'])
        cands = [k for k in pfile if k not in ('tasks', 'uses')]
        if cands:
            spec['context'] = {rng.choice(cands): gen.gen_value(rng, 1, 3, gen.SAFE, gen.SAFE), 'unused_ctx': 1}
    if rng.random() < 0.3:
        # the config is given an explicit name (`Config(dir, file, name=…)`): in name mode that name, not the file's, is the storage key
        spec['config_name'] = rng.choice(['experiment_1', 'exp.v2', 'main'])
    verbose = rng.random() < 0.5
    base = root / f'c{i}'
    b = pl.materialize(spec, base / 'mod', modname=spec['module'])
    try:
        mod = b.module()
        src_dir, tgt_dir = base / 'src', base / 'tgt'
        try:
            cfg = pl.make_config(b, src_dir)
            old = cfg.chain(parameter_mode=False)
            new = pl.make_config(b, tgt_dir).chain()
        except (ValueError, KeyError, TypeError, AssertionError, AttributeError, RecursionError) as e:
            ctx.count('outside-domain:' + pl.error_kind(e))
            return
        kinds = {pl.pyname(cid): c['kind'] for cid, c in spec['classes'].items()}
        names = list(old.tasks)
        if set(names) != set(new.tasks):
            ctx.fail('name-mode and parameter-mode chains of one config have different tasks', {'spec': spec}, [names, list(new.tasks)])
            return
        # ---- compute a subset in name mode
        want = [n for n in names if rng.random() < rng.choice([0.0, 0.3, 0.6, 1.0])]
        originals = {}
        mod.RUNLOG.clear()
        for n in want:
            try:
                old.tasks[n].value
            except Exception as e:      # noqa
                ctx.count('outside-domain:run-failed')
                return
        computed = {fn for fn, *_ in mod.RUNLOG}
        tasks = []
        for n in names:
            t, tn = old.tasks[n], new.tasks[n]
            oloc, kind = loc_of(t, kinds)
            nloc, _ = loc_of(tn, kinds)
            persist = not issubclass(t.data_class, InMemoryData)
            tasks.append({'name': n, 'persist': persist, 'has_tmp': kind in ('dir', 'dirlink', 'continues'), 'is_pd': nloc.endswith('.pd'),
                          'dir': t.slugname.replace(':', '/'), 'old': oloc, 'new': nloc, 'kind': kind})
            if n in computed and persist:
                originals[n] = mod.unwrap(kind, old.tasks[n].value) if kind != 'generated' else mod.unwrap(kind, pl_fresh_value(b, src_dir, n))
        olocs = [t['old'] for t in tasks if t['persist']]
        nlocs = [t['new'] for t in tasks if t['persist']]
        # ---- scenario preparation on the target
        pre_native = set()
        if scenario == 'pre':
            pc = pl.make_config(b, tgt_dir).chain()
            for n in names:
                if rng.random() < 0.4:
                    pc.tasks[n].value
            pre_native = {t['name'] for t in tasks if t['persist'] and (tgt_dir / t['new']).exists()}
        foreign = None
        if scenario == 'foreign':
            cands = [t for t in tasks if t['persist'] and t['name'] in computed and t['kind'] in ('json', 'numpy', 'generated')]
            if cands:
                foreign = rng.choice(cands)
                p = tgt_dir / foreign['new']
                p.parent.mkdir(parents=True, exist_ok=True)
                p.write_bytes(b'f' * ((src_dir / foreign['old']).stat().st_size + 13))     # never the size of the source result
        # the work directory of an UNFINISHED resumable run in the source (partial progress of a ContinuesData task that was never finished):
        # part of the source like everything else
        for t in tasks:
            if t['persist'] and t.get('has_tmp') and t['name'] not in computed and rng.random() < 0.6:
                wd = src_dir / (t['old'] + '_tmp')
                if wd.exists() or kinds.get(old.tasks[t['name']].__class__.__name__) == 'continues':
                    wd.mkdir(parents=True, exist_ok=True)
                    (wd / 'progress.bin').write_bytes(b'half way')
                    ctx.count('source:unfinished-work-directory')
        runs = {'dry': [True], 'real': [False], 'twice': [False, False], 'dry-real': [True, False], 'pre': [False], 'foreign': [False]}[scenario]
        case = {'spec': {k: spec.get(k) for k in ('classes', 'files', 'global_vars', 'context')}, 'computed': sorted(computed), 'scenario': scenario,
                'verbose': verbose, 'foreign': foreign and foreign['name']}
        s0 = snapshot(src_dir, olocs)
        t0 = snapshot(tgt_dir, nlocs)
        impl_runs, snaps = [], []
        for dry in runs:
            try:
                with contextlib.redirect_stdout(io.StringIO()):
                    migrate_to_parameter_mode(pl.make_config(b, src_dir), tgt_dir, dry=dry, verbose=verbose)
            except AssertionError:
                impl_runs.append({'ok': False, 'err': 'size_mismatch'})
                snaps.append((snapshot(src_dir, olocs), snapshot(tgt_dir, nlocs)))
                break
            except Exception as e:      # noqa
                impl_runs.append({'ok': False, 'err': f'{type(e).__name__}: {e}'[:200]})
                snaps.append((snapshot(src_dir, olocs), snapshot(tgt_dir, nlocs)))
                break
            s1, t1 = snapshot(src_dir, olocs), snapshot(tgt_dir, nlocs)
            snaps.append((s1, t1))
            impl_runs.append({'ok': True, 'src': tree_json(s1[0], s1[1]), 'tgt': tree_json(t1[0], t1[1])})
        n_results = len(s0[0])
        ctx.case(case, nontrivial=n_results > 0)
        ctx.count(f'scenario:{scenario}'); ctx.count('context' if spec.get('context') else 'no-context'); ctx.count('named-config' if spec.get('config_name') else 'file-named-config'); ctx.count(f'results:{min(n_results, 3)}{"+" if n_results >= 3 else ""}')
        for t in tasks:
            if t['name'] in computed and t['persist']:
                ctx.count('kind:' + t['kind'])
        reqs.append({'m': 'migrate', 'op': 'migrate', 'runs': runs, 'tasks': tasks, 'src': tree_json(s0[0], s0[1]), 'tgt': tree_json(t0[0], t0[1])})
        metas.append((case, impl_runs))
        # ---------------------------------------------------------------- oracle on the real code
        sN, tN = snaps[-1]
        # source: results and any other file byte-identical, nothing removed
        if sN[0] != s0[0] or sN[2] != s0[2]:
            ctx.fail('migration changed files of the source directory', case, {'before': [s0[0], s0[2]], 'after': [sN[0], sN[2]]})
        if not s0[1] <= sN[1]:
            ctx.fail('migration removed directories of the source directory', case, sorted(s0[1] - sN[1]))
        new_dirs = sN[1] - s0[1]
        if new_dirs:
            nonempty = [d for d in new_dirs if any((src_dir / d).rglob('*')) and not any(x.startswith(d + '/') for x in new_dirs)]
            stray_in_new = [f for f in sN[2] if any(f.startswith(d + '/') for d in new_dirs)]
            if stray_in_new:
                ctx.fail('migration created files in the source directory', case, stray_in_new)
            else:
                ctx.count('k5')
                ctx.fail('migration created empty directories in the source directory', case, sorted(new_dirs), known='K5')
        ok_all = all(r['ok'] for r in impl_runs)
        if scenario == 'dry' and (tN[0] or tN[2]):
            ctx.fail('a dry run wrote files into the target', case, [tN[0], tN[2]])
        if scenario == 'dry-real' and (snaps[0][1][0] != t0[0] or snaps[0][1][2] != t0[2]):
            ctx.fail('a dry run wrote files into the target', case, snaps[0][1][0])
        if scenario == 'twice' and ok_all and (snaps[0][1][0] != snaps[1][1][0] or snaps[0][1][2] != snaps[1][1][2]):
            ctx.fail('a second migration changed the target', case, {'first': snaps[0][1][0], 'second': snaps[1][1][0]})
        if not ok_all and scenario != 'foreign':
            ctx.fail('migration raised', case, impl_runs[-1])
        if ok_all and not all(runs):
            # exactly the persisting tasks that had a result (plus what the target held before)
            chain = pl.make_config(b, tgt_dir).chain()
            migrated = {t['name'] for t in tasks if t['persist'] and t['name'] in computed}
            expect_has = migrated | pre_native
            has = {n for n in names if chain.tasks[n].has_data}
            # (judged by location: two names of one computation share one result — C02)
            newloc = {t['name']: t['new'] for t in tasks}
            if {newloc[n] for n in has if n in newloc} != {newloc[n] for n in expect_has if n in newloc}:
                ctx.fail('target results are not exactly those of the computed persisting tasks', case,
                         {'missing': sorted(expect_has - has), 'surplus': sorted(has - expect_has)})
            mod.RUNLOG.clear()
            for t in tasks:
                n = t['name']
                if n in migrated and n in has:
                    try:
                        v = mod.unwrap(t['kind'], chain.tasks[n].value)
                    except Exception as e:      # noqa
                        ctx.fail('migrated result cannot be loaded', case, {'task': n, 'error': f'{type(e).__name__}: {e}'[:200]})
                        break
                    if v != originals[n]:
                        ctx.fail('migrated result differs from the original', case, {'task': n, 'original': originals[n], 'migrated': v})
                        break
            ran = [fn for fn, *_ in mod.RUNLOG if fn in migrated]
            if ran:
                ctx.fail('parameter-mode chain ran a task whose result was migrated', case, ran)
    finally:
        b.cleanup_module()
        shutil.rmtree(base, ignore_errors=True)


def pl_fresh_value(b, data_dir, name):
    """value of a task loaded from the store by a fresh name-mode chain (generators are consumed by the first reader)"""
    return pl.make_config(b, data_dir).chain(parameter_mode=False).tasks[name].value


def run(ctx):
    quiet()
    root = ctx.tmpdir()
    reqs, metas = [], []
    for i in range(ctx.n(400, 4000)):
        run_case(ctx, i, root, reqs, metas)
    for (case, impl_runs), mo in zip(metas, ctx.model.many(reqs)):
        mruns = mo['runs']
        for r in mruns:     # the model records the directories created; the real mkdir(parents=True) also creates their ancestors
            if r['ok']:
                for side in ('src', 'tgt'):
                    r[side]['dirs'] = sorted(closure(r[side]['dirs']))
        for r in impl_runs:
            if r['ok']:
                for side in ('src', 'tgt'):
                    r[side]['dirs'] = sorted(closure(r[side]['dirs']))
        if impl_runs != mruns:
            ctx.diverge('migrate_to_parameter_mode', case, impl_runs, mruns)
    # the K5 witness: a never-computed directory-type task; a dry run must leave the source tree as it is
    witness(ctx, root)
    multipart_cases(ctx, ctx.n(12, 80), root)
    second_migration_probe(ctx, root)


WITNESS = {'classes': {'K0': {'name': 'wd', 'group': '', 'params': [], 'inputs': [], 'kind': 'dir', 'run_args': []}},
           'files': {'main.json': {'tasks': ['K0']}}, 'main': 'main.json', 'global_vars': None}


def witness(ctx, root):
    from taskchain.utils.migration import migrate_to_parameter_mode
    spec = dict(WITNESS, module=gen.fresh_modname())
    b = pl.materialize(spec, root / 'wit' / 'mod', modname=spec['module'])
    try:
        b.module()
        src = root / 'wit' / 'src'
        src.mkdir(parents=True)
        ctx.case({'witness': 'K5'})
        try:
            with contextlib.redirect_stdout(io.StringIO()):
                migrate_to_parameter_mode(pl.make_config(b, src), root / 'wit' / 'tgt', dry=True)
        except Exception as e:      # noqa
            ctx.fail('migration raised', {'witness': 'K5'}, f'{type(e).__name__}: {e}'[:200])
            return
        after = snapshot(src, [])
        if after[2]:
            ctx.fail('migration created files in the source directory', {'witness': 'K5'}, after[2])
        elif after[1]:
            ctx.fail('K5 witness', {'witness': 'K5'}, sorted(after[1]), known='K5')
        else:
            ctx.notes['K5'] = 'witness no longer creates directories in the source: finding K5 appears repaired'
    finally:
        b.cleanup_module()


MP_CLASSES = {
    'K0': {'name': 'first', 'group': 'g', 'params': [{'name': 'x'}], 'inputs': [], 'kind': 'json', 'run_args': ['x']},
    'K1': {'name': 'second', 'group': '', 'params': [{'name': 'y', 'default': 0}], 'inputs': [{'by': 'class', 'ref': 'K0'}], 'kind': 'dir',
           'run_args': ['first'], 'in_kinds': {'first': 'json'}},
}


def multipart_cases(ctx, n, root):
    """a config that is one part of a multi-part file (`file.json#part`), or carries a namespace argument: the migration has to
    rebuild *that* config on the target.  Oracle only (the pairing of the two chains is an input of the model)."""
    from taskchain.utils.migration import migrate_to_parameter_mode
    for i in range(n):
        rng = ctx.rng('multipart', i)
        how = rng.choice(['part-main', 'part-other', 'part-other', 'part-nomain', 'namespace'])
        xa, xb = rng.sample([1, 2, 'u', [1], None], 2)
        parts = {'a': {'tasks': ['K0', 'K1'], 'x': xa}, 'b': {'tasks': ['K0', 'K1'], 'x': xb, 'y': 5}}
        if how != 'part-nomain':
            parts['a']['main_part'] = True
        files = {'multi.json': {'configs': parts}} if how != 'namespace' else {'multi.json': parts['b']}
        main = {'part-main': 'multi.json#a', 'part-other': 'multi.json#b', 'part-nomain': 'multi.json#b', 'namespace': 'multi.json'}[how]
        ns = 'nsx' if how == 'namespace' else None
        spec = {'module': gen.fresh_modname(), 'classes': MP_CLASSES, 'files': files, 'main': main, 'global_vars': None}
        base = root / f'mp{i}'
        b = pl.materialize(spec, base / 'mod', modname=spec['module'])
        case = {'scenario': 'multipart', 'how': how, 'main': main, 'namespace': ns, 'x': [xa, xb]}
        known = None      # repaired (F14): ordinary regression cases
        try:
            mod = b.module()
            src, tgt = base / 'src', base / 'tgt'
            old = pl.make_config(b, src, namespace=ns).chain(parameter_mode=False)
            originals = {}
            for n_, t in old.tasks.items():
                originals[n_] = mod.unwrap(MP_CLASSES['K0' if 'first' in n_ else 'K1']['kind'], t.value)
            before = snapshot(src, [])
            ctx.case(case)
            ctx.count(f'multipart:{how}')
            try:
                with contextlib.redirect_stdout(io.StringIO()):
                    migrate_to_parameter_mode(pl.make_config(b, src, namespace=ns), tgt, dry=False, verbose=False)
            except Exception as e:      # noqa
                ctx.fail('migration of a part of a multi-part config / of a config with a namespace raised', case,
                         f'{type(e).__name__}: {e}'[:200], known=known)
                continue
            after = snapshot(src, [])
            if before[2] != after[2]:
                ctx.fail('migration changed files of the source directory', case, [before[2], after[2]])
            new = pl.make_config(b, tgt, namespace=ns).chain()
            mod.RUNLOG.clear()
            bad = None
            for n_, t in new.tasks.items():
                if not t.has_data:
                    bad = {'task': n_, 'what': 'no result in the target'}
                    break
                try:
                    v = mod.unwrap(MP_CLASSES['K0' if 'first' in n_ else 'K1']['kind'], t.value)
                except Exception as e:      # noqa
                    bad = {'task': n_, 'what': 'migrated result cannot be loaded', 'error': f'{type(e).__name__}: {e}'[:200]}
                    break
                if v != originals[n_]:
                    bad = {'task': n_, 'what': 'value differs', 'original': originals[n_], 'migrated': v}
                    break
            if bad is None and mod.RUNLOG:
                bad = {'what': 'tasks ran', 'ran': list(mod.RUNLOG)}
            # the other part was never computed: its parameter-mode chain must not find a result
            if bad is None and how.startswith('part-'):
                other = 'multi.json#' + ('b' if main.endswith('a') else 'a')
                oc = pl.make_config(b, tgt, main=other).chain()
                got = [n_ for n_, t in oc.tasks.items() if t.has_data]
                if got:
                    bad = {'what': 'a part that was never computed finds results in the target', 'part': other, 'tasks': got}
            if bad:
                ctx.fail('migrated part / namespaced config: target does not hold exactly its results', case, bad, known=known)
        finally:
            b.cleanup_module()
            shutil.rmtree(base, ignore_errors=True)


def second_migration_probe(ctx, root):
    """"a second migration changes nothing" — also when the target no longer holds the copy the first migration made: the parameter-mode
    chain has since written its own result for a task (the same value, stored in another layout: another size), or the user has put a file
    there.  Whatever the second call does (it may refuse), every file of the target is byte-identical afterwards."""
    import json as _json
    from taskchain.utils.migration import migrate_to_parameter_mode
    for k in range(ctx.n(6, 40)):
        rng = ctx.rng('second-migration', k)
        x = gen.gen_value(rng, 1, 2, gen.SAFE, gen.SAFE)
        spec = {'classes': {'K0': {'name': 'up', 'group': rng.choice(['', 'g']), 'params': [{'name': 'x'}], 'inputs': [], 'kind': 'json', 'run_args': ['x']},
                            'K1': {'name': 'down', 'group': '', 'params': [{'name': 'y', 'default': 1}], 'inputs': [{'by': 'class', 'ref': 'K0'}],
                                   'kind': rng.choice(['json', 'dir']), 'run_args': ['y'], 'pull': [], 'in_kinds': {}}},
                'files': {'main.json': {'tasks': ['K0', 'K1'], 'x': x}}, 'main': 'main.json', 'module': gen.fresh_modname()}
        base = root / f'sm{k}'
        b = pl.materialize(spec, base / 'mod', modname=spec['module'])
        b.module()
        src_dir, tgt_dir = base / 'src', base / 'tgt'
        old = pl.make_config(b, src_dir).chain(parameter_mode=False)
        for t in old.tasks.values():
            _ = t.value
        case = {'probe': 'second migration after the target changed', 'x': x, 'kinds': [c['kind'] for c in spec['classes'].values()]}
        ctx.case(case, nontrivial=True); ctx.count('second-migration-probe')
        with contextlib.redirect_stdout(io.StringIO()):
            migrate_to_parameter_mode(pl.make_config(b, src_dir), tgt_dir, dry=False, verbose=False)
        new = pl.make_config(b, tgt_dir).chain()
        f = new.tasks['up' if not spec['classes']['K0']['group'] else 'g:up'].data_path
        # the same value in the compact layout: what another writer of the same result may leave (other size, equal content)
        f.write_text(_json.dumps(_json.loads(f.read_text())))
        before = {str(p_.relative_to(tgt_dir)): p_.read_bytes() for p_ in sorted(tgt_dir.rglob('*')) if p_.is_file()}
        try:
            with contextlib.redirect_stdout(io.StringIO()):
                migrate_to_parameter_mode(pl.make_config(b, src_dir), tgt_dir, dry=False, verbose=False)
            outcome = 'returned'
        except AssertionError:
            outcome = 'refused (size mismatch)'
        except Exception as e:      # noqa
            outcome = f'{type(e).__name__}: {e}'[:120]
        ctx.count('second-migration:' + outcome.split(':')[0])
        after = {str(p_.relative_to(tgt_dir)): p_.read_bytes() for p_ in sorted(tgt_dir.rglob('*')) if p_.is_file()}
        if before != after:
            changed = sorted(k_ for k_ in set(before) | set(after) if before.get(k_) != after.get(k_))
            ctx.fail('a second migration changed the target', case, {'outcome': outcome, 'changed_files': changed[:5]})
        b.cleanup_module()


def search(ctx, divergences):
    run(ctx)


def sanity(ctx):
    from tcv.core import BrokenCheck
    c = ctx.counts
    tot = sum(v for k, v in c.items() if k.startswith('scenario:'))
    if tot < 20 or any(c.get(f'scenario:{s}', 0) == 0 for s in set(SCENARIOS)):
        raise BrokenCheck(f'generator distribution collapsed: {c}')
    if c.get('results:0', 0) > 0.5 * tot or sum(1 for k in c if k.startswith('kind:')) < 5:
        raise BrokenCheck(f'generator distribution collapsed: {c}')
