"""C11 — placeholders are substituted everywhere, once, and nothing else changes.

Strings from a brace grammar (literal runs incl. quotes/backslash/unicode, defined / undefined placeholders, `{}`, `{{A}}`,
`{A}}`, unbalanced braces, adjacent and repeated placeholders, braces spanning a newline) are placed in nested JSON-like
structures; `global_vars` is a dict or an object with class/instance attributes and a property; replacement values of all
printable kinds (falsy ones, values that themselves contain placeholders, newlines, Paths).  The real code is driven through
`search_and_replace_placeholders`, through `Config(data=…, context=…, global_vars=…)` including object definitions, through
`Parameter.value/value_repr`, through real chains (keys, deep-copied configs) and through `uses` paths in config and context
files.  Every result is compared with the Lean model (`TCV.Subst`) and, independently, with a regex-free reference."""
import ast
import copy
import json
import sys
import types
from pathlib import Path

from tcv import gen, pipeline as pl
from tcv.quiet import quiet

RULE = ('seeded (structure, global_vars) pairs: strings = 0-6 pieces of a brace grammar (literal runs over a 24-character alphabet '
        'with quotes, backslash, tab, non-ASCII; {DEFINED}; {UNDEFINED}; {}; {{A}}; {A}}; unbalanced {A / A}; newline; {A\\n}; '
        '{x{A}; {A}}}{A}; { A }; bare brace pairs) in lists/dicts of depth <= 5 with atoms, pre-substituted ReprStr leaves, '
        'parameter objects, placeholder-looking keys; global_vars as dict (any names) or object (class attributes, instance '
        'attributes, a property, __doc__/__module__); values str/int/float/bool/None/Path incl. falsy ones and values containing '
        'placeholders, braces, newlines; routes: search_and_replace_placeholders, Config(data, context, for_namespaces, object '
        'definitions), Parameter (no dtype / str / Path), real chains (keys under two value assignments, deepcopy(config)), '
        '`uses` paths of config and context files; compared with the Lean model (text, repr source and type tag of every leaf, '
        'second application under another global_vars, deepcopy, object-definition text, value_repr, keys) and with a regex-free '
        'reference; distinct = distinct (structure, global_vars, route); non-trivial = at least one brace in some string')
ASSUMPTIONS = ['re.subn for the single pattern {(.*?)} is modelled by a one-pass scanner (justified in TCV/Model/Subst.lean, tied by this check)',
               'global_vars is a lookup name -> str(value): dict membership or hasattr; values with a deterministic str()',
               'config data is JSON-like (lists, dicts with str keys); tuples/sets inside config data make the code raise (outside the domain)',
               'copy.copy / copy.deepcopy dispatch to __copy__ / __deepcopy__ (CPython copy module)']
TRUSTED = ['modelled, not verified: CPython re, str(), repr() of str, copy module dispatch, import_by_string']

LIT = list('ab/._- 12') + ["'", '"', '\\', 'é', '😀', '\t', ':', '$', '#', ',', '[', ']', '\xa0', 'Ω', '=']
DEF_NAMES = ['A', 'B', 'DIR', 'N', 'x_1', 'Z0', 'é']          # identifiers: usable as attributes too
ODD_NAMES = ['', ' ', 'a b', '{A', 'A{', '0', 'x.y', "q'", 'A B', '{']   # definable in a dict only
UNDEF = ['U', 'UNDEF', 'a', 'AA', 'A ', ' A', 'Á', 'n']
DUNDER = ['__doc__', '__module__']
KEYS = ['k', 'a', 'b', 'path', 'x y', '{A}', 'p{B}', 'é', "q'k", 'deep', 'n1', 'z']


# ------------------------------------------------------------------------------------------- reference (regex-free)

def ref_subst(s, lookup):
    """the definition of re.subn(r'{(.*?)}', …) spelt out position by position: at each start position the attempt needs `{`,
    then the shortest run of non-newline characters followed by `}`; on failure the character is literal and the next position
    is tried; after a match the scan resumes behind it and the replacement is not rescanned.  -> (text, number of matches)"""
    out, i, n, cnt = [], 0, len(s), 0
    while i < n:
        m = None
        if s[i] == '{':
            j = i + 1
            while j < n and s[j] != '\n':
                if s[j] == '}':
                    m = j
                    break
                j += 1
        if m is None:
            out.append(s[i]); i += 1
            continue
        name = s[i + 1:m]
        v = lookup(name)
        out.append('{' + name + '}' if v is None else v)
        cnt += 1
        i = m + 1
    return ''.join(out), cnt


def ref_names(s):
    acc = []
    ref_subst(s, lambda n: acc.append(n))
    return acc


def ref_tree(t, lookup):
    """reference result on a tagged tree"""
    if 's' in t:
        new, cnt = ref_subst(t['s'], lookup)
        return {'r': [new, t['s']]} if cnt else t
    if 'l' in t:
        return {'l': [ref_tree(x, lookup) for x in t['l']]}
    if 'd' in t:
        return {'d': [[k, ref_tree(v, lookup)] for k, v in t['d']]}
    return t


# ------------------------------------------------------------------------------------------- observation of real values

def tag(x):
    """python value -> tagged tree: text, repr source and type tag of every leaf"""
    from taskchain.utils.data import ReprStr
    if isinstance(x, ReprStr):
        try:
            src = ast.literal_eval(repr(x))
            if not isinstance(src, str):
                src = {'badrepr': repr(x)}
        except Exception:
            src = {'badrepr': repr(x)}
        return {'r': [str.__str__(x), src]}
    if type(x) is str:
        return {'s': x}
    if x is None or type(x) in (bool, int, float):
        return {'a': repr(x)}
    if type(x) is list:
        return {'l': [tag(y) for y in x]}
    if isinstance(x, dict):
        return {'d': [[k, tag(v)] for k, v in x.items()]}
    if hasattr(x, '_taskchain_instantiate_repr'):
        return {'o': x._taskchain_instantiate_repr}
    if hasattr(x, 'repr') and callable(x.repr):
        return {'o': x.repr()}
    return {'o': f'<{type(x).__name__}>'}


def untag(t, mk):
    """tagged tree -> fresh python value (`mk` builds ReprStr / objects)"""
    if 's' in t:
        return t['s']
    if 'a' in t:
        return ast.literal_eval(t['a'])
    if 'r' in t:
        return mk('r', t['r'])
    if 'l' in t:
        return [untag(x, mk) for x in t['l']]
    if 'd' in t:
        return {k: untag(v, mk) for k, v in t['d']}
    return mk('o', t['o'])


def leaves(t, acc=None):
    acc = [] if acc is None else acc
    if 's' in t or 'r' in t:
        acc.append(t)
    elif 'l' in t:
        for x in t['l']:
            leaves(x, acc)
    elif 'd' in t:
        for _, v in t['d']:
            leaves(v, acc)
    return acc


def py_leaves(x, acc=None):
    acc = [] if acc is None else acc
    if isinstance(x, str):
        acc.append(x)
    elif type(x) is list:
        for y in x:
            py_leaves(y, acc)
    elif isinstance(x, dict):
        for y in x.values():
            py_leaves(y, acc)
    return acc


def strip_text(t):
    """the tree with the substituted texts blanked: what must not depend on the values in global_vars"""
    if 'r' in t:
        return {'r': [None, t['r'][1]]}
    if 'l' in t:
        return {'l': [strip_text(x) for x in t['l']]}
    if 'd' in t:
        return {'d': [[k, strip_text(v)] for k, v in t['d']]}
    return t


# ------------------------------------------------------------------------------------------- generators

def gen_lit(rng, maxlen=5):
    return ''.join(rng.choice(LIT) for _ in range(rng.randint(1, maxlen)))


def gen_string(rng, names):
    parts = []
    for _ in range(rng.choice([0, 1, 1, 2, 2, 3, 3, 4, 6])):
        r = rng.random()
        nm = rng.choice(names)
        if r < 0.26:
            parts.append(gen_lit(rng))
        elif r < 0.52:
            parts.append('{' + nm + '}')
        elif r < 0.57:
            parts.append('{}')
        elif r < 0.63:
            parts.append('{{' + nm + '}}')
        elif r < 0.67:
            parts.append('{' + nm + '}}')
        elif r < 0.71:
            parts.append('{' + nm)
        elif r < 0.75:
            parts.append(nm + '}')
        elif r < 0.80:
            parts.append('\n')
        elif r < 0.84:
            parts.append('{' + nm + '\n}')
        elif r < 0.88:
            parts.append('{' + gen_lit(rng, 2) + '{' + nm + '}')
        elif r < 0.92:
            parts.append('{' + nm + '}' + '{' + nm + '}' + rng.choice(['', '}', '{']) + '{' + rng.choice(names) + '}')
        elif r < 0.95:
            parts.append('{ ' + nm + ' }')
        else:
            parts.append(rng.choice(['{', '}', '{{', '}}', '}{', '{}{}']))
    return ''.join(parts)


GV_VALUES = ['v', '/data/x', '', 0, 1, -3, 1.5, None, True, False, Path('/p/q'), 'in {B} side', '{A}', '{', '}', 'two\nlines',
             "q'uote", 'é😀', 1e22, 10 ** 20, 'x y', '{UNDEF}', '\\', '"']


class GVBase:
    __module__ = 'gvmod'


def gen_gv(rng):
    """-> (global_vars, env pairs [[name, str(value)]], kind)"""
    kind = rng.choice(['dict', 'dict', 'object', 'object', 'dictsub', 'defaultdict', 'getattr-object'])
    k = rng.choice([0, 1, 2, 2, 3, 4, 5])
    names = rng.sample(DEF_NAMES, min(k, len(DEF_NAMES)))
    if kind != 'object' and rng.random() < 0.4:
        names += rng.sample(ODD_NAMES, rng.randint(1, 3))
    vals = {n: rng.choice(GV_VALUES) for n in names}
    if kind == 'dict':
        gv = dict(vals)
    elif kind == 'dictsub':
        gv = type('GVDict', (dict,), {})(vals)
    elif kind == 'getattr-object':
        # a settings object that serves its names through `__getattr__` (nothing in `dir()`): defined is what `hasattr` says
        class Served:
            def __init__(self, vals_):
                object.__setattr__(self, '_vals', dict(vals_))

            def __getattr__(self, n):
                try:
                    return object.__getattribute__(self, '_vals')[n]
                except KeyError:
                    raise AttributeError(n)
        Served.__module__ = 'gvmod'
        gv = Served({n: v for n, v in vals.items() if n.isidentifier()})
        vals = {n: v for n, v in vals.items() if n.isidentifier()}
    elif kind == 'defaultdict':
        # a mapping with a `__missing__` hook: a name it does not CONTAIN is undefined all the same (and looking must not add it)
        import collections
        gv = collections.defaultdict(str, vals)
    else:
        names_ = list(vals)
        cls_attrs = {n: vals[n] for n in names_[::3]}
        prop = names_[1::3][:1]
        for n in prop:
            cls_attrs[n] = property(lambda self, _v=vals[n]: _v)
        cls = type('GVObj', (GVBase,), cls_attrs)
        cls.__module__ = 'gvmod'
        gv = cls()
        for n in names_:
            if n not in cls_attrs:
                setattr(gv, n, vals[n])
    env = [[n, str(v)] for n, v in vals.items()]
    if kind in ('object', 'getattr-object'):
        env += [['__doc__', 'None'], ['__module__', 'gvmod']]
    # (for every consumer a `getattr-object` is an object: names are attributes)
    return gv, env, 'object' if kind == 'getattr-object' else kind


def alt_gv(rng, gv, env, kind):
    """global_vars defining the same names with other values (for the 'representation ignores the values' clause)"""
    names = [n for n, _ in env if n not in DUNDER]
    vals = {n: rng.choice(['alt', 7, '/other', 'z{B}', '']) for n in names}
    if kind == 'object':
        cls = type('GVObj', (GVBase,), {})
        cls.__module__ = 'gvmod'
        g = cls()
        for n, v in vals.items():
            setattr(g, n, v)
    else:
        g = dict(vals)
    e = [[n, str(v)] for n, v in vals.items()] + ([['__doc__', 'None'], ['__module__', 'gvmod']] if kind == 'object' else [])
    return g, e


def name_pool(rng, env, kind):
    defined = [n for n, _ in env]
    pool = defined * 3 + UNDEF + rng.sample(DEF_NAMES, 2) + rng.sample(ODD_NAMES, 2) + ([rng.choice(DUNDER)] if rng.random() < 0.3 else [])
    return pool


def gen_tree(rng, names, depth=0, maxdepth=5, objs=True):
    """tagged tree"""
    r = rng.random()
    if depth >= maxdepth or r < 0.42:
        k = rng.random()
        if k < 0.62:
            return {'s': gen_string(rng, names)}
        if k < 0.84:
            return {'a': repr(rng.choice([None, True, False, 0, 1, -7, 1.5, 10 ** 20, 0.0, 5e-324]))}
        if k < 0.90:
            return {'r': [gen_lit(rng), gen_string(rng, names)]}
        if k < 0.95 and objs:
            return {'o': 'PO(' + gen_lit(rng, 3).replace("'", '') + ')'}
        return rng.choice([{'l': []}, {'d': []}])
    if r < 0.70:
        return {'l': [gen_tree(rng, names, depth + 1, maxdepth, objs) for _ in range(rng.randint(0, 4))]}
    ks = rng.sample(KEYS, rng.randint(0, 4))
    return {'d': [[k, gen_tree(rng, names, depth + 1, maxdepth, objs)] for k in ks]}


OBJMOD = 'tcvc11objs'


def obj_module():
    """an importable module with the classes object definitions refer to (prefix-free names)"""
    if OBJMOD in sys.modules:
        return sys.modules[OBJMOD]
    from taskchain.parameter import ParameterObject
    m = types.ModuleType(OBJMOD)

    class Obj_:
        def __init__(self, *args, **kwargs):
            self.args, self.kwargs = args, kwargs
    Obj_.__module__ = OBJMOD

    class PObj_(ParameterObject):
        def __init__(self, *args, **kwargs):
            self.args, self.kwargs = args, kwargs

        def repr(self):
            return getattr(self, '_taskchain_instantiate_repr', 'PObj_()')
    PObj_.__module__ = OBJMOD

    class PO(ParameterObject):
        """a parameter object that is already in the data"""
        def __init__(self, r):
            self.r = r

        def repr(self):
            return self.r
    m.Obj_, m.PObj_, m.PO = Obj_, PObj_, PO
    sys.modules[OBJMOD] = m
    return m


def mk_value(kind, payload):
    from taskchain.utils.data import ReprStr
    if kind == 'r':
        return ReprStr(payload[0], payload[1])
    return obj_module().PO(payload)


def gen_objdef(rng, names, modref, nested=True):
    cls = modref + '.' + ('Obj_' if not nested or rng.random() < 0.6 else 'PObj_')
    d = [['class', {'s': cls}]]
    if rng.random() < 0.8:
        args = [gen_tree(rng, names, 2, 4, objs=False) for _ in range(rng.randint(0, 3))]
        if nested and rng.random() < 0.25:
            args.append(gen_objdef(rng, names, modref, nested=False))
        d.append(['args', {'l': args}])
    if rng.random() < 0.7:
        ks = rng.sample(['p', 'q', 'dir_', 'zz'], rng.randint(0, 3))
        d.append(['kwargs', {'d': [[k, gen_tree(rng, names, 2, 4, objs=False)] for k in ks]}])
    rng.shuffle(d)
    return {'d': d}


def has_brace(t):
    return any('{' in (l.get('s') or l['r'][1] if 's' not in l else l['s']) for l in leaves(t))


# ------------------------------------------------------------------------------------------- checks on one result

def check_leaf_behaviour(ctx, case, x, text):
    """a substituted string behaves as an ordinary string"""
    ok = (isinstance(x, str) and str(x) == text and x == text and text == x and hash(x) == hash(text) and len(x) == len(text)
          and x + '!' == text + '!' and '%s' % x == text and f'{x}' == text and x.upper() == text.upper()
          and json.dumps(x) == json.dumps(text) and {text: 1}.get(x) == 1 and (x.split('/') == text.split('/')))
    if ok and '\x00' not in text:
        ok = Path(x) == Path(text)
    if not ok:
        ctx.fail('substituted string does not behave as the ordinary string with the substituted text', case, {'text': text, 'got': str(x)})


def check_copies(ctx, case, x):
    """repr, value and type survive copy / deepcopy, repeatedly"""
    y = x
    ctx.count('leaf-copied')
    for how in ('copy', 'deepcopy', 'copy', 'deepcopy'):
        y = copy.copy(y) if how == 'copy' else copy.deepcopy(y)
        if repr(y) != repr(x) or str.__str__(y) != str.__str__(x) or type(y) is not type(x):
            ctx.fail('copy of a substituted string changed its representation, value or type', case,
                     {'how': how, 'orig': [str.__str__(x), repr(x)], 'copy': [str.__str__(y), repr(y), type(y).__name__]})
            return


def oracle_tree(ctx, case, what, got_t, ref_t):
    """property clauses on a tagged result vs the reference: same shape, keys, non-string data; text of every string leaf;
    representation keeps the placeholder form (the source text), no more is demanded here"""
    def walk(g, r, path):
        if 'l' in r:
            if 'l' not in g or len(g['l']) != len(r['l']):
                return f'{path}: list shape changed'
            for i, (a, b) in enumerate(zip(g['l'], r['l'])):
                e = walk(a, b, f'{path}[{i}]')
                if e:
                    return e
            return None
        if 'd' in r:
            if 'd' not in g or [k for k, _ in g['d']] != [k for k, _ in r['d']]:
                return f'{path}: mapping keys changed'
            for (k, a), (_, b) in zip(g['d'], r['d']):
                e = walk(a, b, f'{path}.{k}')
                if e:
                    return e
            return None
        if 's' in r or 'r' in r:
            rt = r['s'] if 's' in r else r['r'][0]
            src = r['s'] if 's' in r else r['r'][1]
            if 's' in g:
                gt, gs = g['s'], g['s']
            elif 'r' in g:
                gt, gs = g['r']
            else:
                return f'{path}: string became {g}'
            if gt != rt:
                return f'{path}: text {gt!r}, expected {rt!r}'
            if gs != src:
                return f'{path}: representation source {gs!r}, expected the placeholder form {src!r}'
            return None
        if g != r:
            return f'{path}: non-string data changed: {g} vs {r}'
        return None
    e = walk(got_t, ref_t, '$')
    if e:
        ctx.fail(what, case, e)
    return e is None


# ------------------------------------------------------------------------------------------- routes

def route_direct(ctx, n):
    from taskchain.utils.data import search_and_replace_placeholders, ReprStr
    from taskchain.utils.clazz import repr_from_instantiation
    reqs, metas = [], []
    for i in range(n):
        rng = ctx.rng('direct', i)
        gv, env, kind = gen_gv(rng)
        names = name_pool(rng, env, kind)
        t = gen_tree(rng, names, maxdepth=rng.choice([1, 2, 3, 5]))
        if rng.random() < 0.12:
            t = {'s': gen_string(rng, names)}          # bare string argument
        gv2, env2 = alt_gv(rng, gv, env, kind) if rng.random() < 0.5 else ({}, [])
        case = {'route': 'direct', 'value': t, 'env': env, 'gv': kind, 'env2': env2}
        x = untag(t, mk_value)
        try:
            res = search_and_replace_placeholders(x, gv)
            t1 = tag(res)
            r1 = repr_from_instantiation(res)
            res_copy = copy.deepcopy(res)
            tc, rc = tag(res_copy), repr_from_instantiation(res_copy)
            res2 = search_and_replace_placeholders(res, gv2)
            t2 = tag(res2)
            res3 = search_and_replace_placeholders(res2, gv)
            t3 = tag(res3)
        except Exception as e:      # noqa
            ctx.fail('substitution raised on JSON-like data', case, f'{type(e).__name__}: {e}')
            continue
        ctx.case(case, nontrivial=has_brace(t))
        ctx.count(f'gv:{kind}')
        lookup = dict(env).get
        ref = ref_tree(t, lookup)
        nm = [x_ for l in leaves(t) if 's' in l for x_ in ref_names(l['s'])]
        ctx.count('has-defined' if any(x_ in dict(env) for x_ in nm) else ('only-undefined' if nm else 'no-match'))
        if oracle_tree(ctx, case, 'substitution result differs from the reference (text / untouched data / placeholder form)', t1, ref):
            if t2 != t1 or t3 != t1:
                ctx.fail('applying the substitution again changed the result', case, {'first': t1, 'again': t2, 'third': t3})
            if tc != t1 or rc != r1:
                ctx.fail('deepcopy of substituted data changed text, representation or type', case, {'orig': [t1, r1], 'copy': [tc, rc]})
        lv = py_leaves(res)
        for x_ in rng.sample(lv, min(len(lv), 3)):
            if isinstance(x_, ReprStr):
                check_copies(ctx, case, x_)
                check_leaf_behaviour(ctx, case, x_, str.__str__(x_))
        reqs.append({'m': 'subst', 'op': 'subst', 'value': t, 'env': env, 'env2': env2, 'np': sorted(pl.nonprintable(json.dumps(t, ensure_ascii=False)) | pl.nonprintable(env))})
        metas.append((case, {'out': t1, 'repr': r1, 'copy': tc, 'copy_repr': rc, 'again': t2}))
    for (case, impl), mo in zip(metas, ctx.model.many(reqs)):
        if impl != mo:
            ctx.diverge('search_and_replace_placeholders', case, impl, mo)
    # the scanner alone, on many strings: segmentation text vs reference (cheap, broad)
    reqs, metas = [], []
    for i in range(n):
        rng = ctx.rng('scan', i)
        s = gen_string(rng, DEF_NAMES + UNDEF + ODD_NAMES)
        env = [[nm, rng.choice(['<1>', '', '{A}'])] for nm in rng.sample(DEF_NAMES + ODD_NAMES, 4)]
        got = search_and_replace_placeholders(s, dict(env))
        text, cnt = ref_subst(s, dict(env).get)
        case = {'route': 'string', 's': s, 'env': env}
        ctx.case(case, nontrivial='{' in s)
        ctx.count('str:match' if cnt else 'str:nomatch')
        if str.__str__(got) != text:
            ctx.fail('substituted text differs from the reference', case, {'got': str.__str__(got), 'expected': text})
        reqs.append({'m': 'subst', 'op': 'subst', 'value': {'s': s}, 'env': env, 'np': sorted(pl.nonprintable(s) | pl.nonprintable(env))})
        metas.append((case, tag(got)))
    for (case, impl), mo in zip(metas, ctx.model.many(reqs)):
        if impl != mo['out']:
            ctx.diverge('_apply on one string', case, impl, mo['out'])


def merged_input(data_t, ctx_t, namespace):
    """config data after apply_context, as a tagged tree (context keys override whole top-level keys)"""
    out = dict((k, v) for k, v in data_t['d'])
    if ctx_t is not None:
        for k, v in ctx_t['d']:
            out[k] = v
        if namespace:
            fn = dict(ctx_t['d']).get('for_namespaces')
            if fn is not None:
                for k, v in dict(fn['d']).get(namespace, {'d': []})['d']:
                    out[k] = v
    return {'d': [[k, v] for k, v in out.items()]}


def ref_prep(t, path, found):
    """reference view of prepare_objects: object definitions are collected (path -> definition) and blanked"""
    if 'd' in t:
        if any(k == 'class' for k, _ in t['d']):
            found[path] = t
            return {'o': '?'}
        return {'d': [[k, ref_prep(v, f'{path}.{k}', found)] for k, v in t['d']]}
    if 'l' in t:
        return {'l': [ref_prep(x, f'{path}[{i}]', found) for i, x in enumerate(t['l'])]}
    return t


def blank_objs(t, path, found):
    if 'o' in t and path in found:
        return {'o': '?'}
    if 'd' in t:
        return {'d': [[k, blank_objs(v, f'{path}.{k}', found)] for k, v in t['d']]}
    if 'l' in t:
        return {'l': [blank_objs(x, f'{path}[{i}]', found) for i, x in enumerate(t['l'])]}
    return t


def get_path(x, path):
    """follow a `$`-path (as built above) in a python structure"""
    import re as _re
    for m in _re.finditer(r'\.([^.\[]*)|\[(\d+)\]', path[1:]):
        x = x[m.group(1)] if m.group(2) is None else x[int(m.group(2))]
    return x


def route_config(ctx, n, root):
    from taskchain import Config
    from taskchain.parameter import Parameter
    from taskchain.utils.clazz import repr_from_instantiation
    from taskchain.utils.data import ReprStr
    obj_module()
    reqs, metas = [], []
    for i in range(n):
        rng = ctx.rng('config', i)
        gv, env, kind = gen_gv(rng)
        modref = OBJMOD
        if rng.random() < 0.3 and kind != 'object':
            gv['MOD'] = OBJMOD; env = env + [['MOD', OBJMOD]]; modref = '{MOD}'
        names = name_pool(rng, env, kind)
        top = rng.sample(['p1', 'p2', 'dirs', 'obj', 'opt', 'x_y', 'lst'], rng.randint(1, 4))
        data_t = {'d': []}
        for k in top:
            r = rng.random()
            if r < 0.25:
                v = gen_objdef(rng, names, modref)
            elif r < 0.35:
                v = {'l': [gen_tree(rng, names, 2, 4), gen_objdef(rng, names, modref, nested=False)]}
            elif r < 0.65:
                v = {'s': gen_string(rng, names)}
            else:
                v = gen_tree(rng, names, 1, 4)
            data_t['d'].append([k, v])
        ctx_t, namespace = None, None
        if rng.random() < 0.5:
            ctx_t = {'d': [[k, ({'s': gen_string(rng, names)} if rng.random() < 0.6 else gen_tree(rng, names, 2, 4, objs=False))]
                           for k in rng.sample(['p1', 'c1', 'c2', 'opt'], rng.randint(1, 3))]}
            if rng.random() < 0.5:
                namespace = rng.choice(['ns', 'ns::in'])
                ctx_t['d'].append(['for_namespaces', {'d': [[namespace, {'d': [['c1', {'s': gen_string(rng, names)}], ['nsv', {'s': gen_string(rng, names)}]]}],
                                                            ['other', {'d': [['p2', {'s': '{A}/other'}]]}]]}])
        merged = merged_input(data_t, ctx_t, namespace)
        case = {'route': 'config', 'data': data_t, 'context': ctx_t, 'namespace': namespace, 'env': env, 'gv': kind}
        gv2, env2 = alt_gv(rng, gv, [e for e in env if e[0] != 'MOD'], kind)
        if modref == '{MOD}':
            gv2['MOD'] = OBJMOD
        try:
            cfg = Config(root, name='c', data=untag(data_t, mk_value), context=None if ctx_t is None else untag(ctx_t, mk_value),
                         global_vars=gv, namespace=namespace)
            cfg2 = Config(root, name='c', data=untag(data_t, mk_value), context=None if ctx_t is None else untag(ctx_t, mk_value),
                          global_vars=gv2, namespace=namespace)
        except Exception as e:      # noqa
            ctx.fail('Config construction raised on JSON-like data with placeholders', case, f'{type(e).__name__}: {e}')
            continue
        ctx.case(case, nontrivial=has_brace(merged))
        ctx.count(f'config:gv:{kind}'); ctx.count('config:context' if ctx_t else 'config:plain')
        got = tag(cfg.data)
        # ---- oracle
        found = {}
        ref = ref_tree(merged, dict(env).get)
        ref_b = ref_prep(ref, '$', found)
        ctx.count('config:objdefs', len(found))
        if oracle_tree(ctx, case, 'config data after construction differs from the reference', blank_objs(got, '$', found), ref_b):
            for path, d in found.items():
                inst = get_path(cfg.data, path)
                dd = dict(d['d'])
                exp_args = dd.get('args', {'l': []})
                exp_kw = dd.get('kwargs', {'d': []})
                clsname = (dd['class'].get('s') or dd['class']['r'][0]).split('.')[-1]
                if type(inst).__name__ != clsname:
                    ctx.fail('object definition instantiated with the wrong class', case, {'path': path, 'class': type(inst).__name__})
                    continue
                ok = oracle_tree(ctx, case, 'arguments an object definition was instantiated with differ from the reference',
                                 strip_nested(tag(list(inst.args))), strip_nested(ref_prep(exp_args, '$', {})))
                ok = ok and oracle_tree(ctx, case, 'keyword arguments an object definition was instantiated with differ from the reference',
                                        strip_nested(tag(dict(inst.kwargs))), strip_nested(ref_prep(exp_kw, '$', {})))
        # representation does not depend on the values (same names defined)
        for k in cfg.data:
            try:
                ra, rb = repr_from_instantiation(cfg.data[k]), repr_from_instantiation(cfg2.data[k])
            except Exception as e:      # noqa
                ctx.fail('repr_from_instantiation raised', case, str(e)); break
            if ra != rb:
                ctx.fail('representation for persistence depends on the values substituted for placeholders', case, {'key': k, 'a': ra, 'b': rb})
                break
        # a deep-copied config has the same data (text, representation, types)
        cc = copy.deepcopy(cfg)
        if tag(cc.data) != got:
            ctx.fail('deepcopy of a config changed text, representation or type of its data', case, {'orig': got, 'copy': tag(cc.data)})
        # ---- parameters
        pv = {}
        for k, v in cfg.data.items():
            if k == 'for_namespaces':
                continue
            for dtype in (None, str, Path):
                if dtype is not None and not isinstance(v, str):
                    continue
                if dtype is Path and '\x00' in v:
                    continue
                p = Parameter(k, dtype=dtype)
                p.set_value(cfg)
                val, vr = p.value, p.value_repr()
                pv[f'{k}/{getattr(dtype, "__name__", None)}'] = vr
                if isinstance(v, str):
                    text = str.__str__(v)
                    ctx.count('param:str')
                    if dtype is Path:
                        if val != Path(text) or not isinstance(val, Path):
                            ctx.fail('Path parameter does not carry the substituted text', case, {'key': k, 'value': str(val), 'text': text})
                    else:
                        check_leaf_behaviour(ctx, case, val, text)
                        if val is not v:
                            ctx.fail('Parameter.value is not the config value', case, {'key': k})
                    rv = dict(ref['d']).get(k, {})
                    if 'r' in rv and vr != repr(rv['r'][1]):
                        ctx.fail('value_repr of a substituted string is not the repr of its placeholder form', case,
                                 {'key': k, 'value_repr': vr, 'source': rv['r'][1]})
        reqs.append({'m': 'subst', 'op': 'subst', 'value': merged, 'env': env, 'prep': True,
                     'np': sorted(pl.nonprintable(json.dumps(merged, ensure_ascii=False)) | pl.nonprintable(env))})
        metas.append((case, got, cfg, pv))
    outs = ctx.model.many(reqs)
    # second batch: per-parameter representation from the model
    reqs2, metas2 = [], []
    for (case, got, cfg, pv), mo in zip(metas, outs):
        if got != mo['prep']:
            ctx.diverge('Config data after _prepare', case, got, mo['prep'])
            continue
        for k, v in mo['prep']['d']:
            if k == 'for_namespaces':
                continue
            np_ = sorted(pl.nonprintable(json.dumps(v, ensure_ascii=False)))
            reqs2.append({'m': 'key', 'op': 'repr_inst', 'value': v, 'np': np_}); metas2.append((case, pv.get(f'{k}/None'), k, 'value_repr'))
            if 's' in v or 'r' in v:
                src = v['s'] if 's' in v else v['r'][1]
                reqs2.append({'m': 'key', 'op': 'repr_inst', 'value': v, 'np': np_}); metas2.append((case, pv.get(f'{k}/str'), k, 'value_repr(str)'))
                if f'{k}/Path' in pv:
                    reqs2.append({'m': 'key', 'op': 'py_repr', 's': src, 'np': np_}); metas2.append((case, pv.get(f'{k}/Path'), k, 'value_repr(Path)'))
    for (case, impl, k, what), mo in zip(metas2, ctx.model.many(reqs2)):
        if impl != mo['text']:
            ctx.diverge(f'Parameter.{what}', dict(case, key=k), impl, mo['text'])


def strip_nested(t):
    """blank objects (nested definitions inside arguments are compared by their own recorded text in the correspondence)"""
    if 'o' in t:
        return {'o': '?'}
    if 'l' in t:
        return {'l': [strip_nested(x) for x in t['l']]}
    if 'd' in t:
        return {'d': [[k, strip_nested(v)] for k, v in t['d']]}
    return t


TASKMOD_SRC = '''
from pathlib import Path
from taskchain import Task, Parameter

class C11Up_(Task):
    class Meta:
        name = 'up'
        parameters = [Parameter('p1'), Parameter('pth', dtype=Path, default=None), Parameter('lst', default=None)]
    def run(self, p1, pth, lst) -> dict:
        return {'p1': p1, 'type': type(p1).__name__, 'pth': None if pth is None else str(pth), 'lst': lst}

class C11Down_(Task):
    class Meta:
        name = 'down'
        input_tasks = [C11Up_]
        parameters = [Parameter('p2', default='d')]
    def run(self, up, p2) -> dict:
        return {'up': up, 'p2': p2}
'''


def route_chain(ctx, n, root):
    """real chains: what the task receives, keys under two value assignments, deep-copied config, stored value"""
    from taskchain import Config
    from taskchain.utils.data import ReprStr
    moddir = root / 'taskmod'
    moddir.mkdir(exist_ok=True)
    modname = f'tcvc11tasks{abs(hash(str(root))) % 10 ** 8}'
    (moddir / f'{modname}.py').write_text(TASKMOD_SRC)
    sys.path.insert(0, str(moddir))
    try:
        import importlib
        importlib.invalidate_caches()
        mod = importlib.import_module(modname)
        reqs, metas = [], []
        for i in range(n):
            rng = ctx.rng('chain', i)
            gv, env, kind = gen_gv(rng)
            if kind != 'object':
                gv['M'] = modname; env = env + [['M', modname]]
            names = name_pool(rng, env, kind)
            s1 = gen_string(rng, names)
            spth = gen_string(rng, names).replace('\x00', '')
            lst = json.loads(json.dumps(gen_tree(rng, names, 2, 4, objs=False)).replace('"100000000000000000000"', '"7"'))
            data_t = {'d': [['p1', {'s': s1}], ['pth', {'s': spth}], ['lst', lst]]}
            if rng.random() < 0.5:
                data_t['d'].append(['p2', {'s': gen_string(rng, names)}])
            tasks_form = rng.choice(['classes', 'strings', 'placeholder', 'placeholder-str']) if kind != 'object' else rng.choice(['classes', 'strings'])
            tasks = {'classes': [mod.C11Up_, mod.C11Down_], 'strings': [f'{modname}.C11Up_', f'{modname}.C11Down_'],
                     'placeholder': ['{M}.C11Up_', '{M}.C11Down_'], 'placeholder-str': '{M}.C11*'}[tasks_form]
            case = {'route': 'chain', 'data': data_t, 'env': env, 'gv': kind, 'tasks': tasks_form}
            gv2, env2 = alt_gv(rng, gv, [e for e in env if e[0] != 'M'], kind)
            if kind != 'object':
                gv2['M'] = modname

            def mk(g, sub):
                d = untag(data_t, mk_value)
                d['tasks'] = list(tasks) if isinstance(tasks, list) else tasks
                return Config(root / 'data' / sub, name='c', data=d, global_vars=g)
            try:
                cfg = mk(gv, f'a{i}')
                chain = cfg.chain()
                chain_b = mk(gv2, f'b{i}').chain()
                chain_c = copy.deepcopy(mk(gv, f'a{i}')).chain()
            except Exception as e:      # noqa
                ctx.fail('chain construction raised on a config with placeholders', case, f'{type(e).__name__}: {e}')
                continue
            ctx.case(case, nontrivial='{' in s1 + spth)
            ctx.count(f'chain:tasks:{tasks_form}')
            look = dict(env).get
            t1, c1 = ref_subst(s1, look)
            tp, _ = ref_subst(spth, look)
            up, down = chain['up'], chain['down']
            keys = {n_: t.name_for_persistence for n_, t in chain.tasks.items()}
            keys_b = {n_: t.name_for_persistence for n_, t in chain_b.tasks.items()}
            keys_c = {n_: t.name_for_persistence for n_, t in chain_c.tasks.items()}
            if keys != keys_b:
                ctx.fail('storage keys depend on the values substituted for placeholders', case, {'a': keys, 'b': keys_b})
            if keys != keys_c:
                ctx.fail('a deep-copied config yields other storage keys', case, {'orig': keys, 'copy': keys_c})
            v = down.value
            exp_lst = json.loads(json.dumps(plain(ref_tree(lst, look))))
            if v['up']['p1'] != t1 or v['up']['pth'] != str(Path(tp)) or v['up']['lst'] != exp_lst:
                ctx.fail('the task did not receive the substituted values', case, {'got': v['up'], 'expected': [t1, tp, exp_lst]})
            check_leaf_behaviour(ctx, case, up.params.p1, t1)
            # reload through a fresh chain: the stored value is the plain text
            again = mk(gv, f'a{i}').chain()['down']
            if not again.has_data or again.value != v:
                ctx.fail('stored result of a task with substituted parameters is not found again / differs', case, {'has_data': again.has_data})
            try:
                mp = pl.model_params(up)
            except (SyntaxError, ValueError) as e:
                ctx.fail('representation of a substituted parameter is not the Python literal of its placeholder form', case,
                         {'repr': repr(up.params.p1), 'source': s1})
                continue
            reqs.append({'m': 'key', 'op': 'key', 'params': mp, 'ns': None, 'inputs': [], 'np': sorted(pl.nonprintable(mp))})
            metas.append((case, keys['up']))
        for (case, impl), mo in zip(metas, ctx.model.many(reqs)):
            if impl != mo['key']:
                ctx.diverge('key of a task with substituted parameters', case, impl, mo)
    finally:
        sys.path.remove(str(moddir))
        sys.modules.pop(modname, None)


def plain(t):
    if 's' in t:
        return t['s']
    if 'r' in t:
        return t['r'][0]
    if 'a' in t:
        return ast.literal_eval(t['a'])
    if 'l' in t:
        return [plain(x) for x in t['l']]
    if 'd' in t:
        return {k: plain(v) for k, v in t['d']}
    return None


def route_uses(ctx, n, root):
    """`uses` paths with placeholders: config files (str / list, with and without namespace) and context `uses` (str / list)"""
    from taskchain import Config
    moddir = root / 'usesmod'
    moddir.mkdir(exist_ok=True)
    modname = f'tcvc11uses{abs(hash(str(root))) % 10 ** 8}'
    (moddir / f'{modname}.py').write_text(TASKMOD_SRC)
    sys.path.insert(0, str(moddir))
    try:
        for i in range(n):
            rng = ctx.rng('uses', i)
            d = root / f'uses{i}'
            (d / 'sub dir').mkdir(parents=True)
            val = rng.choice(['vv', '/abs/dir', 'x y', ''])
            gv_d = {'D': str(d), 'V': val, 'NS': 'n1', 'SUB': 'sub dir'}
            kind = rng.choice(['dict', 'object'])
            gv = gv_d if kind == 'dict' else type('GVU', (), dict(gv_d))()
            s1 = rng.choice(['{V}/p', 'a{V}{V}', '{UNDEF}{V}', 'plain'])
            (d / 'sub dir' / 'p.json').write_text(json.dumps({'tasks': [f'{modname}.C11Up_', f'{modname}.C11Down_'], 'p1': s1, 'p2': '{V}'}))
            ns = rng.choice([None, 'ns', '{NS}'])
            use = '{D}/{SUB}/p.json' + (f' as {ns}' if ns else '')
            form = rng.choice(['str', 'list'])
            main = {'uses': use if form == 'str' else [use]}
            (d / 'main.json').write_text(json.dumps(main))
            ctx_form = rng.choice([None, 'str', 'list', 'str-as', 'list-as'])
            context = None
            sc = rng.choice(['{V}/ctx', '{V}', 'c{UNDEF}'])
            nested, in_list, sc3 = False, False, None
            if ctx_form:
                c2 = {'p1': sc}
                nested = rng.random() < 0.4
                if nested:       # the context file uses another context file, again through a placeholder
                    sc3 = rng.choice(['{V}/c3', 'n{V}', '{UNDEF}3'])
                    (d / 'c3.json').write_text(json.dumps({'p2': sc3}))
                    c2['uses'] = rng.choice(['{D}/c3.json', ['{D}/c3.json']])
                (d / 'c2.json').write_text(json.dumps(c2))
                cu = '{D}/c2.json' + (f' as {ns}' if ctx_form.endswith('-as') and ns else '')
                context = {'uses': cu if ctx_form.startswith('str') else [cu], 'unrelated': '{V}'}
                in_list = rng.random() < 0.3
                if in_list:
                    context = [context]
            case = {'route': 'uses', 'use': use, 'form': form, 'context_uses': ctx_form, 'ns': ns, 'gv': kind, 'V': val, 'p1': s1, 'ctx_p1': sc,
                    'nested_context_uses': nested, 'context_in_list': in_list}
            ctx.case(case)
            ctx.count(f'uses:nested={nested}:list={in_list}')
            ctx.count(f'uses:{form}:{"ns" if ns else "root"}'); ctx.count(f'uses:context:{ctx_form}')
            try:
                chain = Config(d / 'data', str(d / 'main.json'), global_vars=gv, context=context).chain()
            except Exception as e:      # noqa
                ctx.fail('a `uses` path with a defined placeholder was not resolved (construction raised)', case, f'{type(e).__name__}: {e}')
                continue
            rns = {'{NS}': 'n1'}.get(ns, ns)
            upname = f'{rns}::up' if rns else 'up'
            if upname not in chain.tasks:
                ctx.fail('task of the used config is missing', case, {'tasks': list(chain.tasks)})
                continue
            look = gv_d.get
            # which p1 reaches the task: the context file's (global, or mounted as the same namespace) over the config's own value
            exp_src = s1 if ctx_form is None else sc
            exp, _ = ref_subst(exp_src, look)
            got = chain.tasks[upname].params.p1
            if str.__str__(got) != exp:
                ctx.fail('parameter from a used config / context file does not carry the substituted text', case, {'got': str(got), 'expected': exp})
            exp2, _ = ref_subst(sc3 if nested else '{V}', look)
            downname = f'{rns}::down' if rns else 'down'
            if str.__str__(chain.tasks[downname].params.p2) != exp2:
                ctx.fail('parameter of the used config does not carry the substituted text', case, {'got': str(chain.tasks[downname].params.p2)})
    finally:
        sys.path.remove(str(moddir))
        sys.modules.pop(modname, None)


def route_shared_context(ctx, n, root):
    """one context (a dict with placeholders at several depths, or a prepared Context object) handed to two Configs with DIFFERENT
    global_vars: each config sees its own substitution in the context's values, and the caller's context keeps its placeholders"""
    import copy
    from taskchain import Config, Context
    for i in range(n):
        rng = ctx.rng('shared-context', i)
        leaf = rng.choice(['{V}/a', 'x{V}', '{V}', '{V}{W}', 'plain', '{UNDEF}/{V}'])
        cdict = {'p1': leaf, 'nested': {'k': [leaf, {'deep': leaf}], 'n': 1}, 'lst': [leaf, [leaf]]}
        if rng.random() < 0.5:
            cdict['for_namespaces'] = {'ns': {'p2': [leaf, {'d': leaf}]}}
        snapshot = copy.deepcopy(cdict)
        as_object = rng.random() < 0.35
        given = Context.prepare_context(copy.deepcopy(cdict)) if as_object else cdict
        gvs = [{'V': 'v1', 'W': 'w1'}, {'V': 'v2', 'W': 'w2'}]
        ns = rng.choice([None, 'ns'])
        case = {'route': 'shared context', 'leaf': leaf, 'context': 'object' if as_object else 'dict', 'namespace': ns,
                'for_namespaces': 'for_namespaces' in cdict}
        ctx.case(case); ctx.count('shared-context')
        cfgs = []
        try:
            for gv in gvs:
                cfgs.append(Config(root / f'sc{i}', name='c', data={'own': leaf}, context=given, global_vars=gv, namespace=ns))
        except Exception as e:      # noqa
            ctx.fail('a config with a shared context could not be built', case, f'{type(e).__name__}: {e}'[:200]); continue
        for gv, cfg in zip(gvs, cfgs):
            look = gv.get
            exp_leaf, _ = ref_subst(leaf, look)
            def texts(v):
                if isinstance(v, str):
                    return str.__str__(v)
                if isinstance(v, list):
                    return [texts(x) for x in v]
                if isinstance(v, dict):
                    return {k: texts(x) for k, x in v.items()}
                return v
            got = {k: texts(cfg.data.get(k)) for k in ('own', 'p1', 'nested', 'lst')}
            exp = {'own': exp_leaf, 'p1': exp_leaf, 'nested': {'k': [exp_leaf, {'deep': exp_leaf}], 'n': 1}, 'lst': [exp_leaf, [exp_leaf]]}
            if ns == 'ns' and 'for_namespaces' in cdict:
                got['p2'] = texts(cfg.data.get('p2')); exp['p2'] = [exp_leaf, {'d': exp_leaf}]
            if got != exp:
                ctx.fail('a config built with a shared context does not carry its own substitution', case, {'global_vars': gv, 'got': got, 'expected': exp})
                break
        if not as_object and cdict != snapshot:
            ctx.fail("building a config rewrote the caller's context dict (placeholders substituted in place)", case, {'after': str(cdict)[:300]})


def route_shared_file(ctx, n, root):
    """ONE config file (JSON or YAML) with placeholders at several depths loaded by two Config objects in one process with DIFFERENT
    global_vars (another environment, the next member of a parameter sweep): each config sees its own substitution at every depth, the
    first config keeps its values while the second is built, and the file is not changed"""
    import json
    import yaml
    from taskchain import Config
    for i in range(n):
        rng = ctx.rng('shared-file', i)
        leaf = rng.choice(['{V}/a', 'x{V}', '{V}', '{V}{W}', 'plain', '{UNDEF}/{V}'])
        data = {'p1': leaf, 'nested': {'k': [leaf, {'deep': leaf}], 'n': 1}, 'lst': [leaf, [leaf]]}
        ext = rng.choice(['json', 'yaml'])
        f = root / f'sf{i}' / f'c.{ext}'
        f.parent.mkdir(parents=True, exist_ok=True)
        f.write_text(json.dumps(data) if ext == 'json' else yaml.safe_dump(data))
        before = f.read_bytes()
        gvs = [{'V': 'v1', 'W': 'w1'}, {'V': 'v2', 'W': 'w2'}]
        if rng.random() < 0.3:
            gvs.append({'V': 'v1', 'W': 'w1'})
        case = {'route': 'shared config file', 'leaf': leaf, 'format': ext, 'configs': len(gvs)}
        ctx.case(case); ctx.count('shared-config-file')
        try:
            cfgs = [Config(root / f'sf{i}' / 'data', f, global_vars=gv) for gv in gvs]
        except Exception as e:      # noqa
            ctx.fail('a second config of the same file could not be built', case, f'{type(e).__name__}: {e}'[:200]); continue

        def texts(v):
            if isinstance(v, str):
                return str.__str__(v)
            if isinstance(v, list):
                return [texts(x) for x in v]
            if isinstance(v, dict):
                return {k: texts(x) for k, x in v.items()}
            return v
        for gv, cfg in zip(gvs, cfgs):
            e_, _ = ref_subst(leaf, gv.get)
            got = {k: texts(cfg.data.get(k)) for k in ('p1', 'nested', 'lst')}
            exp = {'p1': e_, 'nested': {'k': [e_, {'deep': e_}], 'n': 1}, 'lst': [e_, [e_]]}
            if got != exp:
                ctx.fail('a config built from a file that another config had loaded sees the values substituted for that other config', case,
                         {'global_vars': gv, 'got': got, 'expected': exp})
                break
        if f.read_bytes() != before:
            ctx.fail('loading a config file changed the file', case, {})


def _with_env(fn):
    """run with environment variables named like the placeholders the generators leave UNDEFINED (and like every defined one, with another
    value): the environment of the process is no source of values"""
    import os
    names = [n for n in UNDEF + DEF_NAMES + ['USER', 'HOME', 'LANG', 'TMPDIR', 'V', 'W'] if n and '=' not in n and '\x00' not in n]
    old = {n: os.environ.get(n) for n in names}
    try:
        for n in names:
            try:
                os.environ[n] = 'FROM-ENV'
            except (ValueError, UnicodeEncodeError):
                pass
        return fn()
    finally:
        for n, v in old.items():
            if v is None:
                os.environ.pop(n, None)
            else:
                os.environ[n] = v


def slots_object_probe(ctx, root):
    """an object definition whose class cannot carry the library's bookkeeping (a class with `__slots__`) and whose own `repr` shows its
    arguments: either the config is refused, or the key keeps the placeholder form — the value substituted for `{D}` never decides a location"""
    import sys
    import types
    from taskchain import Config, Task, Parameter
    mod = types.ModuleType('tcv_slots_mod')
    exec("class Slotted:\n    __slots__ = ('path',)\n    def __init__(self, path):\n        self.path = str(path)\n"
         "    def __repr__(self):\n        return 'Slotted(%s)' % self.path\n", mod.__dict__)
    sys.modules['tcv_slots_mod'] = mod

    class Uses(Task):
        class Meta:
            name = 'uses'
            parameters = [Parameter('obj')]

        def run(self) -> dict:
            return {}
    case = {'probe': 'object definition of a class with __slots__, placeholder in an argument'}
    ctx.case(case); ctx.count('slots-object-probe')
    keys = {}
    try:
        for d_ in ('/srv/a', '/mnt/b'):
            try:
                ch = Config(root / 'slots', name='c', data={'tasks': [Uses], 'obj': {'class': 'tcv_slots_mod.Slotted', 'kwargs': {'path': '{D}/corpus'}}},
                            global_vars={'D': d_}).chain()
                keys[d_] = ch.tasks['uses'].name_for_persistence
            except (AttributeError, ValueError, TypeError) as e:
                keys[d_] = ('refused', type(e).__name__)
        if all(isinstance(v, str) for v in keys.values()) and len(set(keys.values())) > 1:
            ctx.fail('the value substituted for a placeholder changed a storage key', case, keys)
    finally:
        sys.modules.pop('tcv_slots_mod', None)


def run(ctx):
    quiet()
    root = ctx.tmpdir()
    route_shared_context(ctx, ctx.n(150, 1200), root)
    route_shared_file(ctx, ctx.n(60, 600), root)
    slots_object_probe(ctx, root)
    _with_env(lambda: route_direct(ctx, ctx.n(5000, 40000)))
    route_config(ctx, ctx.n(1500, 12000), root / 'cfg')
    route_chain(ctx, ctx.n(120, 1000), root)
    route_uses(ctx, ctx.n(100, 600), root)
    # model self-check against the reference on copies of ReprStr objects (n-fold copy keeps the three fields)
    outs = ctx.model.many([{'m': 'subst', 'op': 'copy_obj', 'val': 'v', 'src': "{A}'x", 'n': k} for k in (0, 1, 5)])
    if not (outs[0] == outs[1] == outs[2] and outs[0]['repr'] == repr("{A}'x")):
        ctx.diverge('ReprStr copy', {'n': [0, 1, 5]}, repr("{A}'x"), outs)


def search(ctx, divergences):
    run(ctx)


def sanity(ctx):
    from tcv.core import BrokenCheck
    c = ctx.counts
    tot = c.get('has-defined', 0) + c.get('only-undefined', 0) + c.get('no-match', 0)
    if tot == 0 or c.get('has-defined', 0) < 0.25 * tot or c.get('only-undefined', 0) < 0.03 * tot or c.get('no-match', 0) < 0.03 * tot:
        raise BrokenCheck(f'generator distribution collapsed: {c}')
    if c.get('gv:object', 0) < 0.1 * tot or c.get('leaf-copied', 0) < 20 or c.get('config:objdefs', 0) < 20 or c.get('param:str', 0) < 50:
        raise BrokenCheck(f'generator distribution collapsed: {c}')
