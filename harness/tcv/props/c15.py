"""C15 — file caches stay consistent under concurrent use.

Implementation side: the REAL `JsonCache.get / get_or_compute` run in threads of this process under a deterministic
scheduler.  Harness-side monkeypatches only: `taskchain.cache.FileLock` is replaced by a scheduling mutex, and
`pathlib.Path.exists`, `io.open`/`builtins.open`, `os.replace/rename/unlink/remove` are wrapped so that every such call on
a file of the cache directory (and every computer call) becomes a scheduling point.  A schedule is a list of caller ids; one
grant lets the caller perform the pending action and run up to its next scheduling point.

The exploration is driven by the implementation (stateless depth-first search over the enabled sets the real code
exhibits); every complete schedule is replayed on the Lean model `TCV.Conc` (op `run`) and compared step by step."""
import builtins
import io
import json
import os
import pathlib
import threading

RULE = ('callers over {get, get_or_compute, forced get_or_compute, each get_or_compute with a returning or a raising computer} on one '
        'key of a JsonCache, starting with and without a stored entry and with/without a stale torn temp file; ALL interleavings of '
        'every unordered pair of callers and of every unordered triple (quick: triples over get/get_or_compute/forced; thorough: all '
        'five kinds) by stateless DFS over the scheduling points acquire/exists/release/open-for-read/compute/open-for-write/'
        'write/replace/unlink of the real code, plus seeded random schedules of 3 (thorough: 3-5) callers; per schedule the label of every step, the enabled set before every step, '
        'each caller\'s result, compute counts, final cache file, temp file and lock are compared with the Lean model; '
        'plus a first-use race with real threads and real filelock (two callers let into the creation of the entry\'s directory together); distinct = distinct (configuration, schedule); non-trivial = at least one caller reaches the compute path or loads')
ASSUMPTIONS = ['filelock.FileLock is a mutex across threads and processes (replaced by a scheduling mutex in the exploration; the '
               'real lock is exercised by the multi-process smoke run only)',
               'os.replace is atomic; a reader that has opened the cache file reads the content it had when it was opened',
               'the scheduling points cover every shared-state access of FileCache.get/get_or_compute (lock, exists, open, replace, '
               'unlink, computer call); code between two points runs without interference']
TRUSTED = ['modelled, not verified: json/orjson round-trip of {"key": k, "value": int}; CPython threads only run when granted '
           '(semaphore hand-off), so the enumeration is exhaustive for the scheduling points above, not for byte-level preemption']

KEY = 'ke\u0301y/\x00'          # (the accent as a combining character: a key is the text given, not a normal form of it)
MAX_STEPS = 120


class Boom(Exception):
    pass


class _Abort(BaseException):
    pass


class Sched:
    def __init__(self):
        self.tls = threading.local()
        self.reset(None)

    def reset(self, root):
        self.root = root
        self.sems, self.pending, self.done, self.result = {}, {}, set(), {}
        self.back = threading.Semaphore(0)
        self.lock_owner = None      # holder of the ENTRY lock (`<entry file>.lock`)
        self.entry_lock = None      # its path; a lock with any other path is a different mutex
        self.other_locks = {}       # path -> holder
        self.pending_lock = {}      # caller -> path of the lock it is about to acquire
        self.abort = False
        self.threads = []

    def me(self):
        return getattr(self.tls, 'name', None)

    def point(self, label):
        n = self.me()
        if n is None:
            return
        if self.abort:
            raise _Abort()
        self.pending[n] = label
        self.back.release()
        self.sems[n].acquire()
        if self.abort:
            raise _Abort()

    def spawn(self, name, fn):
        self.sems[name] = threading.Semaphore(0)

        def body():
            self.tls.name = name
            try:
                try:
                    r = fn()
                    self.result[name] = r
                except Boom:
                    self.result[name] = 'raised'
                except _Abort:
                    self.result[name] = 'aborted'
                except Exception as e:  # noqa
                    self.result[name] = {'error': type(e).__name__}
            finally:
                self.tls.name = None
                self.pending[name] = None
                self.done.add(name)
                self.back.release()
        t = threading.Thread(target=body, daemon=True)
        self.threads.append(t)
        t.start()
        self._wait()          # runs up to its first scheduling point

    def _wait(self):
        if not self.back.acquire(timeout=30):
            from tcv.core import BrokenCheck
            raise BrokenCheck('a caller did not reach a scheduling point within 30 s')

    def enabled(self):
        out = []
        for n in sorted(self.sems):
            if n in self.done:
                continue
            if self.pending[n] == 'acquire' and self.holder(self.pending_lock.get(n)) is not None:
                continue
            if self.pending[n] == 'begin' and self.lock_owner is not None:
                continue            # a call that has not begun: its first step is to take the entry lock
            out.append(n)
        return out

    def holder(self, path):
        if path is None or self.entry_lock is None or path == self.entry_lock:
            return self.lock_owner
        return self.other_locks.get(path)

    def step(self, name):
        self.sems[name].release()
        self._wait()

    def kill(self):
        self.abort = True
        for n, s in self.sems.items():
            if n not in self.done:
                s.release()
        for t in self.threads:
            t.join(timeout=5)


S = Sched()


class SchedLock:
    """stands in for filelock.FileLock: a mutex whose acquire/release are scheduling points"""

    def __init__(self, path, *a, **kw):
        self.path = path
        # filelock: timeout < 0 (the default) blocks for ever; a finite timeout lets a blocked acquire give up
        t = kw.get('timeout', a[0] if a else -1)
        self.finite = t is not None and t >= 0

    def acquire(self, *a, **kw):
        t = kw.get('timeout', a[0] if a else None)
        finite = self.finite or (t is not None and t >= 0)
        path = str(self.path)
        if S.me() is not None:
            S.pending_lock[S.me()] = path
        S.point('acquire-or-timeout' if finite else 'acquire')
        if S.me() is not None:
            if finite and S.holder(path) is not None:
                # scheduled while another caller holds the lock: the worst case of a finite timeout (the holder is slow)
                import filelock
                raise filelock.Timeout(str(self.path))
            if S.entry_lock is None or path == S.entry_lock:
                S.lock_owner = S.me()
            else:
                S.other_locks[path] = S.me()       # a lock file of another name excludes nobody who uses the entry lock
        return self

    def release(self, *a, **kw):
        S.point('release')
        if S.me() is not None:
            path = str(self.path)
            if S.entry_lock is None or path == S.entry_lock:
                S.lock_owner = None
            else:
                S.other_locks.pop(path, None)

    def __enter__(self):
        return self.acquire()

    def __exit__(self, *a):
        self.release()
        return False


def _role(p):
    """'final' / 'tmp' for the cache entry file and its temp sibling, None for anything else"""
    if S.me() is None or S.root is None:
        return None
    try:
        p = os.fspath(p)
    except TypeError:
        return None
    if isinstance(p, bytes):
        p = os.fsdecode(p)
    if not p.startswith(S.root) or not p.endswith('.json'):
        return None
    return 'tmp' if os.path.basename(p).startswith('tmp_') else 'final'


_orig = {}


def _exists(self, *a, **kw):
    r = _role(self)
    if r:
        S.point('exists' if r == 'final' else 'exists:' + r)
    return _orig['Path.exists'](self, *a, **kw)


def _os_path_exists(p):
    r = _role(p)
    if r:
        S.point('exists' if r == 'final' else 'exists:' + r)
    return _orig['os.path.exists'](p)


def _open(file, mode='r', *a, **kw):
    r = _role(file) if not isinstance(file, int) else None
    if not r:
        return _orig['open'](file, mode, *a, **kw)
    writing = any(c in mode for c in 'wax+')
    if not writing:
        S.point('openr' if r == 'final' else 'openr:' + r)
        return _orig['open'](file, mode, *a, **kw)
    S.point('openw:' + r)
    f = _orig['open'](file, mode, *a, **kw)
    S.point('write:' + r)
    return f


def _mk_os(name, label):
    def w(src, *a, **kw):
        if _role(src):
            S.point(label)
        return _orig[name](src, *a, **kw)
    return w


def install():
    import taskchain.cache as tc
    _orig.update({'FileLock': tc.FileLock, 'Path.exists': pathlib.Path.exists, 'os.path.exists': os.path.exists,
                  'open': builtins.open, 'os.replace': os.replace, 'os.rename': os.rename, 'os.unlink': os.unlink,
                  'os.remove': os.remove})
    tc.FileLock = SchedLock
    pathlib.Path.exists = _exists
    os.path.exists = _os_path_exists
    builtins.open = _open
    io.open = _open
    os.replace = _mk_os('os.replace', 'replace')
    os.rename = _mk_os('os.rename', 'replace')
    os.unlink = _mk_os('os.unlink', 'unlink')
    os.remove = _mk_os('os.remove', 'unlink')


def uninstall():
    import taskchain.cache as tc
    if not _orig:
        return
    tc.FileLock = _orig['FileLock']
    pathlib.Path.exists = _orig['Path.exists']
    os.path.exists = _orig['os.path.exists']
    builtins.open = _orig['open']
    io.open = _orig['open']
    os.replace, os.rename, os.unlink, os.remove = _orig['os.replace'], _orig['os.rename'], _orig['os.unlink'], _orig['os.remove']


# ------------------------------------------------------------------------------------------- one execution

KINDS = {'get': ['get'], 'goc': ['goc', False, False], 'gocF': ['goc', True, False],
         'gocR': ['goc', False, True], 'gocFR': ['goc', True, True]}


def read_file(p):
    """what a reader would find: 'absent' | 'torn' | {'entry': v} (complete entry for KEY)"""
    try:
        with _orig.get('open', builtins.open)(p, 'rb') as f:
            raw = f.read()
    except FileNotFoundError:
        return 'absent'
    try:
        d = json.loads(raw.decode('utf-8'))
        if isinstance(d, dict) and set(d) == {'key', 'value'} and d['key'] == KEY and isinstance(d['value'], int):
            return {'entry': d['value']}
    except Exception:
        pass
    return 'torn'


class Exec:
    """runs `kinds` callers on a fresh cache under a chooser; records everything the comparison and the oracle need"""

    def __init__(self, root, kinds, pre, stale, corrupt=False, share=False):
        import taskchain.cache as tc
        self.tc = tc
        self.kinds, self.pre, self.stale, self.corrupt, self.share = kinds, pre, stale, corrupt, share
        self.root = root
        # fresh state: the directory is reused, the files are removed
        self.cache = tc.JsonCache(root)
        self.final = self.cache.filepath(KEY)
        self.tmp = self.final.with_name('tmp_' + self.final.name)
        for p in (self.final, self.tmp):
            try:
                _orig['os.unlink'](p)
            except FileNotFoundError:
                pass
        self.produced = []          # values of completed computations, in order
        if pre:
            self.cache.save_value(self.final, KEY, 0)
            self.produced.append(0)
        if stale:
            # (longer than any entry a caller will write: a writer that does not truncate publishes its entry with this tail)
            with _orig['open'](self.tmp, 'w') as f:
                f.write('{"key":"k' + 'x' * 300)
        if corrupt and not pre:
            # an unreadable entry at the final path: what a crashed in-place writer of an older release left behind
            with _orig['open'](self.final, 'w') as f:
                f.write('{"key":"k')
        self.ncomp = [0] * len(kinds)

    def caller(self, i):
        kind = self.kinds[i]
        spec = KINDS[kind]

        def comp():
            S.point('compute')
            self.ncomp[i] += 1
            if spec[2]:
                raise Boom()
            v = len(self.produced)
            self.produced.append(v)
            return v

        def fn():
            # nothing of a call runs before the caller is first scheduled (a call that starts late starts late with ALL its code)
            S.point('begin')
            # every caller but the first opens the cache directory itself (as a second process, or the per-call sub-cache of `cached`,
            # does): opening a cache is part of its call and happens whenever the caller is first scheduled
            # (`share`: every caller works on ONE cache object — several look-ups through the object a long-lived component holds)
            cache = self.cache if (i == 0 or self.share is True or (self.share == 'gets' and kind == 'get')) else self.tc.JsonCache(self.root)
            if kind == 'get':
                r = cache.get(KEY)
            else:
                r = cache.get_or_compute(KEY, comp, force=spec[1])
            if r is self.tc.NO_VALUE:
                return 'miss'
            return {'val': r}
        return fn

    def run(self, chooser):
        """chooser(step_index, enabled) -> caller id.  Returns the trace."""
        n = len(self.kinds)
        S.reset(str(self.root))
        S.entry_lock = str(self.final) + '.lock'
        steps = []                 # (caller, label, enabled-before)
        started = {}               # caller -> facts observed by the harness at its first step
        returned_val = False       # some call has returned a value
        ret_step = {}
        status = 'ok'
        try:
            for i in range(n):
                S.spawn(i, self.caller(i))
            while len(S.done) < n:
                en = S.enabled()
                if not en:
                    status = 'deadlock'
                    break
                if len(steps) >= MAX_STEPS:
                    status = 'livelock'
                    break
                t = chooser(len(steps), en)
                if t not in started:
                    started[t] = {'late': returned_val, 'stored': isinstance(read_file(self.final), dict)}
                if S.pending[t] == 'begin':
                    S.step(t)           # the call begins: runs up to its first real scheduling point (not a step of the protocol)
                    if t in S.done:
                        steps.append((t, 'returned-without-a-step', en))
                if t not in S.done:
                    steps.append((t, S.pending[t], en))
                    S.step(t)
                if t in S.done:
                    ret_step[t] = len(steps) - 1
                    if isinstance(S.result.get(t), dict) and 'val' in S.result[t]:
                        returned_val = True
        finally:
            lock = S.lock_owner
            if len(S.done) < n:
                S.kill()
        res = [S.result.get(i, 'running') if i in S.done else 'running' for i in range(n)]
        return {'steps': steps, 'res': res, 'ncomp': list(self.ncomp), 'file': read_file(self.final), 'tmp': read_file(self.tmp),
                'lock': lock, 'status': status, 'started': started, 'produced': list(self.produced)}


def explore(make_exec, depth_limit=None, max_runs=None):
    """stateless DFS over the schedules the implementation admits; yields (schedule, trace)"""
    prefix = []
    runs = 0
    while True:
        ex = make_exec()
        tr = ex.run(lambda i, en: prefix[i] if i < len(prefix) else en[0])
        sched = [s[0] for s in tr['steps']]
        yield sched, tr
        runs += 1
        if max_runs and runs >= max_runs:
            return
        d = len(tr['steps']) - 1
        if depth_limit is not None:
            d = min(d, depth_limit - 1)
        while d >= 0:
            t, _, en = tr['steps'][d]
            k = en.index(t)
            if k + 1 < len(en):
                prefix = sched[:d] + [en[k + 1]]
                break
            d -= 1
        if d < 0:
            return


# ------------------------------------------------------------------------------------------- comparison + oracle

def compare(ctx, cfg, sched, tr, mo):
    case = {'kinds': cfg['kinds'], 'pre': cfg['pre'], 'stale': cfg['stale'], 'share': cfg.get('share', False), 'corrupt': cfg.get('corrupt', False), 'sched': sched}
    impl = {'labels': [s[1] for s in tr['steps']], 'enabled': [s[2] for s in tr['steps']], 'res': tr['res'], 'ncomp': tr['ncomp'],
            'file': tr['file'], 'tmp': tr['tmp'], 'lock': tr['lock'], 'status': tr['status']}
    if 'err' in mo:
        ctx.diverge('conc_run', case, impl, mo)
        return
    model = {'labels': mo['labels'], 'enabled': mo['enabled'], 'res': mo['res'], 'ncomp': mo['ncomp'], 'file': mo['file'],
             'tmp': mo['tmp'], 'lock': mo['lock'],
             'status': 'ok' if mo['stuck'] is None and (mo['enabled_end'] or all(r != 'running' for r in mo['res'])) else
                       ('stuck@%s' % mo['stuck'] if mo['stuck'] is not None else 'deadlock')}
    if impl != model:
        keys = [k for k in impl if impl[k] != model[k]]
        ctx.diverge('conc_run', case, {k: impl[k] for k in keys}, {k: model[k] for k in keys})


def oracle(ctx, cfg, sched, tr):
    """the property on the real code, from what the harness itself observed (no model involved)"""
    case = {'kinds': cfg['kinds'], 'pre': cfg['pre'], 'stale': cfg['stale'], 'share': cfg.get('share', False), 'corrupt': cfg.get('corrupt', False), 'sched': sched}
    if tr['status'] != 'ok':
        ctx.fail(f'callers never finish ({tr["status"]})', case, {'res': tr['res']})
        return
    produced = set(tr['produced'])
    for i, (kind, r) in enumerate(zip(cfg['kinds'], tr['res'])):
        st = tr['started'].get(i, {})
        if isinstance(r, dict) and 'error' in r:
            ctx.fail('a call failed although its own computer did not raise', case, {'caller': i, 'result': r})
        elif r == 'raised':
            if not KINDS[kind][0] == 'goc' or not KINDS[kind][2]:
                ctx.fail('a call raised the computer\'s exception without having such a computer', case, {'caller': i})
        elif r == 'miss':
            if kind != 'get':
                ctx.fail('get_or_compute returned NO_VALUE', case, {'caller': i})
            elif st.get('stored'):
                ctx.fail('get returned NO_VALUE for a key whose entry was stored before the call started', case, {'caller': i})
        elif isinstance(r, dict) and 'val' in r:
            if not (isinstance(r['val'], int) and not isinstance(r['val'], bool) and r['val'] in produced):
                ctx.fail('a call returned a value that no complete computation for the key produced', case, {'caller': i, 'result': r})
        else:
            ctx.fail('unexpected call outcome', case, {'caller': i, 'result': r})
        if st.get('late') and kind in ('goc', 'gocR') and tr['ncomp'][i] > 0:
            ctx.fail('a call that started after another call had returned a value recomputed without force', case, {'caller': i})
    f = tr['file']
    if f == 'torn' and cfg.get('corrupt') and not produced:
        pass        # the unreadable entry that was there before any call, and no computation has completed: nothing could replace it
    elif f == 'torn' or (isinstance(f, dict) and f['entry'] not in produced):
        ctx.fail('at quiescence the stored entry is not a complete entry of a finished computation', case, {'file': f})
    if f == 'absent' and any(isinstance(r, dict) and 'val' in r for r in tr['res']):
        ctx.fail('a call returned a value but nothing is stored at quiescence', case, {'file': f})


def model_req(cfg, sched):
    return {'m': 'conc', 'op': 'run', 'mode': 'atomic', 'kinds': [KINDS[k] for k in cfg['kinds']], 'pre': cfg['pre'],
            'stale': cfg['stale'], 'corrupt': cfg.get('corrupt', False), 'sched': sched}


def check_batch(ctx, batch):
    mos = ctx.model.many([model_req(cfg, sched) for cfg, sched, _ in batch])
    for (cfg, sched, tr), mo in zip(batch, mos):
        labels = [s[1] for s in tr['steps']]
        nontrivial = 'compute' in labels or 'openr' in labels
        ctx.case({'kinds': cfg['kinds'], 'pre': cfg['pre'], 'stale': cfg['stale'], 'share': cfg.get('share', False), 'corrupt': cfg.get('corrupt', False),
                  'sched': sched}, nontrivial=nontrivial)
        if cfg.get('share'):
            ctx.count('one-cache-object')
        ctx.count(f'callers={min(len(cfg["kinds"]), 4)}{"+" if len(cfg["kinds"]) >= 4 else ""}')
        ctx.count('pre' if cfg['pre'] else ('corrupt-entry' if cfg.get('corrupt') else 'empty'))
        ncomp = sum(tr['ncomp'])
        ctx.count(f'computations={min(ncomp, 3)}')
        if any(st.get('late') for st in tr['started'].values()):
            ctx.count('has_late_caller')
        if any(r == 'raised' for r in tr['res']):
            ctx.count('has_raise')
        if any(r == 'miss' for r in tr['res']):
            ctx.count('has_miss')
        # a reader loading while a writer is inside its critical section: the window the property is about
        holder = None
        for t, lab, en in tr['steps']:
            if lab == 'openr' and holder is not None and holder != t:
                ctx.count('load_overlaps_writer')
                break
            if lab == 'compute':
                holder = t
            elif lab == 'release' and holder == t:
                holder = None
        compare(ctx, cfg, sched, tr, mo)
        oracle(ctx, cfg, sched, tr)


def configs2():
    ks = list(KINDS)
    out = []
    for a in range(len(ks)):
        for b in range(a, len(ks)):
            for pre in (False, True):
                out.append({'kinds': [ks[a], ks[b]], 'pre': pre, 'stale': False})
    out.append({'kinds': ['goc', 'goc'], 'pre': False, 'stale': True})
    out.append({'kinds': ['get', 'gocF'], 'pre': True, 'stale': True})
    # callers that work on one cache object (a look-up, a computation, in either order)
    for ks_ in (['get', 'goc'], ['get', 'get'], ['goc', 'goc'], ['get', 'gocF']):
        for pre in (False, True):
            out.append({'kinds': ks_, 'pre': pre, 'stale': False, 'share': True})
    # an unreadable entry lying at the final path
    out.append({'kinds': ['goc', 'goc'], 'pre': False, 'stale': False, 'corrupt': True})
    out.append({'kinds': ['get', 'goc'], 'pre': False, 'stale': False, 'corrupt': True})
    return out


def run(ctx, search=False):
    import tcv.quiet
    tcv.quiet.quiet()
    root = ctx.tmpdir() / 'c15'
    root.mkdir(exist_ok=True)
    install()
    try:
        batch = []

        def flush(force=False):
            if batch and (force or len(batch) >= 1000):
                check_batch(ctx, batch)
                batch.clear()

        def enough():
            # a broken implementation (e.g. no mutual exclusion) has astronomically many interleavings: once failing
            # schedules are in hand the enumeration stops; on the unchanged tree this never triggers
            return len(ctx.failures) >= 50

        def explore_all(cfg, cap):
            k = 0
            for sched, tr in explore(lambda: Exec(root, cfg['kinds'], cfg['pre'], cfg['stale'], cfg.get('corrupt', False), cfg.get('share', False)), max_runs=cap):
                batch.append((cfg, sched, tr))
                flush()
                k += 1
                if enough():
                    break
            if k >= cap:
                ctx.count('exploration_capped')
                ctx.notes.setdefault('capped', []).append(cfg)
        # ---- all interleavings of two callers
        for cfg in configs2():
            if enough():
                break
            explore_all(cfg, 5000)
        flush(True)
        ctx.notes['two_caller_schedules'] = ctx.evaluations
        # ---- three callers: all interleavings (quick: kinds without raising computers; thorough: all kinds)
        import itertools
        ks = list(KINDS)
        base = ks if ctx.thorough else ['get', 'goc', 'gocF']
        for kinds in itertools.combinations_with_replacement(base, 3):
            for pre in (False, True):
                cfg = {'kinds': list(kinds), 'pre': pre, 'stale': False}
                if not enough():
                    explore_all(cfg, 5000)
        # a look-up, a computation through another object, a second look-up through the FIRST object
        if not enough():
            explore_all({'kinds': ['get', 'goc', 'get'], 'pre': False, 'stale': False, 'share': 'gets'}, 5000)
        # three callers over an unreadable entry: two that find it, one more
        for kinds in ((['goc', 'goc', 'get'], ['goc', 'get', 'get']) if ctx.thorough else ()):
            if not enough():
                explore_all({'kinds': kinds, 'pre': False, 'stale': False, 'corrupt': True}, 200000)
        flush(True)
        ctx.notes['exhaustive_schedules'] = ctx.evaluations
        # ---- seeded random schedules: 3 callers (all kinds), thorough also 4 and 5 callers
        n3 = ctx.n(600, 6000)
        for i in range(n3):
            if enough():
                break
            rng = ctx.rng('rand', i)
            nc = 3 if not ctx.thorough else rng.choice([3, 4, 4, 5])
            kinds = [rng.choice(ks) for _ in range(nc)]
            if rng.random() < 0.5:
                kinds[rng.randrange(nc)] = 'goc'
            cfg = {'kinds': kinds, 'pre': rng.random() < 0.35, 'stale': rng.random() < 0.1}
            cfg['corrupt'] = not cfg['pre'] and rng.random() < 0.15
            cfg['share'] = rng.random() < 0.25
            style = rng.random()
            state = {'last': None}

            def chooser(j, en, rng=rng, style=style, state=state):
                # uniform, or biased towards long runs of one caller (whole calls complete before others start)
                if style < 0.5:
                    return rng.choice(en)
                if state['last'] in en and rng.random() < 0.75:
                    return state['last']
                state['last'] = rng.choice(en)
                return state['last']
            tr = Exec(root, cfg['kinds'], cfg['pre'], cfg['stale'], cfg.get('corrupt', False), cfg.get('share', False)).run(chooser)
            batch.append((cfg, [s[0] for s in tr['steps']], tr))
            flush()
        flush(True)
    finally:
        uninstall()
    smoke(ctx)
    first_use_race(ctx)


def smoke(ctx):
    """real filelock, real processes (fork): many callers hammer one key; oracle only"""
    import multiprocessing as mp
    import taskchain.cache as tc
    root = ctx.tmpdir() / 'c15smoke'
    mpc = mp.get_context('fork')
    q = mpc.Queue()

    def worker(i, root, q):
        try:
            cache = tc.JsonCache(root)
            out = []
            for j in range(20):
                r = cache.get_or_compute(KEY, lambda: {'by': i, 'n': j, 'pad': 'x' * 2000}, force=(i == 0 and j % 5 == 0))
                out.append(r if isinstance(r, dict) and set(r) == {'by', 'n', 'pad'} and r['pad'] == 'x' * 2000 else 'BAD')
                g = cache.get(KEY)
                out.append(g if g is tc.NO_VALUE or (isinstance(g, dict) and g.get('pad') == 'x' * 2000) else 'BAD')
                if g is tc.NO_VALUE:
                    out.append('MISS')
            q.put((i, 'ok', sum(1 for o in out if o == 'BAD'), sum(1 for o in out if o == 'MISS')))
        except Exception as e:  # noqa
            q.put((i, type(e).__name__, 0, 0))
    procs = [mpc.Process(target=worker, args=(i, root, q)) for i in range(4)]
    for p in procs:
        p.start()
    res = []
    for _ in procs:
        try:
            res.append(q.get(timeout=120))
        except Exception:
            from tcv.core import BrokenCheck
            raise BrokenCheck('multi-process smoke run timed out')
    for p in procs:
        p.join(timeout=30)
    case = {'smoke': '4 processes x 20 rounds, real filelock'}
    ctx.case(case)
    ctx.count('smoke_processes')
    for i, status, bad, miss in res:
        if status != 'ok':
            ctx.fail('a call failed under real multi-process use', case, {'process': i, 'error': status})
        if bad:
            ctx.fail('a call returned an incomplete value under real multi-process use', case, {'process': i, 'bad': bad})
        if miss:
            ctx.fail('get returned NO_VALUE right after get_or_compute returned, under real multi-process use', case, {'process': i})


def first_use_race(ctx):
    """two callers meet on an entry nobody has touched yet (so everything the cache creates on first use is created by both at
    once): real threads, real filelock; the only forcing is a rendezvous inside os.mkdir (both callers are let into the directory
    creation together, whatever each of them checked before).  Oracle: no caller fails, get_or_compute returns the computed value (both callers may compute: the property does not forbid it)."""
    import threading as th
    import taskchain.cache as tc
    root = ctx.tmpdir() / 'c15first'
    root.mkdir(exist_ok=True)
    real_mkdir = os.mkdir
    for i in range(ctx.n(8, 60)):
        d = root / f'r{i}'
        d.mkdir()
        cache = tc.JsonCache(d)
        bar = th.Barrier(2)
        key = f'{KEY}{i}'

        def mk(path, *a, _bar=bar, _d=str(d), **kw):
            if os.fspath(path).startswith(_d):
                try:
                    _bar.wait(timeout=1.5)
                except th.BrokenBarrierError:
                    pass
            return real_mkdir(path, *a, **kw)
        computed, out = [], {}

        def caller(n, how):
            try:
                if how == 'goc':
                    out[n] = cache.get_or_compute(key, lambda: (computed.append(n), {'v': i})[1])
                else:
                    out[n] = cache.get(key)
            except Exception as e:  # noqa
                import traceback
                out[n] = {'error': f'{type(e).__name__}: {e}'[:200], 'trace': traceback.format_exc()[-1500:]}
        hows = ['goc', 'goc'] if i % 3 else ['goc', 'get']
        os.mkdir = mk
        try:
            ts = [th.Thread(target=caller, args=(n, h), daemon=True) for n, h in enumerate(hows)]
            for t in ts:
                t.start()
            for t in ts:
                t.join(20)
        finally:
            os.mkdir = real_mkdir
        case = {'probe': 'first-use race', 'round': i, 'callers': hows}
        ctx.case(case, nontrivial=True); ctx.count('first_use_race')
        for n, h in enumerate(hows):
            r = out.get(n, {'error': 'no result (deadlock?)'})
            if isinstance(r, dict) and 'error' in r:
                ctx.fail('a caller failed because another caller touched the same entry for the first time concurrently', case, {'caller': n, **r})
            elif h == 'goc' and r != {'v': i}:
                ctx.fail('a concurrent first use returned a wrong value', case, {'caller': n, 'value': repr(r)[:100]})


def search(ctx, divergences):
    run(ctx, search=True)


def sanity(ctx):
    from tcv.core import BrokenCheck
    if ctx.failures or ctx.divergences:
        return          # a verdict is being reported; the distribution of a broken implementation says nothing
    c = ctx.counts
    if c.get('exploration_capped'):
        raise BrokenCheck(f'exhaustive enumeration was cut off although nothing diverged: {ctx.notes.get("capped")}')
    need = ['callers=2', 'callers=3', 'has_late_caller', 'has_raise', 'has_miss', 'load_overlaps_writer', 'computations=2']
    missing = [k for k in need if c.get(k, 0) < 20]
    if missing or c.get('computations=0', 0) > 0.5 * ctx.evaluations:
        raise BrokenCheck(f'schedule distribution collapsed: missing {missing}: {c}')
