"""C08 — the dependency graph is exactly the declared one, and acyclic (builder level).

Generated pipelines x mountings (the same file mounted several times, namespace names deliberately chosen as textual
prefixes/suffixes of task, group and other namespace names), multi-part files, contexts, JSON and YAML; plus a malformed
stream (cycles of length 1-5, dangling required/optional inputs, duplicate input names).  Compared with the Lean builder model:
tasks, parameters, ordered inputs, keys, object sharing, error/no error.  Oracle (executable reference + independent
reachability): node set, edge set, the three closure queries for all pairs, construction error for cyclic/dangling declarations."""
import json
from tcv import builder, pipeline as pl, refbuild
from tcv.quiet import quiet

RULE = ('seeded (classes, config tree, context) triples: 2-7 classes with colliding names/groups, inputs by class / name / '
        'group- or namespace-qualified name / pattern / optional; 1-4 files with `uses` (with and without namespaces from a '
        'colliding alphabet), 30% multi-part files with #part references, 25% YAML, contexts none/dict/file/list/nested uses; '
        'a malformed stream with cycles, dangling and duplicate inputs; compared with the Lean builder (full task description or '
        'error) and with the reference graph; distinct = distinct specs; non-trivial = built chain with >= 2 tasks or a malformed case')
ASSUMPTIONS = ['pattern inputs restricted to `literal` and `literal.*`; `~~` patterns meaningful only from the root namespace (the code '
               'prefixes the match with the namespace and fails; model and reference reproduce that)',
               'import-string prefix matching is avoided by prefix-free generated class names; no placeholders at this level (C11)',
               'chains deeper than the interpreter recursion limit are outside the model (environment limit)']
TRUSTED = ['networkx descendants/ancestors/has_path/is_directed_acyclic_graph are compared against an independent reachability']


def ref_build(spec, b):
    spec = builder.expand_star(spec)
    fs = {str(b.path(rel)): pl.subst_paths(d, b) for rel, d in spec['files'].items()}
    classes = {cid: {**c, 'slug': builder.gen.slug_of(c, spec['module'])} for cid, c in spec['classes'].items()}
    ctx = pl.subst_paths(spec.get('context'), b) if spec.get('context') is not None else None
    try:
        new = refbuild.build(fs, str(b.path(spec['main'])), classes, ctx_src=ctx, reprfn=lambda v: repr(v))
    except (refbuild.BuildError, KeyError, RecursionError) as e:
        return {'error': getattr(e, 'kind', type(e).__name__)}
    return {'ok': new}


def reach(edges, nodes):
    """reflexive-transitive closure by plain iteration: desc[a] = everything downstream of a (incl. a)"""
    desc = {n: {n} for n in nodes}
    changed = True
    while changed:
        changed = False
        for a, b in edges:            # a is an input of b
            for n in nodes:
                if a in desc[n] and b not in desc[n]:
                    desc[n].add(b); changed = True
    return desc


def check_case(ctx, spec, root, tag, model_out):
    from taskchain.task import Task
    b = pl.materialize(spec, root / tag, modname=spec['module'])
    impl = builder.build_impl(spec, b, root / (tag + '_data'))
    case = {'module': spec['module'], 'main': spec['main'], 'ctx_kind': spec.get('ctx_kind'), 'malformed': spec.get('malformed'),
            'files': list(spec['files']), 'classes': {k: {'slug': builder.slug(c), 'inputs': c['inputs']} for k, c in spec['classes'].items()}}
    full_case = {**case, 'spec': spec}
    ctx.case(case, nontrivial=spec.get('malformed') or ('ok' in impl and len(impl['ok']) >= 2))
    ctx.count('built' if 'ok' in impl else f"error:{impl['error']}")
    ctx.count('malformed' if spec.get('malformed') else 'wellformed')
    if spec.get('family'):
        ctx.count('family:' + spec['family'])
    # ---- correspondence
    if ('ok' in impl) != ('ok' in model_out):
        ctx.diverge('builder:error-vs-chain', full_case, impl.get('error', 'chain'), model_out.get('error', 'chain'))
    elif 'error' in impl and impl['error'] != model_out['error'] and not (impl['error'].startswith('other') or model_out['error'] in ('not_found', 'ambiguous')):
        ctx.diverge('builder:error-kind', full_case, impl['error'], model_out['error'])
    elif 'ok' in impl:
        a, m = builder.canon_tasks(impl['ok']), builder.canon_tasks(model_out['ok'])
        # the ORDER in which a pattern input (`~…`) lists the tasks it expands to is the iteration order of the task table at that moment —
        # no part of what C08 states (the edges are a set); the model's order differs from the code's in rare shapes (a re-created task
        # table): for classes that declare a pattern the input tables are compared as sets, and a differing order is counted, not reported
        pat = {pl.pyname(cid) for cid, c in spec['classes'].items() if any(i['by'] == 'name' and str(i['ref']).startswith('~') for i in c['inputs'])}
        pat |= {cid for cid, c in spec['classes'].items() if any(i['by'] == 'name' and str(i['ref']).startswith('~') for i in c['inputs'])}
        for x, y in zip(a, m):
            if x.get('cid') in pat and x['inputs'] != y['inputs'] and sorted(map(json.dumps, x['inputs'])) == sorted(map(json.dumps, y['inputs'])):
                ctx.count('pattern-expansion-order-differs')
                y['inputs'] = x['inputs']
        if a != m:
            k = next((i for i, (x, y) in enumerate(zip(a, m)) if x != y), min(len(a), len(m)))
            ctx.diverge('builder:tasks', full_case, a[k] if k < len(a) else None, m[k] if k < len(m) else None)
    # ---- oracle on the real code
    ref = ref_build(spec, b)
    slugs = [builder.slug(c) for c in spec['classes'].values()]
    if ref.get('error') == 'cyclic_or_too_deep' and len(set(slugs)) == len(slugs):   # (two classes with one name: which one wins differs by mode)
        # the same declarations in name mode (no keys, so no recursion over inputs): the acyclicity check must refuse them
        ch2, err2 = pl.build(b, root / (tag + '_data_nm'), parameter_mode=False)
        ctx.count('cycle-in-name-mode')
        if err2 is None:
            ctx.fail('a dependency cycle produced a chain in name mode', full_case, {'tasks': list(ch2.tasks)})
    if 'error' in ref:
        if 'ok' in impl:
            ctx.fail(f"construction produced a chain although the declarations are invalid ({ref['error']})", full_case,
                     {'reference': ref['error'], 'tasks': [t['full'] for t in impl['ok']]})
    elif 'error' in impl:
        ctx.fail('construction failed although the declarations are valid', full_case, {'error': impl['error'], 'reference_tasks': list(ref['ok'])})
    else:
        new = ref['ok']
        chain = impl['chain']
        nodes_ref, nodes_impl = set(new), set(chain.tasks)
        if nodes_ref != nodes_impl:
            ctx.fail('chain does not contain exactly the declared, non-abstract, non-excluded tasks', full_case,
                     {'missing': sorted(nodes_ref - nodes_impl), 'extra': sorted(nodes_impl - nodes_ref)})
        else:
            # shared objects (the same computation mounted twice) are one node: name every object by its first listing
            rname = {}
            for n, t in new.items():
                rname.setdefault(id(t), n)
            e_ref = {(rname[id(it)], rname[id(t)]) for n, t in new.items() for it in t.inputs.values() if isinstance(it, refbuild.T)}
            name_of = {}
            for n, t in chain.tasks.items():
                name_of.setdefault(id(t), n)
            e_impl = {(name_of[id(it)], name_of[id(t)]) for n, t in chain.tasks.items() for it in t.input_tasks.values() if isinstance(it, Task)}
            e_graph = {(name_of[id(a)], name_of[id(c)]) for a, c in chain.graph.edges}
            if e_ref != e_impl or e_impl != e_graph:
                ctx.fail('dependency edges differ from the declared input tasks resolved in the declaring task\'s namespace', full_case,
                         {'missing': sorted(e_ref - e_impl), 'extra': sorted(e_impl - e_ref), 'graph_vs_inputs': sorted(e_graph ^ e_impl)})
            else:
                onodes = set(rname.values())
                desc = reach(e_ref, onodes)
                nodes_ref = onodes
                for n in nodes_ref:
                    dn = {name_of[id(t)] for t in chain.dependent_tasks(n, include_self=True)}
                    rq = {name_of[id(t)] for t in chain.required_tasks(n, include_self=True)}
                    exp_rq = {m for m in nodes_ref if n in desc[m]}
                    if dn != desc[n] or rq != exp_rq:
                        ctx.fail('dependent_tasks / required_tasks are not the transitive closures of the declared relation', full_case,
                                 {'task': n, 'dependent': sorted(dn), 'expected': sorted(desc[n]), 'required': sorted(rq), 'expected_required': sorted(exp_rq)})
                        break
                    # the same queries without the task itself, asked AFTER the inclusive ones (and twice): an answer does not depend on
                    # what was asked before
                    for _ in range(2):
                        dn0 = {name_of[id(t)] for t in chain.dependent_tasks(n)}
                        rq0 = {name_of[id(t)] for t in chain.required_tasks(n)}
                        if dn0 != desc[n] - {n} or rq0 != exp_rq - {n}:
                            ctx.fail('dependent_tasks / required_tasks (without the task itself) are not the proper transitive closures', full_case,
                                     {'task': n, 'dependent': sorted(dn0), 'expected': sorted(desc[n] - {n}), 'required': sorted(rq0), 'expected_required': sorted(exp_rq - {n})})
                            break
                    for m in nodes_ref:
                        if chain.is_task_dependent_on(m, n) != (m in desc[n]):
                            ctx.fail('is_task_dependent_on disagrees with the transitive closure', full_case, {'task': m, 'on': n})
                            break
                ctx.count('closure-queries', len(nodes_ref) ** 2)
    b.cleanup_module()


def canon_nm(ts):
    """comparable form of a name-mode chain: object ids renumbered by first occurrence"""
    ren, by_name, out = {}, {t['full']: t['obj'] for t in ts}, []
    for t in ts:
        ins = [[k, {'obj': by_name.get(v['task'], -1)} if 'task' in v else v] for k, v in t['inputs']]
        out.append({**{k: t[k] for k in ('full', 'cid', 'slug', 'ns', 'params', 'key')}, 'obj': t['obj'], 'inputs': ins})
    for u in out:
        u['obj'] = ren.setdefault(u['obj'], len(ren))
        for k, v in u['inputs']:
            if 'obj' in v:
                v['obj'] = ren.setdefault(v['obj'], len(ren))
    return out


def check_name_mode(ctx, spec, root, tag, model_out):
    """`Chain(config, parameter_mode=False)` vs the Lean model `BuildNM.build`: tasks, the objects behind them (one object per
    (task name, config file) — a pipeline mounted twice is ONE set of objects), their parameters, inputs, the config name as
    storage key; dependency cycles and the other construction errors"""
    b = pl.materialize(spec, root / tag, modname=spec['module'])
    impl = builder.build_impl(spec, b, root / (tag + '_data'), parameter_mode=False)
    case = {'module': spec['module'], 'main': spec['main'], 'mode': 'name', 'malformed': spec.get('malformed'), 'spec': spec}
    ctx.case({k: v for k, v in case.items() if k != 'spec'}, nontrivial='ok' in impl and len(impl['ok']) >= 2)
    ctx.count('name-mode:built' if 'ok' in impl else f"name-mode:error:{impl['error']}")
    if ('ok' in impl) != ('ok' in model_out):
        ctx.diverge('builder-name-mode:error-vs-chain', case, impl.get('error', 'chain'), model_out.get('error', 'chain'))
    elif 'error' in impl:
        if impl['error'] != model_out['error'] and not (impl['error'].startswith('other') or model_out['error'] in ('not_found', 'ambiguous')):
            ctx.diverge('builder-name-mode:error-kind', case, impl['error'], model_out['error'])
    else:
        a, m = canon_nm(impl['ok']), canon_nm(model_out['ok'])
        if a != m:
            k = next((i for i, (x, y) in enumerate(zip(a, m)) if x != y), min(len(a), len(m)))
            ctx.diverge('builder-name-mode:tasks', case, a[k] if k < len(a) else None, m[k] if k < len(m) else None)
    b.cleanup_module()


def run(ctx):
    quiet()
    root = ctx.tmpdir()
    n = ctx.n(140, 2000)
    m = ctx.n(60, 800)
    specs = []
    for i in range(n):
        specs.append(builder.gen_case(ctx.rng('wf', i)))
    for i in range(m):
        specs.append(builder.gen_case(ctx.rng('mal', i), malformed=True))
    for i in range(ctx.n(25, 300)):
        specs.append(builder.gen_case(ctx.rng('conflict', i), conflict=True))
    for i in range(ctx.n(40, 400)):
        specs.append(builder.gen_pattern_case(ctx.rng('pattern-up', i)))
    for i in range(ctx.n(30, 300)):
        specs.append(builder.gen_wildcard_case(ctx.rng('wildcard', i)))
    for i in range(ctx.n(24, 240)):
        specs.append(builder.gen_rootref_case(ctx.rng('root-ref', i)))
    for i in range(ctx.n(16, 160)):
        specs.append(builder.gen_exclusion_case(ctx.rng('exclusion', i)))
    reqs = []
    for i, spec in enumerate(specs):
        b = pl.Built(root / f'c{i}', spec['module'], spec)
        reqs.append(builder.encode(spec, b))
    outs = ctx.model.many(reqs)
    for i, (spec, mo) in enumerate(zip(specs, outs)):
        check_case(ctx, spec, root, f'c{i}', mo)
    # ---- the same specs in name mode (every second one)
    nm = [(i, spec) for i, spec in enumerate(specs) if i % 2 == 0]
    nouts = ctx.model.many([{**reqs[i], 'op': 'build_nm'} for i, _ in nm])
    for (i, spec), mo in zip(nm, nouts):
        check_name_mode(ctx, spec, root, f'n{i}', mo)
    k8_witness(ctx, root)
    glob_correspondence(ctx, root)
    unannotated_probe(ctx, root)
    homonym_probe(ctx, root)


def k8_witness(ctx, root):
    """finding K8 (Lean: `C08.k8_same_namespace_fails` / `k8_other_namespace_builds`): `p.json` uses `q.json as raw` and its task `down` takes
    `raw::up`; mounted `as zz` the chain builds with the edge zz::raw::up -> zz::down, mounted `as raw` the reference is read as already
    qualified and construction fails.  Model and implementation are compared on both; the failing one is reported as KNOWN-FINDING."""
    spec = {'classes': {'K0': {'name': 'up', 'group': '', 'params': [], 'inputs': [], 'kind': 'json', 'run_args': []},
                        'K1': {'name': 'down', 'group': '', 'params': [], 'inputs': [{'by': 'name', 'ref': 'raw::up'}], 'kind': 'json', 'run_args': [],
                               'pull': ['raw::up'], 'in_kinds': {'raw::up': 'json'}}},
            'files': {'q.json': {'tasks': ['K0']}, 'p.json': {'tasks': ['K1'], 'uses': ['@cfg/q.json as raw']},
                      'main_zz.json': {'uses': ['@cfg/p.json as zz']}, 'main_raw.json': {'uses': ['@cfg/p.json as raw']},
                      'main_ab.json': {'uses': ['@cfg/p.json as ra']}}, 'main': 'main_zz.json', 'module': builder.gen.fresh_modname()}
    b = pl.materialize(spec, root / 'k8', modname=spec['module'])
    b.module()
    for main, outer in (('main_zz.json', 'zz'), ('main_ab.json', 'ra'), ('main_raw.json', 'raw')):
        case = {'witness': 'K8', 'mounted_as': outer, 'inner_namespace': 'raw', 'input': 'raw::up'}
        ctx.case(case)
        chain, err = pl.build(b, root / 'k8' / 'data', main=main)
        mo = ctx.model.one(builder.encode({**spec, 'main': main}, b))
        if (chain is None) != ('error' in mo):
            ctx.diverge('build:k8-witness', case, err or 'chain', mo.get('error', 'chain'))
        if outer != 'raw':
            if chain is None or not any(k.endswith('raw::up') for k in chain.tasks[f'{outer}::down'].input_tasks):
                ctx.fail('a pipeline with an inner namespace does not build under an unrelated outer namespace', case, {'error': err})
        elif chain is None:
            ctx.fail('K8 witness: a by-name input that starts with the declaring namespace is not resolved inside that namespace', case,
                     {'error': err, 'exists': 'raw::raw::up'}, known='K8')
        else:
            ctx.notes['K8'] = 'witness builds: finding K8 appears repaired'
    b.cleanup_module()


def glob_correspondence(ctx, root):
    """wildcard import strings: a generated module with task classes, helper classes and functions × patterns (`*`, `Pre*`, `*Suf`, `A*B`,
    literal prefixes) through the real `get_classes_by_import_string(..., Task)` vs `Names.globSelect` of the Lean model on the task-class
    names in definition order; oracle: a literal pattern selects the names it is a prefix of, `*` every task class"""
    from taskchain import Task
    from taskchain.utils.clazz import get_classes_by_import_string
    frags = ['Train', 'Model', 'Data', 'T', 'K1', 'K10', 'X', '_P', 'Eval', 'Task']
    for k in range(ctx.n(12, 120)):
        rng = ctx.rng('glob', k)
        names = []
        while len(names) < rng.randint(2, 7):
            nm = ''.join(rng.choice(frags) for _ in range(rng.randint(1, 3)))
            if nm not in names and nm not in ('Task',) and not nm.startswith('__'):
                names.append(nm)
        modname = builder.gen.fresh_modname()
        spec = {'classes': {}, 'files': {}, 'main': None, 'module': modname}
        b = pl.materialize(spec, root / f'glob{k}', modname=modname)
        f = (root / f'glob{k}').joinpath(*modname.split('.')).with_suffix('.py')
        src = f.read_text()
        for nm in names:
            src += f"\n\nclass {nm}(Task):\n    def run(self) -> int:\n        return 1\n"
        src += "\n\nclass NotATask:\n    pass\n\n\ndef Trainer():\n    return 1\n"
        f.write_text(src)
        b.module()
        pats = ['*', rng.choice(names), rng.choice(names)[:2] + '*', '*' + rng.choice(frags), rng.choice(frags) + '*' + rng.choice(frags),
                rng.choice(names)[:1], '*' + rng.choice(frags) + '*', rng.choice(names) + '*']
        mod = b.module()
        # a pattern with a wildcard ranges over the members DEFINED in the module; without one, the first member of the module's namespace
        # (imported names included) whose name it is a prefix of is taken — then the caller keeps it if it is a task class
        members = [n for n in vars(mod) if not n.startswith('__')]
        mos = ctx.model.many([{'m': 'names', 'op': 'glob', 'pat': p_, 'names': names if '*' in p_ else members} for p_ in pats])
        for p_, mo in zip(pats, mos):
            case = {'classes': names, 'pattern': p_}
            ctx.case(case, nontrivial='*' in p_); ctx.count('glob:' + ('wildcard' if '*' in p_ else 'literal'))
            try:
                got = [c.__name__ for c in get_classes_by_import_string(f'{modname}.{p_}', Task)]
            except ImportError:
                got = []
            exp = mo.get('selected')
            if '*' not in p_:
                first = exp[:1]
                exp = [n for n in first if isinstance(getattr(mod, n), type) and issubclass(getattr(mod, n), Task)]
            if got != exp:
                ctx.diverge('import_by_string:wildcard', case, got, exp)
            if p_ == '*' and got != names:
                ctx.fail('`module.*` does not stand for every task class of the module, in definition order', case, got)
            if '*' not in p_ and got and not got[0].startswith(p_.split('.')[-1]):
                ctx.fail('an import string selected a class whose name does not start with it', case, got)
        b.cleanup_module()


def unannotated_probe(ctx, root):
    """a chain contains EXACTLY the non-abstract classes its configs declare — or construction fails: a module declared by wildcard that holds
    a non-abstract task class the library cannot instantiate (no return annotation, so no data type) does not yield a chain without it"""
    from taskchain import Task
    for k in range(ctx.n(4, 24)):
        rng = ctx.rng('unannotated', k)
        spec = {'classes': {'K0': {'name': 'up', 'group': '', 'params': [], 'inputs': [], 'kind': 'json', 'run_args': []},
                            'K1': {'name': 'down', 'group': '', 'params': [], 'inputs': [{'by': 'name', 'ref': '~u.*'}, {'by': 'name', 'ref': 'unmarked', 'default': 3}],
                                   'kind': 'json', 'run_args': [], 'pull': [], 'in_kinds': {}}},
                'files': {'main.json': {'tasks': '*'}}, 'main': 'main.json', 'module': builder.gen.fresh_modname()}
        b = pl.materialize(spec, root / f'unann{k}', modname=spec['module'])
        f = (root / f'unann{k}').joinpath(*spec['module'].split('.')).with_suffix('.py')
        f.write_text(f.read_text() + "\n\nclass Unmarked(Task):\n    def run(self):\n        return {'u': 1}\n")
        b.module()
        how = rng.choice(['*', 'T*+U*', 'explicit'])
        if how != '*':
            import json as _json
            pf = b.path('main.json')
            d = _json.loads(pf.read_text())
            m = spec['module']
            d['tasks'] = [f'{m}.T*', f'{m}.U*'] if how == 'T*+U*' else [f'{m}.{pl.pyname("K0")}', f'{m}.{pl.pyname("K1")}', f'{m}.Unmarked']
            pf.write_text(_json.dumps(d))
        case = {'probe': 'declared class without a return annotation', 'declared_by': how}
        ctx.case(case); ctx.count('unannotated-probe')
        chain, err = None, None
        try:
            chain = pl.make_config(b, root / f'unann{k}' / 'data').chain()
        except Exception as e:      # noqa: any construction error is fine — a chain is not
            err = f'{type(e).__name__}: {e}'[:120]
        if chain is not None and 'unmarked' not in chain.tasks:
            ctx.fail('a chain was built without a non-abstract class its config declares (no error)', case,
                     {'tasks': sorted(chain.tasks), 'inputs_of_down': sorted(map(str, chain.tasks['down'].input_tasks))})
        b.cleanup_module()


def homonym_probe(ctx, root):
    """edges are the DECLARED ones: (i) names are case-sensitive — an optional input `Summary` absent from the chain stays absent beside a task
    `summary`, `raw:Table` and `clean:table` are two names; (ii) an input declared BY CLASS is that class: when the class is not in the chain,
    a task of another class that happens to have the same name in another group (`legacy:features`) does not stand in — construction fails
    for a required input, the default is used for an optional one"""
    from taskchain import Task, Config
    from taskchain.parameter import InputTaskParameter

    class Summary(Task):
        class Meta:
            name = 'summary'

        def run(self) -> int:
            return 1

    class RawTable(Task):
        class Meta:
            name = 'Table'
            task_group = 'raw'

        def run(self) -> int:
            return 2

    class CleanTable(Task):
        class Meta:
            name = 'table'
            task_group = 'clean'

        def run(self) -> int:
            return 3

    class Report(Task):
        class Meta:
            name = 'report'
            input_tasks = ['Table', 'table']
            parameters = [InputTaskParameter('Summary', default='no-summary')]

        def run(self, Summary) -> list:
            return [Summary, self.input_tasks['Table'].value, self.input_tasks['table'].value]
    case = {'probe': 'names that differ in letter case'}
    ctx.case(case); ctx.count('homonym-probe:case')
    try:
        ch = Config(root / 'homonym', name='c', data={'tasks': [Summary, RawTable, CleanTable, Report]}).chain()
        v = ch['report'].value
        if v != ['no-summary', 2, 3]:
            ctx.fail('an input was bound to a task whose name differs in letter case', case, {'value': v})
    except Exception as e:      # noqa
        ctx.fail('a chain with task names that differ only in letter case cannot be built', case, f'{type(e).__name__}: {e}'[:200])

    # (iii) declarations inherited through `class Meta(Parent.Meta)`: the inputs the parent's Meta declares are the child's too
    class Up(Task):
        class Meta:
            name = 'up'

        def run(self) -> int:
            return 5

    class ParentT(Task):
        class Meta:
            name = 'parent_t'
            input_tasks = [Up]

        def run(self, up) -> int:
            return up

    class ChildT(ParentT):
        class Meta(ParentT.Meta):
            name = 'child_t'
    case = {'probe': 'inputs declared in an inherited Meta'}
    ctx.case(case); ctx.count('homonym-probe:inherited-meta')
    try:
        ch = Config(root / 'homonym0', name='c', data={'tasks': [Up, ChildT]}).chain()
        ins = sorted(str(k) for k, v in ch['child_t'].input_tasks.items() if hasattr(v, 'fullname'))
        if ins != ['up'] or not ch.is_task_dependent_on('child_t', 'up'):
            ctx.fail('a task lacks the input edge its (inherited) Meta declares', case, {'inputs': ins})
    except Exception as e:      # noqa
        ctx.fail('a chain with a task whose Meta inherits its declarations cannot be built', case, f'{type(e).__name__}: {e}'[:200])

    class Features(Task):
        class Meta:
            name = 'features'

        def run(self) -> int:
            return 10

    class LegacyFeatures(Task):
        class Meta:
            name = 'features'
            task_group = 'legacy'

        def run(self) -> int:
            return 20

    class NeedsRequired(Task):
        class Meta:
            name = 'needs'
            input_tasks = [Features]

        def run(self, features) -> int:
            return features

    class NeedsOptional(Task):
        class Meta:
            name = 'maybe'
            parameters = [InputTaskParameter(Features, default=-1)]

        def run(self, features) -> int:
            return features
    case = {'probe': 'by-class input whose class is not in the chain, a homonym in another group is'}
    ctx.case(case); ctx.count('homonym-probe:by-class')
    try:
        ch = Config(root / 'homonym2', name='c', data={'tasks': [LegacyFeatures, NeedsRequired]}).chain()
        ctx.fail('a required by-class input whose class is not declared was bound to a task of another class (no error)', case,
                 {'inputs': sorted(map(str, ch['needs'].input_tasks))})
    except (ValueError, KeyError):
        pass
    try:
        ch = Config(root / 'homonym3', name='c', data={'tasks': [LegacyFeatures, NeedsOptional]}).chain()
        if ch['maybe'].value != -1:
            ctx.fail('an optional by-class input whose class is not declared was bound to a task of another class', case, {'value': ch['maybe'].value})
    except Exception as e:      # noqa
        ctx.fail('a chain with an absent optional by-class input cannot be built', case, f'{type(e).__name__}: {e}'[:200])


def search(ctx, divergences):
    run(ctx)


def sanity(ctx):
    from tcv.core import BrokenCheck
    c = ctx.counts
    errs = sum(v for k, v in c.items() if k.startswith('error:'))
    if c.get('built', 0) < 0.2 * ctx.evaluations or errs < 0.05 * ctx.evaluations:
        raise BrokenCheck(f'generator distribution collapsed: {c}')
