"""C07 — forcing recomputes exactly what was asked (machine level: histories with task- and chain-level forcing, all flags)."""
from tcv import machine
from tcv.data_kinds import persisting

RULE = ('seeded histories (8-30 operations) as in C04 plus task.force(delete_data) and chain.force(tasks, recompute, delete_data) '
        'with all flag combinations on stores with results present or missing; the iteration order of `recompute` is observed on '
        'the real code (top-level value requests) and fed to the model; compared per operation: values, run-log delta, forced / '
        'in-memory / stored sets; oracle: forced set = downstream closure (independent search over declared inputs), delete_data '
        'removes exactly those results, recompute runs every forced task exactly once, a forced task runs exactly once on its next '
        'request, unforced available tasks never run, every run is stamped and a result later read from the store carries the stamp of the latest completed run for that location (recomputation replaces the stored result); distinct = distinct (pipeline, op list)')
ASSUMPTIONS = ['networkx descendants = reachability (the model uses its own reachability, the oracle an independent search)']
TRUSTED = ['chain structure extracted from the implementation']


def oracle(ctx, case, hist, maps, spec):
    objs = {id(t): t for t in maps['objs']}
    prev = {'mem': [], 'stored': [], 'forced': []}
    pending_forced = set()      # objects forced and not yet re-run
    latest = {}                 # location -> run number of the latest completed run of a persisting task stored there
    for r in hist['rec']:
        op = r['op']
        st = r['state']
        runs = r['runs']
        for x, stamp in r.get('done', []):
            o = objs.get(x)
            if o is not None and persisting(o):
                latest[(str(o.path), o.name_for_persistence)] = stamp
        if r.get('skipped') or op['op'] in ('build', 'restart'):
            prev = st or prev
            continue
        if op['op'] == 'force':
            t = r['task']
            if set(st['forced']) != set(prev['forced']) | {id(t)}:
                ctx.fail('task.force marked something else than the task', case, {'op': op})
            if runs:
                ctx.fail('task.force ran tasks', case, {'op': op})
            lk = (str(t.path), t.name_for_persistence)
            exp_stored = [l for l in prev['stored'] if not (op['del'] and l == lk)]
            if sorted(exp_stored) != sorted(st['stored']):
                ctx.fail('task.force(delete_data) did not remove exactly the stored result of the task', case, {'op': op})
            pending_forced.add(id(t))
        elif op['op'] == 'chain_force':
            F = machine.downstream(r['chain'], r['S'])
            if set(st['forced']) != set(prev['forced']) | set(F):
                extra = [objs[x].fullname for x in set(st['forced']) - set(prev['forced']) - set(F) if x in objs]
                missing = [objs[x].fullname for x in (set(prev['forced']) | set(F)) - set(st['forced']) if x in objs]
                ctx.fail('chain.force did not mark exactly the named tasks and everything downstream', case,
                         {'op': op, 'extra': extra, 'missing': missing})
            if not op['recompute']:
                if runs:
                    ctx.fail('chain.force without recompute ran tasks', case, {'op': op})
                dl = {(str(t.path), t.name_for_persistence) for t in F.values() if persisting(t)}
                exp_stored = [l for l in prev['stored'] if not (op['del'] and l in dl)]
                if sorted(exp_stored) != sorted(st['stored']):
                    ctx.fail('chain.force(delete_data) did not remove exactly the stored results of the forced tasks', case, {'op': op})
                pending_forced |= set(F)
            elif op.get('failing'):
                # a run raises during the recomputation: force() ends with that exception; what was forced stays forced or was
                # recomputed (once), and with delete_data no forced task keeps a stored result it did not just recompute
                for x, t in F.items():
                    if runs.count(x) > 1:
                        ctx.fail('a task ran more than once within one recomputation', case, {'op': op, 'task': t.fullname})
                    done = any(d[0] == x for d in r.get('done', []))
                    lk = (str(t.path), t.name_for_persistence)
                    redone_elsewhere = any(objs.get(d[0]) is not None and (str(objs[d[0]].path), objs[d[0]].name_for_persistence) == lk for d in r.get('done', []))
                    if op['del'] and persisting(t) and not done and not redone_elsewhere and lk in st['stored']:
                        ctx.fail('chain.force(delete_data=True, recompute=True) that failed midway left the old stored result of a forced task', case,
                                 {'op': op, 'task': t.fullname})
                    if not done and x not in st['forced']:
                        ctx.fail('a forced task that was not recomputed (the recomputation failed before) is no longer forced', case, {'op': op, 'task': t.fullname})
                pending_forced |= {x for x in F if not any(d[0] == x for d in r.get('done', []))}
                pending_forced -= {d[0] for d in r.get('done', [])}
            else:
                for x in F:
                    if runs.count(x) != 1:
                        ctx.fail('recompute did not run every forced task exactly once', case,
                                 {'op': op, 'task': F[x].fullname, 'times': runs.count(x)})
                for x, t in F.items():
                    if x not in st['mem']:
                        ctx.fail('a recomputed task is not in memory afterwards', case, {'op': op, 'task': t.fullname})
                    if persisting(t) and (str(t.path), t.name_for_persistence) not in st['stored']:
                        ctx.fail('a recomputed task has no stored result afterwards', case, {'op': op, 'task': t.fullname})
                pending_forced -= set(F)
                pending_forced -= set(runs)
        elif op['op'] == 'value':
            t = r['task']
            for x in set(runs):
                o = objs.get(x)
                if o is None:
                    continue
                forced_before = x in prev['forced'] and x not in prev['mem']
                lk = (str(o.path), o.name_for_persistence)
                available = x in prev['mem'] or (persisting(o) and lk in prev['stored'] and x not in prev['forced'])
                if available:
                    ctx.fail('an unforced task whose result was available was run', case, {'op': op, 'ran': o.fullname})
                if runs.count(x) > 1:
                    ctx.fail('a task ran more than once within one request', case, {'op': op, 'ran': o.fullname})
            if id(t) in pending_forced and id(t) not in prev['mem'] and not op['failing']:
                if runs.count(id(t)) != 1:
                    ctx.fail('a forced task did not run exactly once on its next request', case,
                             {'op': op, 'task': t.fullname, 'times': runs.count(id(t))})
            pending_forced -= set(runs) if not op['failing'] else set()
            # a result read back from the store is the one written by the latest completed run for that location:
            # a forced recomputation REPLACES the stored result (runs are stamped, so results of different runs differ)
            lk = (str(t.path), t.name_for_persistence)
            if (persisting(t) and 'value' in r and id(t) not in prev['mem'] and id(t) not in runs and lk in latest
                    and isinstance(r['value'], dict) and r['value'].get('t') != '__EMPTY__' and r['value'].get('s') != latest[lk]):
                ctx.fail('the store holds the result of an older run: a recomputation did not replace the stored result', case,
                         {'op': op, 'task': t.fullname, 'stored_run': r['value'].get('s'), 'latest_run': latest[lk]})
        elif op['op'] == 'inspect' and runs:
            ctx.fail('inspection ran tasks', case, {'op': op})
        prev = st


def name_mode_probe(ctx):
    """`delete_data` removes the stored results of exactly the forced tasks — also in name mode, where the results of different configs
    lie side by side in one task directory under their config names (`exp`, `exp.v2`, `exp.v2.b`, `expx`): forcing with deletion in one
    config leaves result, run info and log of every other config where they are (frame property `C07.forceAll_store_keep`)"""
    from tcv import gen, pipeline as pl
    from tcv.data_kinds import persisting
    root = ctx.tmpdir() / 'nm'
    names = ['exp', 'exp.v2', 'exp.v2.b', 'expx', 'ex']
    for k in range(ctx.n(6, 40)):
        rng = ctx.rng('name-mode', k)
        kinds = [rng.choice(['json', 'numpy', 'pandas', 'generated', 'listnp', 'dir']) for _ in range(2)]
        spec = {'classes': {'K0': {'name': 'up', 'group': rng.choice(['', 'g']), 'params': [{'name': 'x'}], 'inputs': [], 'kind': kinds[0], 'run_args': ['x']},
                            'K1': {'name': 'down', 'group': '', 'params': [], 'inputs': [{'by': 'class', 'ref': 'K0'}], 'kind': kinds[1], 'run_args': [],
                                   'pull': [], 'in_kinds': {}}},
                'files': {f'{n}.json': {'tasks': ['K0', 'K1'], 'x': i} for i, n in enumerate(names)}, 'main': 'exp.json'}
        b = pl.materialize(spec, root / f'c{k}', modname=gen.fresh_modname())
        b.module()
        data = root / f'd{k}'
        chains = {}
        for n in names:
            ch, err = pl.build(b, data, main=f'{n}.json', parameter_mode=False)
            if err:
                break
            chains[n] = ch
            for t in ch.tasks.values():
                _ = t.value
        case = {'probe': 'name mode: delete_data next to other configs', 'kinds': kinds, 'configs': names}
        ctx.case(case); ctx.count('name-mode-probe')
        if len(chains) < len(names):
            b.cleanup_module(); continue

        def files(ch):
            out = {}
            for t in ch.tasks.values():
                d = t._data_without_value
                out[t.fullname] = (t.data_path.exists(), d.run_info_path.exists(), d.log_path.exists())
            return out
        victim = rng.choice(names)
        before = {n: files(ch) for n, ch in chains.items() if n != victim}
        target = rng.choice(['up', 'down'])
        chains[victim].force(target, delete_data=True)
        for t in chains[victim].tasks.values():
            forced = t.slugname.endswith(target) or target == 'up'
            if forced and persisting(t) and t.has_data:
                ctx.fail('chain.force(delete_data=True) left the stored result of a forced task (name mode)', case, {'config': victim, 'task': t.fullname})
            if not forced and persisting(t) and not t.has_data:
                ctx.fail('chain.force(delete_data=True) removed the stored result of an unforced task (name mode)', case, {'config': victim, 'task': t.fullname})
        after = {n: files(ch) for n, ch in chains.items() if n != victim}
        if after != before:
            bad = [(n, tn) for n in before for tn in before[n] if before[n][tn] != after[n][tn]]
            # (K7: a DIRECTORY result with a dotted config name shares run info and log with the name up to its last dot — not touched here either)
            ctx.fail('forcing with delete_data in one config removed stored results, run info or logs of ANOTHER config of the same data directory', case,
                     {'forced_config': victim, 'forced_task': target, 'lost': bad[:4]})
        b.cleanup_module()


def run(ctx):
    machine.run_batch(ctx, ctx.n(60, 800), allow={'force', 'restart', 'fail'}, label='force', oracle=oracle, stamp=True)
    name_mode_probe(ctx)
    unwritable_forced_probe(ctx)
    multichain_marks_probe(ctx)


def unwritable_forced_probe(ctx):
    """forcing a task makes its next request compute AND store the result again: when the new result cannot be written (publishing raises
    OSError) the request fails — it does not succeed while the store keeps the result the force was meant to replace"""
    import taskchain.data as tdata
    from taskchain import Task, Config
    root = ctx.tmpdir() / 'unwritable'
    counter = [0]

    class Count(Task):
        class Meta:
            name = 'count'

        def run(self) -> dict:
            counter[0] += 1
            return {'n': counter[0]}
    for k in range(ctx.n(2, 6)):
        data = root / f'd{k}'
        _ = Config(data, name='c', data={'tasks': [Count]}).chain().tasks['count'].value
        chain = Config(data, name='c', data={'tasks': [Count]}).chain()
        chain.force('count') if k % 2 else chain.tasks['count'].force()
        orig_move = tdata.shutil.move

        def move(src, dst, *a, **kw):
            if str(data) in str(dst):
                raise OSError(28, 'No space left on device')
            return orig_move(src, dst, *a, **kw)
        tdata.shutil.move = move
        case = {'probe': 'forced task whose new result cannot be written', 'round': k}
        ctx.case(case); ctx.count('unwritable-forced-probe')
        try:
            got, outcome = chain.tasks['count'].value, 'returned'
        except OSError:
            got, outcome = None, 'raised'
        finally:
            tdata.shutil.move = orig_move
        stored = Config(data, name='c', data={'tasks': [Count]}).chain().tasks['count']
        sv = stored.value if stored.has_data else None
        if outcome == 'returned' and sv != got:
            ctx.fail('a forced task was computed again but its stored result is still the old one (no error)', case, {'returned': got, 'stored': sv})


def multichain_marks_probe(ctx):
    """forcing recomputes exactly what was asked — through a MultiChain too: a task that was merely MARKED by an earlier force (no
    recompute, not requested since) is not executed by a later `force(other, recompute=True)`; it stays marked"""
    from taskchain import Task, Config, MultiChain
    root = ctx.tmpdir() / 'mc-marks'
    ran = []

    def mk(nm):
        class T(Task):
            class Meta:
                name = nm

            def run(self) -> int:
                ran.append(nm)
                return len(ran)
        return T
    A, B = mk('alpha'), mk('beta')
    for k in range(ctx.n(2, 6)):
        cfgs = [Config(root / f'd{k}', name=f'c{j}', data={'tasks': [A, B], 'tag': j}) for j in range(2)]
        mc = MultiChain(cfgs, parameter_mode=bool(k % 2))
        for ch in mc.chains.values():
            _ = ch['alpha'].value, ch['beta'].value
        ran.clear()
        mc.force('alpha')
        mc.force('beta', recompute=True)
        case = {'probe': 'MultiChain: an earlier mark and a later recompute of another task', 'parameter_mode': bool(k % 2)}
        ctx.case(case); ctx.count('multichain-marks-probe')
        if 'alpha' in ran or 'beta' not in ran:
            ctx.fail('force(recompute=True) ran a task that was not asked for (or did not run the one that was)', case, {'ran': list(ran)})
        if not all(ch['alpha'].is_forced for ch in mc.chains.values()):
            ctx.fail('a task marked by force lost its mark without having been recomputed', case, {})


def search(ctx, divergences):
    run(ctx)


def sanity(ctx):
    from tcv.core import BrokenCheck
    c = ctx.counts
    # (thresholds with a wide margin: the mean is about one chain_force and two to three force operations per history)
    if c.get('op:chain_force', 0) < 0.4 * ctx.evaluations or c.get('op:force', 0) < 0.8 * ctx.evaluations:
        raise BrokenCheck(f'generator distribution collapsed: {c}')
