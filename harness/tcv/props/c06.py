"""C06 — stored values round-trip exactly.

For every data class: type-directed values through real tasks; the value of the computing chain and of a later chain are
compared type-strictly with what `run` returned; stored bytes are compared before/after loading and the reload is traced
(no write).  Glue outcomes (None / mistyped / falsy results, a stored null), the json-lines framing and the file naming /
ordering of ListOfNumpyData are compared with the Lean model (TCV.Glue)."""
import hashlib
import json
import os
from pathlib import Path

from tcv.core import BrokenCheck

RULE = ('seeded type-directed values per data class — JSONData with result type dict/list/str/int/float/bool (nesting up to 6, unicode incl. '
        'astral, U+2028/U+2029/U+0085, controls, quotes; ints incl. +-2^63, 2^53+1; floats incl. -0.0, 5e-324, max; empty containers), '
        'NumpyData (bool/int/uint/float/complex/str/bytes dtypes, 0-d to 4-d, empty axes, Fortran order, views), PandasData (DataFrame and '
        'Series with str/int/float/tuple/duplicate labels, MultiIndex, categorical/datetime/object columns, empty frames), GeneratedData and '
        'GeneratedDataLazy (0-40 JSON-like items incl. falsy ones), ListOfNumpyData (0-101 arrays, always some >= 11), DirData and finished '
        'ContinuesData (0-12 files of random bytes) — each through a real task: computing chain, later chain on the same directory (with '
        'shuffled directory enumeration for ListOfNumpyData), forced recomputation with a shorter value; plus None / mistyped results and a '
        'stored null per class. distinct = distinct (class, value description); non-trivial = non-empty value')
ASSUMPTIONS = ['orjson, numpy.save/load, pandas.to_pickle/read_pickle and pickle satisfy load(save(v)) = v on the generated domain (a parameter of '
               'the theorems; this check samples it)',
               'outside the storable domain and never generated: NaN/inf, tuples, non-string mapping keys, integers beyond 64 bits, object-dtype '
               'arrays, None as a whole result (rejected by the type check: checked), FigureData',
               'the later chain is a new Config/Chain/Task/Data object in the same interpreter (taskchain keeps no module-level state about results)']
TRUSTED = ['modelled, not verified: text-mode universal newlines and `for row in f` split at \\n only; str.strip() strips exactly the characters '
           'with str.isspace(); int() of a decimal file-name stem; Path.glob order is arbitrary']

JSON_TYPES = [dict, list, str, int, float, bool]


def tree_bytes(p):
    """name -> (sha256, size, mtime_ns) for a stored result (file or directory)"""
    p = Path(p)
    out = {}
    files = [p] if p.is_file() else sorted(x for x in p.rglob('*') if x.is_file()) if p.exists() else []
    for f in files:
        st = f.stat()
        out[str(f.relative_to(p.parent))] = (hashlib.sha256(f.read_bytes()).hexdigest(), st.st_size, st.st_mtime_ns)
    return out


def strict_equal(kind, a, b):
    from tcv import dtasks
    import pandas as pd
    if kind == 'pandas':
        try:
            if type(a) is not type(b):
                return False
            if isinstance(a, pd.DataFrame):
                pd.testing.assert_frame_equal(a, b, check_exact=True, check_column_type=True, check_index_type=True, check_names=True,
                                              check_categorical=True, check_freq=False)
                return [type(x) for x in a.columns] == [type(x) for x in b.columns]
            pd.testing.assert_series_equal(a, b, check_exact=True, check_index_type=True, check_names=True, check_freq=False)
            return type(a.name) is type(b.name)
        except AssertionError:
            return False
    if kind in ('dirData', 'continues'):
        return a == b
    return dtasks.equal(kind, a, b)


def plain(kind, v):
    from tcv import dtasks
    if kind in ('dirData', 'continues'):
        p = Path(v)
        return {f.name: f.read_bytes() for f in sorted(p.iterdir())}
    return dtasks.plain(kind, v)


def tag(x):
    """python JSON-like value -> transport form of the model (floats as the token orjson prints)"""
    import orjson
    if x is None:
        return {'n': 0}
    if isinstance(x, bool):
        return {'b': x}
    if isinstance(x, int):
        return {'i': str(x)}
    if isinstance(x, float):
        return {'f': orjson.dumps(x).decode()}
    if isinstance(x, str):
        return {'s': x}
    if isinstance(x, list):
        return {'a': [tag(y) for y in x]}
    if isinstance(x, dict):
        return {'o': [[k, tag(v)] for k, v in x.items()]}
    raise TypeError(type(x))


def tag_sorted(x):
    """the same with mapping members sorted by key: what decoding the stored (sort_keys) file yields"""
    if isinstance(x, list):
        return {'a': [tag_sorted(y) for y in x]}
    if isinstance(x, dict):
        return {'o': [[k, tag_sorted(v)] for k, v in sorted(x.items())]}
    return tag(x)


def classes():
    """[(label, kind, task class, generator)]"""
    from tcv import dtasks, dvalues as dv
    out = []
    for t in JSON_TYPES:
        out.append((f'json:{t.__name__}', 'json', dtasks.json_class(t), (lambda rng, t=t: dv.gen_json_typed(rng, t))))
    out.append(('numpy', 'numpy', dtasks.TNumpy, dv.gen_array))
    out.append(('pandas:frame', 'pandas', dtasks.TPandas, dv.gen_frame))
    out.append(('pandas:series', 'pandas', dtasks.series_class(), dv.gen_series))
    out.append(('generated', 'generated', dtasks.TGenerated, dv.gen_items))
    out.append(('generatedLazy', 'generatedLazy', dtasks.TLazy, dv.gen_items))
    out.append(('listNumpy', 'listNumpy', dtasks.TListnp, dv.gen_array_list))
    out.append(('dirData', 'dirData', dtasks.TDir, dv.gen_dir))
    out.append(('continues', 'continues', dtasks.TCont, dv.gen_dir))
    return out


FALSY = {'json:dict': [{}], 'json:list': [[]], 'json:str': [''], 'json:int': [0], 'json:float': [0.0, -0.0], 'json:bool': [False],
         'generated': [[], [0], ['']], 'generatedLazy': [[], [0, {}, []]], 'listNumpy': [[]], 'dirData': [{}], 'continues': [{}]}


def is_empty(v):
    try:
        return len(v) == 0
    except TypeError:
        return not bool(v) if isinstance(v, (int, float, bool)) else False


def features(ctx, label, v):
    import numpy as np
    from tcv import dvalues as dv
    if label.startswith('json') or label.startswith('generated'):
        d = dv.depth_of(v)
        ctx.count(f'{label.split(":")[0]}:depth>={min(d, 5)}' if d >= 3 else f'{label.split(":")[0]}:depth<3')
        text = repr(v)
        if any(ord(c) > 0xffff for c in text):
            ctx.count('feature:astral')
        if any(c in text for c in ('\\u2028', '\\x85', '\\u2029')):
            ctx.count('feature:line-separator-chars')
        if any(str(x) in text for x in (2 ** 63 - 1, -2 ** 63)):
            ctx.count('feature:boundary-int')
        if '5e-324' in text or '1.7976931348623157e+308' in text or '-0.0' in text:
            ctx.count('feature:boundary-float')
    if isinstance(v, np.ndarray):
        ctx.count(f'numpy:ndim={v.ndim}'); ctx.count(f'numpy:kind={v.dtype.kind}')
        if v.size == 0:
            ctx.count('numpy:empty')
        if v.ndim >= 2 and v.flags.f_contiguous and not v.flags.c_contiguous:
            ctx.count('numpy:fortran')
    if label == 'listNumpy':
        ctx.count('listNumpy:>=11' if len(v) >= 11 else 'listNumpy:<11')


def run(ctx):
    from tcv.quiet import quiet
    quiet()
    import numpy as np
    import pathlib
    from tcv import dtasks, dvalues as dv, fsx
    import taskchain.data as tdata
    fsx.install()
    root = ctx.tmpdir()
    ws = [c for c in range(0x110000) if chr(c).isspace()]
    per = ctx.n(150, 1500)
    model_reqs, model_chk = [], []

    def ask(req, chk):
        model_reqs.append(req); model_chk.append(chk)

    ci = 0
    for label, kind, cls, gen in classes():
        for i in range(per):
            rng = ctx.rng(label, i)
            fal = FALSY.get(label, [])
            if i < len(fal):
                v = fal[i]
            elif label == 'numpy' and i < 6:
                v = [np.array(0), np.array(0.0), np.zeros((0,)), np.zeros((2, 0, 3)), np.array(False), np.array('', dtype='<U1')][i]
            elif label == 'listNumpy' and i < 4:
                v = [np.arange(k % 4) + k for k in range([11, 12, 21, 101][i])]
            elif label == 'pandas:frame' and i < 2:
                import pandas as pd
                v = [pd.DataFrame(), pd.DataFrame({'a': []})][i]
            elif label == 'pandas:series' and i < 1:
                import pandas as pd
                v = pd.Series([], dtype='float64')
            else:
                v = gen(rng)
            ci += 1
            d = root / f'c{ci}'
            case = {'class': label, 'i': i, 'value': dv.describe(v)}
            ctx.case(case, nontrivial=not is_empty(v))
            ctx.count(f'class:{label}')
            if is_empty(v) or (isinstance(v, (int, float, bool)) and not v):
                ctx.count('feature:falsy-or-empty')
            features(ctx, label, v)
            try:
                other = gen(ctx.rng(label + ':other', i)) if i % 3 == 0 else None
                roundtrip_case(ctx, case, label, kind, cls, v, d, rng, ws, ask, dtasks, fsx, tdata, pathlib, other=other)
            except BrokenCheck:
                raise
        # ---- glue outcomes that store nothing / cannot be read
        glue_cases(ctx, label, kind, cls, root / f'g{ci}', ask, dtasks)
    out = ctx.model.many(model_reqs)
    for chk, mo in zip(model_chk, out):
        chk(mo)
    fsx.uninstall() if hasattr(fsx, 'uninstall') else None
    locale_probe(ctx)
    sibling_names_probe(ctx)
    failing_write_probe(ctx)


def roundtrip_case(ctx, case, label, kind, cls, v, d, rng, ws, ask, dtasks, fsx, tdata, pathlib, other=None):
    import orjson
    orig = v
    dtasks.CTL = {'value': v}
    dtasks.RUNS.clear()
    t1 = dtasks.make_task(kind, d, cls)
    if kind == 'dirData' and rng.random() < 0.5:
        # the work directory of an earlier run of this task that was killed (no exception handling ran): what it wrote there is not part
        # of the value this run returns
        left = dtasks.role_paths(kind, d, t1)['tmp']
        left.mkdir(parents=True, exist_ok=True)
        (left / 'shard-of-a-dead-run.bin').write_bytes(b'partial')
        ctx.count('dir:leftover-work-directory')
    if kind == 'listNumpy' and rng.random() < 0.5:
        # (the same for a list of arrays: a stale high-index array left by an interrupted save is not part of the new list)
        import numpy as _np
        left = dtasks.role_paths(kind, d, t1)['tmp']
        left.mkdir(parents=True, exist_ok=True)
        _np.save(str(left / '97.npy'), _np.array([97]))
        ctx.count('listNumpy:leftover-work-directory')
    try:
        v1 = plain(kind, t1.value)
    except Exception as e:  # noqa
        ctx.fail('computing a value of the storable domain raises', case, f'{type(e).__name__}: {e}')
        return
    ask({'m': 'glue', 'op': 'compute', 'type_ok': True, 'rereads': kind == 'generatedLazy', 'bad': [], 'result': 'v'},
        lambda mo: mo == {'stored': 'v', 'value': 'v'} or ctx.diverge('glue:compute', case, 'ok', mo))
    final = dtasks.role_paths(kind, d, t1)['final']
    before = tree_bytes(final)
    if not final.exists():
        ctx.fail('no stored result after computing', case, str(final))
        return
    # ---- later chain; for ListOfNumpyData with a dictated directory enumeration order
    t2 = dtasks.make_task(kind, d, cls)
    orig_glob = pathlib.Path.glob
    order = None
    if kind == 'listNumpy':
        style = rng.choice(['reverse', 'shuffle', 'shuffle', 'sorted-text'])

        def glob(self, pattern, *a, **kw):
            files = list(orig_glob(self, pattern, *a, **kw))
            if style == 'reverse':
                files.reverse()
            elif style == 'shuffle':
                rng.shuffle(files)
            else:
                files.sort(key=lambda f: f.name)
            nonlocal order
            order = [f.name for f in files]
            return iter(files)
        pathlib.Path.glob = glob
    fsx.STATE.update(active=True, root=str(d), events=[], crash_at=None, in_rmtree=0)
    try:
        v2 = plain(kind, t2.value)
        err2 = None
    except Exception as e:  # noqa
        v2, err2 = None, f'{type(e).__name__}: {e}'
    finally:
        fsx.STATE['active'] = False
        pathlib.Path.glob = orig_glob
    events = list(fsx.STATE['events'])
    after = tree_bytes(final)
    ask({'m': 'glue', 'op': 'reload', 'bad': [], 'reader_none': False, 'store': 'v'},
        lambda mo: mo == ({'value': 'v'} if err2 is None else None) or ctx.diverge('glue:reload', case, err2 or 'ok', mo))
    # ---- oracle: direct round trip
    if not strict_equal(kind, orig if kind not in ('generated', 'generatedLazy') else list(orig), v1):
        ctx.fail('the computing chain does not return what run returned', case, {'got': dv_desc(v1)})
    if err2 is not None:
        ctx.fail('a later chain cannot load the stored value', case, err2)
    elif not strict_equal(kind, orig if kind not in ('generated', 'generatedLazy') else list(orig), v2):
        ctx.fail('a later chain loads a value different from what run returned', case, {'got': dv_desc(v2)})
    if len(dtasks.RUNS) != 1:
        ctx.fail('the later chain ran the task again instead of loading', case, len(dtasks.RUNS))
    if before != after:
        ctx.fail('loading changed the stored files', case, {'before': before, 'after': after})
    name = final.name
    wrote = [e for e in events if any(isinstance(x, str) and (x.endswith('/' + name) or ('/' + name + '/') in x) for x in e[1:])]
    if wrote:
        ctx.diverge('load_pure', case, wrote, [])
    # ---- JSON text vs the model's encoder / decoder
    if kind == 'json':
        text = final.read_bytes().decode('utf-8', 'surrogatepass')
        ask({'m': 'jsontext', 'op': 'encode', 'v': tag(orig)},
            lambda mo: mo.get('pretty') == text or ctx.diverge('json:stored-bytes', case, text[:200], str(mo.get('pretty'))[:200]))
        ask({'m': 'jsontext', 'op': 'decode', 'text': text},
            lambda mo: mo.get('ok') == tag_sorted(orig) or ctx.diverge('json:decode', case, str(tag_sorted(orig))[:200], str(mo)[:200]))
    # ---- json lines framing vs the model
    if kind in ('generated', 'generatedLazy'):
        text = final.read_bytes().decode('utf-8', 'surrogatepass')
        encs = [orjson.dumps(x, option=orjson.OPT_SERIALIZE_NUMPY | orjson.OPT_NON_STR_KEYS).decode() for x in list(orig)]
        py_rows = None
        with final.open(encoding='utf-8') as f:
            py_rows = [row.strip() for row in f]
        ask({'m': 'glue', 'op': 'jsonl_write', 'items': encs},
            lambda mo: mo.get('text') == text or ctx.diverge('jsonl:written-text', case, text[:200], str(mo)[:200]))
        ask({'m': 'glue', 'op': 'jsonl_read', 'text': text, 'ws': ws},
            lambda mo: mo.get('rows') == py_rows or ctx.diverge('jsonl:rows', case, py_rows[:5], str(mo)[:200]))
        for x, e in list(zip(list(orig), encs))[:6]:
            ask({'m': 'jsontext', 'op': 'encode', 'v': tag(x)},
                lambda mo, e=e: mo.get('compact') == e or ctx.diverge('json:item-encoding', case, e[:200], str(mo.get('compact'))[:200]))
            ask({'m': 'jsontext', 'op': 'decode', 'text': e},
                lambda mo, x=x: mo.get('ok') == tag(x) or ctx.diverge('json:item-decode', case, str(tag(x))[:200], str(mo)[:200]))
        if py_rows != encs:
            ctx.fail('json-lines rows differ from the item encodings', case, {'rows': py_rows[:5], 'encodings': encs[:5]})
    # ---- ListOfNumpyData naming and order vs the model
    if kind == 'listNumpy':
        n = len(orig)
        names = sorted(p.name for p in final.iterdir())
        ask({'m': 'glue', 'op': 'listnp_names', 'n': n},
            lambda mo: sorted(mo.get('names', [])) == names or ctx.diverge('listnp:names', case, names[:15], str(mo)[:200]))
        if order is not None:
            entries = [[nm, int(nm.split('.')[0])] for nm in order]
            ask({'m': 'glue', 'op': 'listnp_load', 'entries': entries},
                lambda mo: mo.get('order') == list(range(n)) or ctx.diverge('listnp:order', case, list(range(n))[:15], str(mo)[:200]))
        # forced recomputation with a shorter list: no stale file may survive
        if n >= 2:
            shorter = list(orig[: n // 2])
            dtasks.CTL = {'value': shorter}
            t3 = dtasks.make_task(kind, d, cls)
            v3 = plain(kind, t3.force().value)
            t4 = dtasks.make_task(kind, d, cls)
            v4 = plain(kind, t4.value)
            ctx.count('listNumpy:recomputed-shorter')
            if not strict_equal(kind, shorter, v3) or not strict_equal(kind, shorter, v4):
                ctx.fail('after recomputing a shorter list, stale arrays of the previous result are loaded', case, {'len': len(v4), 'expected': len(shorter)})

    # ---- forced recomputation that yields ANOTHER value: the later chain loads the new one (a stored result is replaced, not kept)
    if other is not None and kind != 'continues':
        dtasks.CTL = {'value': other}
        t5 = dtasks.make_task(kind, d, cls)
        try:
            v5 = plain(kind, t5.force().value)
            t6 = dtasks.make_task(kind, d, cls)
            v6 = plain(kind, t6.value)
        except Exception as e:  # noqa
            ctx.fail('recomputing with another value of the storable domain raises', case, f'{type(e).__name__}: {e}'[:200])
            return
        ctx.count('recomputed-with-another-value')
        want = other if kind not in ('generated', 'generatedLazy') else list(other)
        if not strict_equal(kind, want, v5):
            ctx.fail('the recomputing chain does not return what run returned', case, {'got': dv_desc(v5)})
        elif not strict_equal(kind, want, v6):
            ctx.fail('after a forced recomputation a later chain loads a value different from what the latest run returned', case,
                     {'got': dv_desc(v6), 'latest': dv_desc(v5)})


def dv_desc(v):
    from tcv import dvalues as dv
    try:
        return dv.describe(v)
    except Exception:
        return repr(v)[:200]


def glue_cases(ctx, label, kind, cls, d, ask, dtasks):
    """None / mistyped results; a stored null"""
    for what, val in (('none', None), ('mistyped', dtasks.WRONG.get(kind, {'not': 'a data object'}))):
        if kind in ('dirData', 'continues') and what == 'none':
            val = None
        case = {'class': label, 'glue': what}
        ctx.case(case, nontrivial=True); ctx.count(f'glue:{what}')
        dd = d / what
        dtasks.CTL = {'value': val, 'raw': True}
        if kind in ('dirData', 'continues'):
            dtasks.CTL = {'gen': 1, 'size': 2, 'fault': 'typeCheck', 'finish': False}
        t = dtasks.make_task(kind, dd, cls)
        try:
            t.value
            impl = 'ok'
        except ValueError:
            impl = 'type_mismatch'
        except Exception as e:  # noqa
            impl = f'other:{type(e).__name__}'
        has = dtasks.make_task(kind, dd, cls).has_data
        ask({'m': 'glue', 'op': 'compute', 'type_ok': what == 'none', 'rereads': kind == 'generatedLazy', 'bad': [],
             'result': None if what == 'none' else 'w'},
            lambda mo, impl=impl, case=case: mo == {'error': impl} or ctx.diverge('glue:rejected', case, impl, mo))
        if impl == 'ok' or has:
            ctx.fail('a None or mistyped result is stored / handed out', case, {'outcome': impl, 'has_data': has})
    if kind == 'json':
        # a stored `null`: the reader yields None and `.value` raises — None is not in the storable domain
        case = {'class': label, 'glue': 'stored-null'}
        ctx.case(case, nontrivial=True); ctx.count('glue:stored-null')
        dd = d / 'null'
        t = dtasks.make_task(kind, dd, cls)
        p = dtasks.role_paths(kind, dd, t)['final']
        p.parent.mkdir(parents=True, exist_ok=True)
        p.write_text('null')
        try:
            dtasks.make_task(kind, dd, cls).value
            impl = 'ok'
        except ValueError:
            impl = 'value_not_set'
        except Exception as e:  # noqa
            impl = f'other:{type(e).__name__}'
        ask({'m': 'glue', 'op': 'reload', 'bad': [], 'reader_none': True, 'store': 'null'},
            lambda mo, impl=impl, case=case: mo == {'error': impl} or ctx.diverge('glue:stored-null', case, impl, mo))


LOCALE_SCRIPT = r'''
import sys, json, logging, warnings
warnings.filterwarnings('ignore'); logging.disable(logging.CRITICAL)
sys.path.insert(0, %(repo)r)
from pathlib import Path
from typing import Generator
from taskchain import Task, Config
VAL = ['caf\u00e9', {'k': '\u65e5\u672c', 'e': '\U0001f600'}, 'plain']
class Rows(Task):
    def run(self) -> Generator:
        yield from VAL
class Doc(Task):
    def run(self) -> dict:
        return {'v': VAL}
out = {}
for cls, name in ((Rows, 'rows'), (Doc, 'doc')):
    try:
        a = Config(Path(sys.argv[1]), name='c', data={'tasks': [cls]}).chain().tasks[name].value
        b = Config(Path(sys.argv[1]), name='c', data={'tasks': [cls]}).chain().tasks[name].value
        out[name] = [list(a) if name == 'rows' else a, list(b) if name == 'rows' else b]
    except Exception as e:
        out[name] = {'error': type(e).__name__ + ': ' + str(e)[:100]}
print(json.dumps(out))
'''


def locale_probe(ctx):
    """values round-trip whatever the locale of the process: the same two chains (compute, then load) in a fresh interpreter under the POSIX
    locale with UTF-8 mode and locale coercion off — non-ASCII strings in JSON and line-wise JSON results come back exactly"""
    import os
    import subprocess
    import sys
    from tcv.core import REPO
    root = ctx.tmpdir() / 'locale'
    root.mkdir(parents=True, exist_ok=True)
    script = root / 'script.py'
    script.write_text(LOCALE_SCRIPT % {'repo': str(REPO / 'src')})
    val = ['caf\u00e9', {'k': '\u65e5\u672c', 'e': '\U0001f600'}, 'plain']
    for label, extra in (('POSIX locale', {'LC_ALL': 'C', 'LANG': 'C', 'PYTHONCOERCECLOCALE': '0', 'PYTHONUTF8': '0'}), ('utf-8 locale', {'LC_ALL': 'C.UTF-8'})):
        env = {k: v for k, v in os.environ.items() if not k.startswith('LC_') and k not in ('LANG', 'PYTHONUTF8', 'PYTHONCOERCECLOCALE')}
        env.update(extra)
        r = subprocess.run([sys.executable, str(script), str(root / label.replace(' ', '_'))], env=env, capture_output=True, text=True, timeout=120)
        case = {'probe': 'locale of the process', 'locale': label}
        ctx.case(case); ctx.count('locale-probe')
        try:
            out = json.loads(r.stdout.strip().split('\n')[-1])
        except Exception:       # noqa
            ctx.fail('computing and reloading non-ASCII values fails under this locale', case, (r.stderr or r.stdout)[-300:]); continue
        for name, exp in (('rows', val), ('doc', {'v': val})):
            if out.get(name) != [exp, exp]:
                ctx.fail('a non-ASCII value does not round-trip under this locale', case, {'task': name, 'got': out.get(name)})


def sibling_names_probe(ctx):
    """tasks whose names differ only in characters that are not letters, digits or `_` (`recall@k`, `recall_k`, `recall-k`) and whose keys
    coincide (no parameters) are different tasks: each stores and reloads its own value"""
    from taskchain import Task, Config
    root = ctx.tmpdir() / 'siblings'
    names = ['recall@k', 'recall_k', 'recall-k', 'recall.k', 'recall k']
    classes = []
    for j, nm in enumerate(names):
        classes.append(type(f'Sib{j}', (Task,), {'Meta': type('Meta', (), {'name': nm}), 'run': (lambda j_: (lambda self: {'who': j_}))(j),
                                                 '__annotations__': {}}))
        classes[-1].run.__annotations__['return'] = dict
    case = {'probe': 'sibling task names', 'names': names}
    ctx.case(case); ctx.count('sibling-names-probe')
    try:
        for rnd in range(2):
            chain = Config(root, name='c', data={'tasks': classes}).chain()
            got = {nm: chain.tasks[nm].value for nm in names}
            if got != {nm: {'who': j} for j, nm in enumerate(names)}:
                ctx.fail('a task loaded the stored value of a task with a similar name', case, {'round': rnd, 'got': got}); break
    except Exception as e:      # noqa
        ctx.notes['sibling-names'] = f'not constructible: {type(e).__name__}: {e}'[:200]


def failing_write_probe(ctx):
    """what the computing chain RETURNS is what later chains load: a forced recomputation whose result cannot be written (the device is full:
    publishing raises OSError) does not hand out the new value while the store keeps the old one — the request fails instead"""
    import taskchain.data as tdata
    from taskchain import Task, Config
    root = ctx.tmpdir() / 'failing-write'
    counter = [0]

    class Count(Task):
        class Meta:
            name = 'count'

        def run(self) -> dict:
            counter[0] += 1
            return {'n': counter[0], 'text': 'x' * counter[0]}
    for k in range(ctx.n(2, 8)):
        data = root / f'd{k}'
        first = Config(data, name='c', data={'tasks': [Count]}).chain().tasks['count'].value
        t = Config(data, name='c', data={'tasks': [Count]}).chain().tasks['count']
        t.force()
        orig_move, orig_open = tdata.shutil.move, None

        def move(src, dst, *a, **kw):
            if str(data) in str(dst):
                raise OSError(28, 'No space left on device')
            return orig_move(src, dst, *a, **kw)
        tdata.shutil.move = move
        case = {'probe': 'forced recomputation whose result cannot be published', 'round': k}
        ctx.case(case); ctx.count('failing-write-probe')
        try:
            got = t.value
            outcome = 'returned'
        except OSError:
            got, outcome = None, 'raised'
        finally:
            tdata.shutil.move = orig_move
        later = Config(data, name='c', data={'tasks': [Count]}).chain().tasks['count']
        try:
            lv = later.value
        except Exception as e:      # noqa
            lv = f'{type(e).__name__}'
        if outcome == 'returned' and lv != got:
            ctx.fail('a later chain loads a value different from what the computing chain returned', case, {'returned': got, 'later_chain': lv, 'first': first})


def search(ctx, divergences):
    run(ctx)


def sanity(ctx):
    c = ctx.counts
    need = ['feature:astral', 'feature:line-separator-chars', 'feature:boundary-int', 'feature:boundary-float', 'feature:falsy-or-empty',
            'listNumpy:>=11', 'numpy:empty', 'numpy:ndim=0', 'numpy:ndim=4', 'glue:none', 'glue:mistyped', 'glue:stored-null']
    missing = [k for k in need if not c.get(k)]
    if missing or not any(k.startswith('json:depth>=5') for k in c):
        raise BrokenCheck(f'generated distribution collapsed: missing {missing}; {c}')
