"""C13 — a MultiChain is its chains, sharing identical tasks.

Lists of 2-5 configs over one generated pipeline (parameter values equal or different at random places, so that computations
are shared at some depth and differ below it) built as a MultiChain and as standalone chains; request/force sequences across
the member chains.  Compared with the Lean builder model (`buildMulti`: tasks, parameters, inputs, keys and the object-sharing
map across chains).  Oracle: member chain == standalone chain (tasks, parameters, locations, values), objects identical iff same
location, a value computed through one chain is in memory for the others, forcing through the MultiChain reaches every chain."""
import copy

from tcv import builder, machine, pipeline as pl, gen
from tcv.quiet import quiet

RULE = ('seeded lists of 2-5 configs (variants of one pipeline: 0-2 parameter values changed per variant, mounted under one common '
        'namespace, none, or — K6 class — different namespaces); MultiChain vs standalone chains on the real code; compared with '
        'the Lean model of MultiChain construction incl. the object identity matrix; request and force sequences across member '
        'chains with run log; distinct = distinct config lists; non-trivial = some but not all objects shared')
ASSUMPTIONS = ['config names are distinct (MultiChain asserts it)', 'K1/K3 over-sharing is inherited from C03/C01 and excluded here by generating quote-free values']
TRUSTED = ['task values are provenance terms returned by generated tasks']


def k6_class(standalone):
    """K6: some computation (slug, key) occurs in two member chains under different namespaces"""
    seen = {}
    for ci, ch in enumerate(standalone):
        for t in ch.tasks.values():
            k = (t.slugname, t.name_for_persistence)
            ns = t.get_config().namespace
            if k in seen and seen[k] != ns:
                return True
            seen.setdefault(k, ns)
    return False


def k3_class(standalone, names):
    """K3: one of the named tasks (or something upstream of it) has a dont_persist_default_value parameter whose value equals the default
    under Python == although it is another JSON value (False / 0, 1 / True / 1.0): two different computations share one key, hence one
    object across member chains"""
    from tcv import findings
    from taskchain.task import Task

    def up(t, seen):
        if id(t) in seen:
            return False
        seen.add(id(t))
        for p in t.parameters.values():
            if getattr(p, 'dont_persist_default_value', False) and not p.required and findings.k3(p._value, p.default):
                return True
        return any(up(i, seen) for i in t.input_tasks.values() if isinstance(i, Task))
    return any(up(ch.tasks[n], set()) for ch in standalone for n in names if n in ch.tasks)


def force_history(ctx, b, spec, mains, data, rng, case, ctxs=None):
    """execute [value of every task of every member chain; mc.force(name, delete_data=D); a few value requests] on a fresh MultiChain
    and express it as a history of the store machine (the MultiChain.force step = one chain_force per member chain, in order)"""
    from taskchain import MultiChain
    mod = b.module()
    ctxs = ctxs or {}
    mc = MultiChain([pl.make_config(b, data, main=m, context=ctxs.get(m)) for m in mains])
    chains = [mc[pl.make_config(b, data, main=m).name] for m in mains]
    rec = []
    mod.RUNLOG.clear(); mod.FAIL.clear()

    def record(op, **kw):
        r = {'op': op, **kw}
        r['runs'] = [x[2] for x in mod.RUNLOG[record.before:]]
        record.before = len(mod.RUNLOG)
        r['state'] = machine.snapshot(chains)
        rec.append(r)
        return r
    record.before = 0
    for ch in chains:
        for t in ch.tasks.values():
            kind = machine.class_of(t, spec)['kind']
            v = mod.unwrap(kind, t.value)
            record({'op': 'value', 'failing': []}, task=t, value=v)
    names = sorted({t.slugname for ch in chains for t in ch.tasks.values()})
    slug = rng.choice(names)
    D = rng.random() < 0.5
    mc.force(slug, delete_data=D)
    members = [ch for ch in chains]
    for k, ch in enumerate(members):
        S = [t for t in ch.tasks.values() if t.slugname == slug]
        r = record({'op': 'chain_force', 'del': D, 'recompute': False}, chain=ch, S=S, order=[])
        r['_skip'] = k < len(members) - 1          # only the state after the whole MultiChain.force is observable
    for _ in range(3):
        ch = rng.choice(chains)
        t = rng.choice(list(ch.tasks.values()))
        kind = machine.class_of(t, spec)['kind']
        v = mod.unwrap(kind, t.value)
        record({'op': 'value', 'failing': []}, task=t, value=v)
    seg = machine.portable({'chains': chains, 'rec': rec}, spec)
    req, io = machine.assemble([seg])
    for o, r in zip(io, rec):
        if r.get('_skip'):
            o['_skip'] = True
    return req, io, {**case, 'force': {'task': slug, 'delete_data': D}}


def run(ctx):
    quiet()
    from taskchain import MultiChain
    from taskchain.task import Task
    root = ctx.tmpdir()
    n = ctx.n(70, 900)
    reqs, metas = [], []
    freqs = []
    for i in range(n):
        rng = ctx.rng('multi', i)
        spec, variants = machine.gen_family(rng, n_variants=rng.randint(2, 5), kinds=[k for k in gen.KINDS_P if k not in ('dir', 'continues')])
        common = rng.choice([None, 'n', 'm::k'])
        mode = rng.random()
        # a share of the lists: ONE pipeline file behind every member, the members differ by their CONTEXT only (the usual parameter
        # sweep) — tasks that do not depend on the overridden parameter are the same computation in every member chain
        ctxmode = rng.random() < 0.35
        pkeys = [k for k in variants[0]['data'] if k != 'tasks']
        ctxs = {}
        coincide = rng.choice([(1, '1'), (True, 'True'), (None, 'None'), ([1], '[1]'), (1.5, '1.5')]) if ctxmode and rng.random() < 0.4 else None
        # (… overriding a parameter that takes part in persistence, all members under one namespace)
        eff = [p.get('nic') or p['name'] for c in spec['classes'].values() for p in c['params']
               if not p.get('ignore') and not p.get('dtype') and (p.get('nic') or p['name']) in pkeys]
        if coincide and eff:
            pkeys = [eff[0]] + [k for k in pkeys if k != eff[0]]
            mode = 0.0
        for v in variants:
            if mode < 0.7:
                v['ns'] = common
            src = variants[0]['file'] if ctxmode else v['file']
            spec['files']['main_' + v['file']] = {'uses': ['@cfg/' + src + (f' as {v["ns"]}' if v['ns'] else '')]}
            if ctxmode and pkeys and rng.random() < 0.8:
                cdict = {rng.choice(pkeys): gen.gen_value(rng, 1, 2, gen.SAFE, gen.SAFE)}
                if coincide:
                    # contexts of different members whose NAMES coincide (`dict_context(k:v)` renders 1 and '1' alike) although the values differ
                    cdict = {pkeys[0]: coincide[len(ctxs) % 2]}
                if v['ns'] and rng.random() < 0.4:
                    cdict = {'for_namespaces': {v['ns']: cdict}}
                ctxs['main_' + v['file']] = cdict
        b = pl.materialize(spec, root / f'm{i}', modname=spec['module'])
        b.module()
        mains = ['main_' + v['file'] for v in variants]
        reqs.append(builder.encode(spec, b, mains=[(m, ctxs.get(m)) for m in mains]))
        metas.append((spec, variants, mains, b, i, {**ctxs, '_coincide': bool(coincide)} if coincide else ctxs))
    outs = ctx.model.many(reqs)
    for (spec, variants, mains, b, i, ctxs), mo in zip(metas, outs):
        if ctxs.pop('_coincide', False):
            ctx.count('members-by-context:coinciding-names')
        case = {'module': spec['module'], 'variants': [{'file': v['file'], 'ns': v['ns']} for v in variants], 'contexts': ctxs}
        ctx.count('members-by-context' if ctxs else 'members-by-file')
        full_case = {**case, 'spec': spec}
        data, data2 = root / f'd{i}', root / f'ds{i}'
        standalone, err_s = [], None
        for m in mains:
            ch, err = pl.build(b, data2, main=m, context=ctxs.get(m))
            if err:
                err_s = err; break
            standalone.append(ch)
        if err_s:
            ctx.count('standalone-error'); b.cleanup_module(); continue
        try:
            mc = MultiChain([pl.make_config(b, data, main=m, context=ctxs.get(m)) for m in mains])
            merr = None
        except (ValueError, KeyError, AssertionError, RecursionError) as e:
            mc, merr = None, pl.error_kind(e)
        shared_some = False
        ctx.count('multichain-built' if mc else f'multichain-error:{merr}')
        # ---- correspondence
        if (mc is None) != ('error' in mo):
            ctx.case(case); ctx.diverge('multichain:error-vs-chains', full_case, merr or 'chains', mo.get('error', 'chains'))
        if mc is None:
            ctx.case(case, nontrivial=True)
            known = 'K6' if k6_class(standalone) else None
            ctx.fail('MultiChain construction fails although every member config builds standalone', full_case,
                     {'error': merr, 'members': len(mains)}, known=known)
            b.cleanup_module(); continue
        chains = [mc[pl.make_config(b, data, main=m).name] for m in mains]
        # global object numbering across chains (first occurrence)
        objs = {}
        impl_desc = []
        for ch in chains:
            d = []
            for nme, t in ch.tasks.items():
                d.append({'full': nme, 'key': t.name_for_persistence, 'obj': objs.setdefault(id(t), len(objs)),
                          'params': [[p.name, pl.to_model(p._value)] for p in t.parameters.values()],
                          'inputs': [[k, {'obj': objs.setdefault(id(v), len(objs))} if isinstance(v, Task) else {'default': pl.to_model(v)}]
                                     for k, v in t.input_tasks.items()]})
            impl_desc.append(d)
        if 'ok' in mo:
            ren, model_desc = {}, []
            all_names = {}
            for ch in mo['ok']:
                for t in ch:
                    all_names.setdefault(t['full'], t['obj'])
            for ch in mo['ok']:
                # (an input of a shared object may be named as in the chain that created the object)
                by_name = {**all_names, **{t['full']: t['obj'] for t in ch}}
                d = []
                for t in ch:
                    o = ren.setdefault(t['obj'], len(ren))
                    ins = [[k, {'obj': ren.setdefault(by_name.get(v['task'], -1), len(ren))} if 'task' in v else v] for k, v in t['inputs']]
                    d.append({'full': t['full'], 'key': t['key'], 'obj': o, 'params': t['params'], 'inputs': ins})
                model_desc.append(d)
            if impl_desc != model_desc:
                ctx.diverge('multichain:tasks-and-sharing', full_case, impl_desc, model_desc)
        n_objs = len(objs); n_names = sum(len(ch.tasks) for ch in chains)
        ctx.case(case, nontrivial=len(chains) < n_objs < n_names)
        ctx.count('sharing:some' if n_objs < n_names else 'sharing:none')
        # ---- oracle 1: member chain == standalone chain
        for ch, st in zip(chains, standalone):
            def sig(t, base):
                # (parameters declared `ignore_persistence` do not belong to the computation: a shared object keeps its creator's)
                return (t.name_for_persistence, str(t.data_path).replace(str(base), ''),
                        {p.name: pl.to_model(p._value) for p in t.parameters.values() if not p.ignore_persistence},
                        [(k, isinstance(v, Task)) for k, v in t.input_tasks.items()])
            a = {nme: sig(t, data) for nme, t in ch.tasks.items()}
            s = {nme: sig(t, data2) for nme, t in st.tasks.items()}
            if a != s:
                bad = [k for k in s if a.get(k) != s[k]] + [k for k in a if k not in s]
                # K6 shows in the INPUT TABLE of a shared object (re-resolved in another member's namespace, an optional input lost) — never in
                # a key, a location or a parameter value: a difference there is not K6
                only_inputs = all(k in a and k in s and a[k][:3] == s[k][:3] for k in bad)
                ctx.fail('a member chain of a MultiChain differs from the standalone chain of the same config', full_case,
                         {'tasks': bad[:4], 'differs_in': 'inputs' if only_inputs else 'key / location / parameters'},
                         known='K6' if (k6_class(standalone) and only_inputs) else ('K3' if k3_class(standalone, bad) else None))
                break
        # ---- oracle 2: one object iff same location
        loc = {}
        for ch in chains:
            for t in ch.tasks.values():
                loc.setdefault((t.slugname, t.name_for_persistence), set()).add(id(t))
        if any(len(v) > 1 for v in loc.values()):
            ctx.fail('two tasks that are the same computation are distinct objects across the member chains', full_case,
                     {'locations': [k for k, v in loc.items() if len(v) > 1][:3]})
        byobj = {}
        for ch in chains:
            for t in ch.tasks.values():
                byobj.setdefault(id(t), set()).add((t.slugname, t.name_for_persistence))
        # ---- oracle 3: values equal standalone values; shared value in memory; force fans out
        mod = b.module()
        rng = ctx.rng('multi-ops', i)
        names0 = list(chains[0].tasks)
        if names0:
            nme = rng.choice(names0)
            t0 = chains[0].tasks[nme]
            kind = machine.class_of(t0, spec)['kind']
            try:
                mod.RUNLOG.clear()
                v = mod.unwrap(kind, t0.value)
                vs = mod.unwrap(kind, standalone[0].tasks[nme].value)
                if v != vs:
                    ctx.fail('value through the MultiChain differs from the standalone chain\'s value', full_case, {'task': nme},
                             known='K6' if k6_class(standalone) else None)
                for ch in chains[1:]:
                    for t in ch.tasks.values():
                        if t is t0:
                            before = len(mod.RUNLOG)
                            _ = t.value
                            if len(mod.RUNLOG) != before:
                                ctx.fail('a value computed through one chain was recomputed through another chain sharing the task', full_case, {'task': nme})
                mc.force(t0.slugname)
                for ch in chains:
                    for t in ch.tasks.values():
                        if t.slugname == t0.slugname and not t.is_forced:
                            ctx.fail('forcing through the MultiChain did not reach every member chain', full_case, {'task': t.fullname})
                ctx.count('value+force probes')
                # ---- forcing with flags: MultiChain.force(tasks, recompute, delete_data) = Chain.force on every member chain
                from tcv.data_kinds import persisting
                for R in (True, False):          # with recomputation first (everything is stored again afterwards), then without
                    for ch in chains:
                        for t in ch.tasks.values():
                            _ = t.value                     # everything computed and stored
                    D = rng.random() < 0.5
                    F = {}
                    for ch in chains:
                        F.update(machine.downstream(ch, [t for t in ch.tasks.values() if t.slugname == t0.slugname]))
                    mod.RUNLOG.clear()
                    mc.force(t0.slugname, recompute=R, delete_data=D)
                    ran = [x[2] for x in mod.RUNLOG]
                    ctx.count(f'force-flags:recompute={R},delete={D}')
                    probe = {'task': t0.slugname, 'recompute': R, 'delete_data': D}
                    for x, t in F.items():
                        if R:
                            if ran.count(x) < 1:
                                ctx.fail('MultiChain.force(recompute=True) did not recompute a task downstream of the named one in some member chain', full_case, {**probe, 'not_run': t.fullname},
                                         known='K6' if k6_class(standalone) else None)
                            elif t._data is None or (persisting(t) and not t.has_data):
                                ctx.fail('a task recomputed through MultiChain.force has no result afterwards', full_case, {**probe, 'task': t.fullname})
                        else:
                            if not t.is_forced:
                                ctx.fail('MultiChain.force did not mark a task downstream of the named one in some member chain', full_case, {**probe, 'task': t.fullname},
                                         known='K6' if k6_class(standalone) else None)
                            if D and persisting(t) and t.has_data:
                                ctx.fail('MultiChain.force(delete_data=True) left the stored result of a forced task', full_case, {**probe, 'task': t.fullname})
                            if not D and persisting(t) and not t.has_data:
                                ctx.fail('MultiChain.force without delete_data removed a stored result', full_case, {**probe, 'task': t.fullname})
                    for x in set(ran) - set(F):
                        # (K6, silent variant: a shared object lost an optional input in its input table while the graph of the chain that
                        #  created it still has the edge — the closure computed from the tables and the one `force` uses disagree)
                        ctx.fail('MultiChain.force ran a task that is not downstream of the named one', full_case,
                                 {**probe, 'ran': [t.fullname for ch in chains for t in ch.tasks.values() if id(t) == x][:1]},
                                 known='K6' if k6_class(standalone) else None)
            except (KeyError, ValueError):
                ctx.count('probe-skipped:ambiguous-name')
        # ---- correspondence with the store machine: values everywhere, MultiChain.force (as Chain.force on each member, theorem
        #      C13.multichain_force_fans_out), then some value requests; a fresh MultiChain on a fresh directory
        if names0 and not k6_class(standalone):
            try:
                freqs.append(force_history(ctx, b, spec, mains, root / f'dm{i}', ctx.rng('multi-force', i), full_case, ctxs))
            except (KeyError, ValueError):
                ctx.count('force-history-skipped')
        # ---- oracle 4 (a share of the cases): the same list in name mode — members must be the standalone name-mode chains
        if i % 2 == 0 and not ctxs:
            try:
                mcn = MultiChain([pl.make_config(b, root / f'dn{i}', main=m) for m in mains], parameter_mode=False)
            except (ValueError, KeyError, AssertionError, RecursionError):
                mcn = None
            if mcn is not None:
                ctx.count('name-mode-probe')
                # ---- correspondence with the Lean model of name-mode construction (BuildNM.buildMulti): tasks, objects shared by
                #      (task name, config file), parameters, storage names, inputs
                nchains = [mcn[pl.make_config(b, root / f'dn{i}', main=m).name] for m in mains]
                nm_mo = ctx.model.one({**builder.encode(spec, b, mains=[(m, None) for m in mains]), 'op': 'multi_nm'})
                nobjs, nimpl = {}, []
                for ch in nchains:
                    nimpl.append([{'full': nme, 'key': t.name_for_persistence, 'obj': nobjs.setdefault(id(t), len(nobjs)),
                                   'params': [[p.name, pl.to_model(p._value)] for p in t.parameters.values()],
                                   'inputs': [[k, {'obj': nobjs.setdefault(id(v), len(nobjs))} if isinstance(v, Task) else {'default': pl.to_model(v)}]
                                              for k, v in t.input_tasks.items()]} for nme, t in ch.tasks.items()])
                if 'ok' not in nm_mo:
                    ctx.diverge('multichain-name-mode:error-vs-chains', full_case, 'chains', nm_mo.get('error'))
                else:
                    ren, nmodel, all_names = {}, [], {}
                    for ch in nm_mo['ok']:
                        for t in ch:
                            all_names.setdefault(t['full'], t['obj'])
                    for ch in nm_mo['ok']:
                        by_name = {**all_names, **{t['full']: t['obj'] for t in ch}}
                        d = []
                        for t in ch:
                            o = ren.setdefault(t['obj'], len(ren))
                            ins = [[k, {'obj': ren.setdefault(by_name.get(v['task'], -1), len(ren))} if 'task' in v else v] for k, v in t['inputs']]
                            d.append({'full': t['full'], 'key': t['key'], 'obj': o, 'params': t['params'], 'inputs': ins})
                        nmodel.append(d)
                    if nimpl != nmodel:
                        ctx.diverge('multichain-name-mode:tasks-and-sharing', full_case, nimpl, nmodel)
                for m in mains:
                    st, err = pl.build(b, root / f'dns{i}', main=m, parameter_mode=False)
                    if err:
                        continue
                    ch = mcn[pl.make_config(b, root / f'dn{i}', main=m).name]
                    a = {nme: str(t.data_path).replace(str(root / f'dn{i}'), '') for nme, t in ch.tasks.items()}
                    s_ = {nme: str(t.data_path).replace(str(root / f'dns{i}'), '') for nme, t in st.tasks.items()}
                    if a != s_:
                        bad = [k for k in s_ if a.get(k) != s_[k]]
                        ctx.fail('a member chain of a name-mode MultiChain stores its results elsewhere than the standalone name-mode chain',
                                 full_case, {'tasks': bad[:3], 'member': [a.get(k) for k in bad[:3]], 'standalone': [s_[k] for k in bad[:3]]})
                        break
        b.cleanup_module()
    # ---- model side of the force histories
    fr = [x for x in freqs if x]
    for (req, io, case_), mo in zip(fr, ctx.model.many([x[0] for x in fr])):
        ctx.count('force-histories')
        if 'outs' not in mo:
            ctx.diverge('multichain:force-history', case_, None, mo); continue
        for k, (a, m_) in enumerate(zip(io, mo['outs'])):
            if a.get('_skip'):
                continue
            m_ = machine.canon_model_out(m_, a)
            a = {kk: vv for kk, vv in a.items() if not kk.startswith('_')}
            if a != m_:
                ctx.diverge('multichain:force-history', case_, {'op_index': k, 'impl': a}, {'model': m_}); break
    name_mode_same_file_name(ctx, root)
    member_names_probe(ctx, root)
    name_mode_nested_probe(ctx, root)
    from_dir_probe(ctx, root)
    data_dir_spelling_probe(ctx, root)
    # the recorded K6 witness
    k6_witness(ctx, root)


def name_mode_same_file_name(ctx, root):
    """name mode: member pipelines that use config files with the SAME file name in different directories (run_a/model.json,
    run_b/model.json) are different configs: every member chain has the parameter values of the standalone chain of its config
    (implementation-level oracle; `BuildNM`: the registry key is the config's whole path, not its file name)"""
    from taskchain import MultiChain
    for k in range(ctx.n(6, 40)):
        rng = ctx.rng('nm-same-name', k)
        vals = rng.sample([1, 2, 'a', [1], {'k': 2}, None], 2)
        spec = {'classes': {'K0': {'name': 'up', 'group': rng.choice(['', 'g']), 'params': [{'name': 'x'}], 'inputs': [], 'kind': 'json', 'run_args': ['x']},
                            'K1': {'name': 'down', 'group': '', 'params': [{'name': 'y', 'default': 0}], 'inputs': [{'by': 'class', 'ref': 'K0'}], 'kind': 'json',
                                   'run_args': ['y'], 'pull': [], 'in_kinds': {}}},
                'files': {'run_a/model.json': {'tasks': ['K0', 'K1'], 'x': vals[0]}, 'run_b/model.json': {'tasks': ['K0', 'K1'], 'x': vals[1], 'y': 5},
                          'm1.json': {'uses': ['@cfg/run_a/model.json' + rng.choice(['', ' as n'])]},
                          'm2.json': {'uses': ['@cfg/run_b/model.json' + rng.choice(['', ' as n'])]}}, 'main': 'm1.json'}
        if k % 2:
            # ... or two parts of ONE multi-config file (`multi.json#a`, `multi.json#b`)
            spec['files'] = {'multi.json': {'configs': {'a': {'tasks': ['K0', 'K1'], 'x': vals[0]}, 'b': {'tasks': ['K0', 'K1'], 'x': vals[1], 'y': 5}}},
                             'm1.json': {'uses': ['@cfg/multi.json#a' + rng.choice(['', ' as n'])]},
                             'm2.json': {'uses': ['@cfg/multi.json#b' + rng.choice(['', ' as n'])]}}
        b = pl.materialize(spec, root / f'nms{k}', modname=gen.fresh_modname())
        b.module()
        case = {'probe': 'name mode, same file name in two directories / two parts of one file', 'values': vals, 'files': spec['files']}
        ctx.case(case); ctx.count('name-mode-same-file-name')
        try:
            mc = MultiChain([pl.make_config(b, root / f'nmsd{k}', main=m) for m in ('m1.json', 'm2.json')], parameter_mode=False)
        except Exception as e:      # noqa
            ctx.fail('a name-mode MultiChain over two different configs could not be built', case, f'{type(e).__name__}: {e}'[:200])
            b.cleanup_module(); continue
        for m in ('m1.json', 'm2.json'):
            st, err = pl.build(b, root / f'nmss{k}', main=m, parameter_mode=False)
            ch = mc[pl.make_config(b, root / f'nmsd{k}', main=m).name]
            a = {n: {p.name: pl.to_model(p._value) for p in t.parameters.values()} for n, t in ch.tasks.items()}
            s_ = {n: {p.name: pl.to_model(p._value) for p in t.parameters.values()} for n, t in st.tasks.items()}
            if a != s_:
                ctx.fail('a member chain of a name-mode MultiChain has other parameter values than the standalone chain of its config', case,
                         {'member': m, 'member_chain': a, 'standalone': s_})
                break
        b.cleanup_module()


def name_mode_nested_probe(ctx, root):
    """name mode: ONE config file mounted under a nested namespace in one member (`a::c`) and under other namespaces in the others (`c`, `m::k::c`,
    none): the registry key is the file without ANY namespace, so the members share its task objects — compared with `BuildNM.buildMulti`"""
    from taskchain import MultiChain
    for k in range(ctx.n(6, 40)):
        rng = ctx.rng('nm-nested', k)
        nss = rng.sample(['a::c', 'c', 'm::k::c', None, 'a::b::c', 'z'], 3)
        spec = {'classes': {'K0': {'name': 'common', 'group': rng.choice(['', 'g']), 'params': [{'name': 'x'}], 'inputs': [], 'kind': 'json', 'run_args': ['x']}},
                'files': {'p.json': {'tasks': ['K0'], 'x': k}}, 'main': 'm0.json', 'module': gen.fresh_modname()}
        mains = []
        for j, ns in enumerate(nss):
            spec['files'][f'm{j}.json'] = {'uses': ['@cfg/p.json' + (f' as {ns}' if ns else '')]}
            mains.append(f'm{j}.json')
        b = pl.materialize(spec, root / f'nmn{k}', modname=spec['module'])
        b.module()
        case = {'probe': 'name mode, one file under nested and shallow namespaces', 'namespaces': nss}
        ctx.case(case, nontrivial=True); ctx.count('name-mode-nested-probe')
        try:
            mc = MultiChain([pl.make_config(b, root / f'nmnd{k}', main=m) for m in mains], parameter_mode=False)
        except Exception as e:      # noqa
            ctx.fail('a name-mode MultiChain over one file under several namespaces could not be built', case, f'{type(e).__name__}: {e}'[:200])
            b.cleanup_module(); continue
        objs = [id(t) for m in mains for t in mc[pl.make_config(b, root / f'nmnd{k}', main=m).name].tasks.values()]
        mo = ctx.model.one({**builder.encode(spec, b, mains=[(m, None) for m in mains]), 'op': 'multi_nm'})
        model_objs = [t['obj'] for ch in mo.get('ok', []) for t in ch]
        if 'ok' not in mo or len(set(objs)) != len(set(model_objs)):
            ctx.diverge('multichain-name-mode:nested-namespaces', case, {'distinct_objects': len(set(objs))}, mo if 'ok' not in mo else {'distinct_objects': len(set(model_objs))})
        if len(set(objs)) != 1:
            ctx.fail('two tasks that are the same computation are distinct objects across the member chains', case,
                     {'mode': 'name', 'distinct_objects': len(set(objs)), 'members': len(mains)})
        b.cleanup_module()


def from_dir_probe(ctx, root):
    """`MultiChain.from_dir(data_dir, dir)`: one member per config file of the directory, filed under the file's name, each the chain of its
    config with the given keyword arguments (e.g. `global_vars`) — whatever order the directory is listed in"""
    import pathlib
    from taskchain import MultiChain
    for k in range(ctx.n(4, 24)):
        rng = ctx.rng('from-dir', k)
        xs = rng.sample([1, 2, 'a', [1], {'k': 2}, None, 0.5, '{V}/p'], 3)
        spec = {'classes': {'K0': {'name': 'up', 'group': '', 'params': [{'name': 'x'}], 'inputs': [], 'kind': 'json', 'run_args': ['x']},
                            'K1': {'name': 'down', 'group': '', 'params': [], 'inputs': [{'by': 'class', 'ref': 'K0'}], 'kind': 'json', 'run_args': ['up'],
                                   'in_kinds': {'up': 'json'}}},
                'files': {f'runs/r{j}.json': {'tasks': ['K0', 'K1'], 'x': x} for j, x in enumerate(xs)}, 'main': 'runs/r0.json', 'module': gen.fresh_modname()}
        b = pl.materialize(spec, root / f'fd{k}', modname=spec['module'])
        b.module()
        d = b.path('runs/r0.json').parent
        order = rng.choice(['sorted', 'reverse', 'shuffle'])
        orig = pathlib.Path.iterdir

        def iterdir(self):
            files = sorted(orig(self))
            if self == d:
                if order == 'reverse':
                    files.reverse()
                elif order == 'shuffle':
                    rng.shuffle(files)
            return iter(files)
        case = {'probe': 'MultiChain.from_dir', 'x': xs, 'listing': order}
        ctx.case(case, nontrivial=True); ctx.count('from-dir-probe')
        pathlib.Path.iterdir = iterdir
        try:
            mc = MultiChain.from_dir(root / f'fdd{k}', d, global_vars={'V': 'v'})
        except Exception as e:      # noqa
            ctx.fail('MultiChain.from_dir failed on a directory of config files', case, f'{type(e).__name__}: {e}'[:200]); b.cleanup_module(); continue
        finally:
            pathlib.Path.iterdir = orig
        if sorted(mc.chains) != [f'r{j}' for j in range(len(xs))]:
            ctx.fail('MultiChain.from_dir does not hold one chain per config file of the directory', case, sorted(mc.chains))
        else:
            from taskchain import Config
            for j in range(len(xs)):
                st = Config(root / f'fds{k}', d / f'r{j}.json', global_vars={'V': 'v'}).chain()
                a = {n: (t.name_for_persistence, str(t.params['x']) if 'x' in t.params else None) for n, t in mc[f'r{j}'].tasks.items()}
                s_ = {n: (t.name_for_persistence, str(t.params['x']) if 'x' in t.params else None) for n, t in st.tasks.items()}
                if a != s_:
                    ctx.fail('a member chain of a MultiChain differs from the standalone chain of the same config', case,
                             {'member': f'r{j}', 'member_chain': a, 'standalone': s_, 'via': 'from_dir'})
                    break
        b.cleanup_module()


def data_dir_spelling_probe(ctx, root):
    """members whose configs name ONE data directory in different ways (through a symbolic link, with a trailing `.`) still share identical
    tasks: one object iff same computation"""
    from taskchain import MultiChain, Config
    for k in range(ctx.n(3, 12)):
        spec = {'classes': {'K0': {'name': 'up', 'group': '', 'params': [{'name': 'x'}], 'inputs': [], 'kind': 'memory' if k % 2 else 'json', 'run_args': ['x']}},
                'files': {'a.json': {'tasks': ['K0'], 'x': 1}, 'b.json': {'tasks': ['K0'], 'x': 1}}, 'main': 'a.json', 'module': gen.fresh_modname()}
        b = pl.materialize(spec, root / f'dds{k}', modname=spec['module'])
        b.module()
        data = root / f'dds{k}' / 'data'
        data.mkdir(parents=True, exist_ok=True)
        link = root / f'dds{k}' / 'data-link'
        if not link.exists():
            link.symlink_to(data, target_is_directory=True)
        other = link if k % 3 else data / '.'
        case = {'probe': 'one data directory, two spellings', 'second_spelling': 'symlink' if k % 3 else 'trailing dot'}
        ctx.case(case, nontrivial=True); ctx.count('data-dir-spelling-probe')
        mc = MultiChain([Config(data, str(b.path('a.json'))), Config(other, str(b.path('b.json')))])
        t1, t2 = mc['a'].tasks['up'], mc['b'].tasks['up']
        if t1 is not t2:
            ctx.fail('two tasks that are the same computation are distinct objects across the member chains', case,
                     {'keys': [t1.name_for_persistence, t2.name_for_persistence]})
        b.cleanup_module()


def member_names_probe(ctx, root):
    """`MultiChain._prepare` files the member chains under `config.name` and refuses a second config with the same name — also for two
    different files with one stem (a/m.json, b/m.json) and for a file without a dot (name '') — before that member's chain is built, so an
    earlier member's construction error wins.  Correspondence with `buildMulti` / `BuildNM.buildMulti` (`mainName`, error `dupChain`)."""
    from taskchain import MultiChain
    for k in range(ctx.n(10, 80)):
        rng = ctx.rng('member-names', k)
        bad_first = rng.random() < 0.25        # the first member fails on its own (missing required parameter)
        spec = {'classes': {'K0': {'name': 'up', 'group': '', 'params': [{'name': 'x'}], 'inputs': [], 'kind': 'json', 'run_args': ['x']}},
                'files': {'p.json': {'tasks': ['K0'], **({} if bad_first else {'x': 1})}, 'q.json': {'tasks': ['K0'], 'x': 2},
                          'a/m.json': {'uses': ['@cfg/p.json']}, 'b/m.json': {'uses': ['@cfg/q.json']}, 'other.json': {'uses': ['@cfg/q.json as n']},
                          'multi.json': {'configs': {'u': {'uses': ['@cfg/p.json'], 'main_part': True}, 'v': {'uses': ['@cfg/q.json']}}}},
                'main': 'a/m.json'}
        pool = ['a/m.json', 'b/m.json', 'other.json', 'multi.json', 'multi.json#u', 'multi.json#v', 'q.json']
        mains = [rng.choice(pool) for _ in range(rng.randint(2, 4))]
        if rng.random() < 0.5:
            mains.append(rng.choice(mains))            # an exact repetition
        pmode = bool(k % 2)
        spec['module'] = gen.fresh_modname()
        b = pl.materialize(spec, root / f'mn{k}', modname=spec['module'])
        b.module()
        case = {'probe': 'member names', 'mains': mains, 'parameter_mode': pmode, 'first_member_fails': bad_first, 'files': spec['files']}
        ctx.case(case, nontrivial=True)
        try:
            cfgs = [pl.make_config(b, root / f'mnd{k}', main=m) for m in mains]
            names = [c.name for c in cfgs]
            mc = MultiChain(cfgs, parameter_mode=pmode)
            impl = {'ok': sorted(mc.chains)}
        except (ValueError, KeyError, AssertionError) as e:
            impl = {'error': pl.error_kind(e)}
        mo = ctx.model.one({**builder.encode(spec, b, mains=[(m, None) for m in mains]), 'op': 'multi' if pmode else 'multi_nm'})
        model = {'error': mo['error']} if 'error' in mo else {'ok': sorted(set(names))}
        ctx.count('member-names:' + (impl.get('error') or 'built'))
        if impl != model:
            ctx.diverge('multichain:member-names', case, impl, model)
        # reference: a repeated name is an error, distinct names are not (unless a member fails on its own)
        if len(set(names)) < len(names) and 'ok' in impl:
            ctx.fail('a MultiChain was built from two configs with one name: one chain silently replaced the other', case, {'names': names})
        if len(set(names)) == len(names) and impl.get('error') == 'dup_chain':
            ctx.fail('member configs with distinct names were refused as duplicates', case, {'names': names})
        b.cleanup_module()


def k6_witness(ctx, root):
    from taskchain import MultiChain
    spec = {'classes': {'K0': {'name': 'p1', 'group': '', 'params': [{'name': 'x'}], 'inputs': [], 'kind': 'json', 'run_args': []},
                        'K1': {'name': 'p2', 'group': '', 'params': [], 'inputs': [{'by': 'class', 'ref': 'K0'}], 'kind': 'json', 'run_args': []}},
            'files': {'p.json': {'tasks': ['K0', 'K1'], 'x': 1}, 'c1.json': {'uses': ['@cfg/p.json as a']}, 'c2.json': {'uses': ['@cfg/p.json as b']}},
            'main': 'c1.json'}
    b = pl.materialize(spec, root / 'k6', modname=gen.fresh_modname())
    b.module()
    ctx.case({'witness': 'K6'})
    try:
        MultiChain([pl.make_config(b, root / 'k6d', main='c1.json'), pl.make_config(b, root / 'k6d', main='c2.json')])
        ctx.notes['K6'] = 'witness builds: finding K6 appears repaired'
    except ValueError:
        ctx.fail('K6 witness', {'witness': 'K6'}, known='K6')
    b.cleanup_module()


def search(ctx, divergences):
    run(ctx)


def sanity(ctx):
    from tcv.core import BrokenCheck
    c = ctx.counts
    if c.get('multichain-built', 0) < 0.3 * ctx.evaluations or c.get('sharing:some', 0) < 0.15 * ctx.evaluations:
        raise BrokenCheck(f'generator distribution collapsed: {c}')
