"""C14 — file caches return the value for the key, or recompute.

Operation sequences (get / get_or_compute / forced, returning or raising computers, several sub-caches, keys from all of
unicode) on the real JsonCache / DataFrameCache / NumpyArrayCache / InMemoryCache, with damage injected between operations
(delete, empty, truncate the actual file, garbage, swap in the file recorded for another key).  Every sequence is replayed on the
Lean model `TCV.Cache` (real sha256 paths) and on an independent dictionary oracle written in Python."""
import copy
import os
import shutil
from pathlib import Path

from tcv import gen

RULE = ('seeded operation sequences (5-30 operations) per cache type (JsonCache with allow_nones on/off, DataFrameCache, '
        'NumpyArrayCache, InMemoryCache) over a pool of unicode keys (empty, "/", NUL, astral, look-alikes, random strings) and '
        'sub-caches (nested, named like hash prefixes), computers that return (interned values of the type\'s domain) or raise, '
        'fresh cache objects between operations, damage between operations (delete / empty / truncate at a random length / garbage / '
        'copy of another entry\'s file); plus a truncation sweep: every (quick: a sample of) proper prefix length of real entry '
        'files of each type; plus the JSON text: the bytes JsonCache writes equal the model\'s entryText, every character-level proper prefix '
        'fails both the model\'s structural scan and orjson.loads, and `orjson accepts => scan accepts` on random mutations. Compared with the Lean model: output or error kind, computer-call count per operation, set of cache '
        'files (literal relative paths) and file states at the end; oracle: dictionary semantics in Python. distinct = distinct '
        '(type, operation list); non-trivial = at least one hit and one recomputation or damage')
ASSUMPTIONS = ['sha256 collisions do not occur among the generated keys',
               'orjson.loads rejects every text that fails the structural scan TCV.Json.complete (checked on every run on prefixes and mutations)',
               'serializers (orjson, pandas pickle, numpy save/load) round-trip the generated values and raise on every proper prefix '
               'of a file they wrote (sampled on every run by the truncation sweep; a theorem only for the JSON text)',
               'sub-cache names are relative path components without `..`; the file system is changed only by the cache and by the '
               'injected damage']
TRUSTED = ['modelled, not verified: orjson / pickle / numpy readers raise (not return) on empty, truncated and garbage files; '
           'filelock (uncontended here); `key != loaded["key"]` is code-point equality']

KEYS = ['k', 'k2', 'K', 'k ', ' k', '', '/', 'a/b', '../x', '.', '\x00', 'x\x00y', '\u00e9', 'e\u0301', '\U0001F600',
        '\U0001F600\U0001F600', '\u00df', 'ss', '\u212a', 'key', 'key\n', '{"key": "k"}', 'k' * 300, '\ud7ff', '\ue000', '\uffff',
        '\U0010ffff', '\uff41', 'a', '\u0430']
DIRS = [(), (), (), ('s1',), ('s2',), ('s1', 's2'), ('s1x',), ('s1', 's1'), ('abcde',), ('é 😀',), ('tmp_x',)]
GARBAGE = [b'{', b'[]', b'null', b'{"value": 1}', b'\xff\xfe\x00', b'{"key":"k","value":', b'\x80\x04\x95',
           b'\x93NUMPY\x01\x00', b' ', b'{"key": "k", "value": 1}}']


class Boom(Exception):
    pass


def gen_key(rng):
    if rng.random() < 0.7:
        return rng.choice(KEYS)
    alpha = ['a', 'k', '/', '\\', '\x00', ' ', '.', 'é', 'ß', '😀', '中', '́', '"', "'", '\n', '\U0001F9EA', '0']
    return ''.join(rng.choice(alpha) for _ in range(rng.randrange(0, 6)))


# ------------------------------------------------------------------------------------------- value domains

def json_values(rng, n):
    out, seen = [], set()
    INTS = [0, 1, -1, 2, 7, 42, 2 ** 53, -2 ** 63, 2 ** 63]
    while len(out) < n:
        v = gen.gen_value(rng, maxdepth=3)
        v = _fix_ints(v, rng, INTS)
        c = gen.canon_json(v)
        if v is None or c in seen:
            continue
        seen.add(c)
        out.append(v)
    return out


def _fix_ints(v, rng, ints):
    if isinstance(v, bool):
        return v
    if isinstance(v, int):
        return v if abs(v) < 2 ** 63 else rng.choice(ints)
    if isinstance(v, list):
        return [_fix_ints(x, rng, ints) for x in v]
    if isinstance(v, dict):
        return {k: _fix_ints(x, rng, ints) for k, x in v.items()}
    return v


def np_value(i):
    import numpy as np
    if i in (5, 7):
        # object-dtype arrays (strings / None / containers as objects, ragged rows): saved by pickling inside the .npy file
        a = np.empty(3 if i == 5 else 2, dtype=object)
        a[:] = [None, 'é', {'k': [1]}] if i == 5 else [[1, 2], [3]]
        return a
    if i in (9, 11, 14):
        # 0-dimensional arrays (the result of a reduction) and an empty 2-d array: shape () / (0, 3) are shapes like any other
        return np.array(i * 1.5) if i == 9 else (np.array(i, dtype=np.int64) if i == 11 else np.zeros((0, 3), dtype=np.float32))
    dt = [np.int64, np.float32, np.float64, np.uint8, np.bool_][i % 5]
    a = (np.arange(i + (i % 3)) % 7).astype(dt)
    if i % 4 == 3 and a.size % 2 == 0:
        a = a.reshape(2, -1)
    return a + (i if dt not in (np.bool_,) else 0)


def pd_value(i):
    import pandas as pd
    n = i % 4
    return pd.DataFrame({'a': [i + j for j in range(n)], 's': [f'é{j}\x00' for j in range(n)], 'f': [j / 2 for j in range(n)]},
                        index=[f'r{j}' for j in range(n)] if i % 2 else None).assign(**{f'tag{i}': i})


def ident(kind, v):
    """type-strict identity of a value of the cache type's domain"""
    import numpy as np
    import pandas as pd
    if kind == 'npy':
        if not isinstance(v, np.ndarray):
            return ('other', repr(v))
        if v.dtype == object:
            return ('np', 'object', v.shape, repr(v.tolist()))
        return ('np', str(v.dtype), v.shape, v.tobytes())
    if kind == 'pd':
        if not isinstance(v, pd.DataFrame):
            return ('other', repr(v))
        return ('pd', tuple(map(str, v.dtypes)), tuple(v.columns), tuple(map(repr, v.index)), v.to_json(orient='split'))
    return gen.canon_json(v)


class Values:
    def __init__(self, kind, rng):
        self.kind = kind
        if kind in ('json', 'mem'):
            self.vals = json_values(rng, 8)
        elif kind == 'npy':
            self.vals = [np_value(i) for i in (0, 1, 2, 3, 4, 5, 6, 7, 9, 11, 14)]
        else:
            self.vals = [pd_value(i) for i in range(8)]
        self.index = {ident(kind, v): i for i, v in enumerate(self.vals)}
        assert len(self.index) == len(self.vals)

    def get(self, i):
        return None if i is None else copy.deepcopy(self.vals[i])

    def lookup(self, v):
        if v is None:
            return {'val': None}
        i = self.index.get(ident(self.kind, v))
        return {'val': i} if i is not None else {'unknown': repr(v)[:200]}


# ------------------------------------------------------------------------------------------- implementation side

def make_cache(kind, root, allow_nones):
    import taskchain.cache as tc
    if kind == 'json':
        return tc.JsonCache(root, allow_nones=allow_nones)
    if kind == 'pd':
        return tc.DataFrameCache(root)
    if kind == 'npy':
        return tc.NumpyArrayCache(root)
    return tc.InMemoryCache()


def descend(cache, d, rng):
    """reach the sub-cache of directory `d`, by one call per component or (file caches) by a joined name"""
    import taskchain.cache as tc
    if d and len(d) > 1 and isinstance(cache, tc.FileCache) and rng.random() < 0.4:
        return cache.subcache('/'.join(d))
    for part in d:
        cache = cache.subcache(part)
    return cache


def list_files(root):
    out = []
    for dp, dn, fn in os.walk(root):
        for f in fn:
            if f.endswith('.lock'):
                continue
            out.append(os.path.relpath(os.path.join(dp, f), root).replace(os.sep, '/'))
    return sorted(out)


def describe_file(kind, path, key_hint, values):
    """what a complete entry file holds, for telling the model what was copied: {'k': key, 'v': value index} or None"""
    import json as _json
    try:
        if kind == 'json':
            d = _json.loads(path.read_bytes().decode('utf-8'))
            if not (isinstance(d, dict) and set(d) == {'key', 'value'} and isinstance(d['key'], str)):
                return None
            k, v = d['key'], d['value']
        elif kind == 'pd':
            import pandas as pd
            k, v = key_hint, pd.read_pickle(path)
        else:
            import numpy as np
            k, v = key_hint, np.load(path, allow_pickle=True)
    except Exception:
        return None
    r = values.lookup(v)
    return {'k': k, 'v': r['val']} if 'val' in r else None


class Impl:
    def __init__(self, kind, allow_nones, root, values, rng):
        self.kind, self.allow_nones, self.root, self.values, self.rng = kind, allow_nones, root, values, rng
        if root.exists():
            shutil.rmtree(root)
        self.cache = make_cache(kind, root, allow_nones)

    def target(self, d):
        if self.kind != 'mem' and self.rng.random() < 0.3:
            self.cache = make_cache(self.kind, self.root, self.allow_nones)     # a fresh object: the state is the files only
        return descend(self.cache, d, self.rng)

    def filepath(self, d, k):
        return descend(self.cache, d, self.rng).filepath(k)

    def do(self, op):
        import taskchain.cache as tc
        calls = [0]
        if op['o'] == 'set':
            try:
                p = self.filepath(op['d'], op['k'])
                how = op['how']
                if how == 'delete':
                    if p.exists():
                        p.unlink()
                elif how == 'empty':
                    p.write_bytes(b'')
                elif how == 'trunc':
                    p.write_bytes(p.read_bytes()[:op['len']])
                elif how == 'garbage':
                    p.write_bytes(GARBAGE[op['g']])
                elif how == 'swap':
                    p.write_bytes(self.filepath(op['from'][0], op['from'][1]).read_bytes())
            except OSError as e:
                return {'damage_failed': type(e).__name__}, 0      # the file layout is not the expected one
            return 'unit', 0
        c = self.target(op['d'])

        def comp():
            calls[0] += 1
            if op['c'] == 'raise':
                raise Boom()
            return self.values.get(op['c']['ret'])
        try:
            if op['o'] == 'get':
                r = c.get(op['k'])
            else:
                r = c.get_or_compute(op['k'], comp, force=op['force'])
            out = 'no_value' if r is tc.NO_VALUE else self.values.lookup(r)
        except Boom:
            out = 'raised'
        except tc.CacheException:
            out = 'cache_error'
        except Exception as e:  # noqa
            out = {'error': type(e).__name__}
        return out, calls[0]


# ------------------------------------------------------------------------------------------- dictionary oracle

class Oracle:
    """dictionary semantics: slot (dir, key) -> value index | 'bad' (an entry that has to be reported); damaged = absent"""

    def __init__(self, kind):
        self.kind = kind
        self.D = {}

    def expect(self, op):
        """expected (output, calls) of a cache operation, and the state update"""
        a = (tuple(op['d']), op['k'])
        cur = self.D.get(a)
        if op['o'] == 'get':
            return ('no_value' if cur is None else 'cache_error' if cur == 'bad' else {'val': cur[0]}), 0
        if not op['force'] and cur is not None:
            return ('cache_error' if cur == 'bad' else {'val': cur[0]}), 0
        if op['c'] == 'raise':
            return 'raised', 1
        self.D[a] = (op['c']['ret'],)
        return {'val': op['c']['ret']}, 1

    def damage(self, op):
        a = (tuple(op['d']), op['k'])
        if op['how'] == 'swap':
            src = self.D.get((tuple(op['from'][0]), op['from'][1]))
            assert src is not None and src != 'bad'
            self.D[a] = src if (self.kind != 'json' or op['from'][1] == op['k']) else 'bad'
        else:
            self.D.pop(a, None)


# ------------------------------------------------------------------------------------------- generation

def gen_case(ctx, rng, kind, idx, root):
    allow_nones = rng.random() < 0.6 if kind == 'json' else True
    values = Values(kind, rng)
    impl = Impl(kind, allow_nones, root, values, rng)
    oracle = Oracle(kind)
    nkeys = rng.choice([1, 2, 2, 3, 4])
    keys = [gen_key(rng) for _ in range(nkeys)]
    dirs = [rng.choice(DIRS) for _ in range(rng.choice([1, 1, 2, 3]))]
    none_ok = kind in ('json', 'mem')
    ops, impl_outs, exp_outs = [], [], []
    stats = {'hit': 0, 'recompute': 0, 'damage': 0, 'foreign': 0}
    oracle_off = False
    for step in range(rng.randint(5, 30)):
        d = list(rng.choice(dirs))
        k = rng.choice(keys)
        r = rng.random()
        if r < 0.22 and kind != 'mem':
            # damage; only in ways whose outcome is determined (source of a swap / truncation must be an intact entry)
            intact = [a for a, s in oracle.D.items() if s != 'bad']
            how = rng.choice(['delete', 'empty', 'trunc', 'trunc', 'garbage', 'swap', 'swap'])
            op = {'o': 'set', 'd': d, 'k': k, 'how': how}
            if how == 'trunc':
                if (tuple(d), k) not in intact:
                    continue
                fp = impl.filepath(d, k)
                size = fp.stat().st_size if fp.exists() else 0
                if size == 0:          # the entry the dictionary knows has no file of its own (outputs will show why)
                    ctx.count('damage_skipped')
                    continue
                op['len'] = rng.randrange(0, size)
                op['of'] = size
            elif how == 'garbage':
                op['g'] = rng.randrange(len(GARBAGE))
            elif how == 'swap':
                src = [a for a in intact if a != (tuple(d), k)]
                if not src:
                    continue
                s = rng.choice(src)
                desc = describe_file(kind, impl.filepath(list(s[0]), s[1]), s[1], values)
                if desc is None:        # the source is not (any more) a complete entry file
                    ctx.count('damage_skipped')
                    continue
                op['from'] = [list(s[0]), s[1]]
            # what the file now is, for the model
            if how == 'delete':
                op['f'] = 'absent'
            elif how == 'swap':
                op['f'] = desc
            else:
                op['f'] = 'corrupt'
            dout = impl.do(op)
            if not oracle_off:
                oracle.damage(op)
            ops.append(op); impl_outs.append(list(dout)); exp_outs.append(None)
            stats['damage'] += 1
            if how == 'swap' and kind == 'json' and op['from'][1] != k:
                stats['foreign'] += 1
            continue
        if r < 0.45:
            op = {'o': 'get', 'd': d, 'k': k}
        else:
            q = rng.random()
            if q < 0.15:
                c = 'raise'
            elif q < 0.25 and none_ok:
                c = {'ret': None}
            else:
                c = {'ret': rng.randrange(len(values.vals))}
            op = {'o': 'goc', 'd': d, 'k': k, 'c': c, 'force': rng.random() < 0.25}
        out, calls = impl.do(op)
        if kind == 'json' and not allow_nones and op['o'] == 'goc' and op['c'] != 'raise' and op['c']['ret'] is None:
            # `None` where the root cache does not allow it: the property text is silent about it; from here on this case is
            # compared with the model only
            oracle_off = True
        exp = None if oracle_off else oracle.expect(op)
        ops.append(op); impl_outs.append([out, calls]); exp_outs.append(exp)
        if calls == 0 and isinstance(out, dict) and 'val' in out and op['o'] == 'goc':
            stats['hit'] += 1
        if calls == 1 and stats['damage']:
            stats['recompute'] += 1
    files = list_files(root) if kind != 'mem' else None
    case = {'kind': kind, 'allow_nones': allow_nones, 'ops': ops}
    return case, impl_outs, exp_outs, files, stats


def model_req(case):
    ops = []
    for op in case['ops']:
        if op['o'] == 'set':
            ops.append({'o': 'set', 'd': op['d'], 'k': op['k'], 'f': op['f']})
        else:
            ops.append({k: v for k, v in op.items() if k in ('o', 'd', 'k', 'c', 'force')})
    return {'m': 'cache', 'op': 'run', 'kind': case['kind'], 'allow_nones': case['allow_nones'], 'ops': ops}


def judge(ctx, case, impl_outs, exp_outs, files, mo, stats=None):
    nontrivial = bool(stats and stats['hit'] and (stats['recompute'] or stats['damage']))
    ctx.case(case, nontrivial=nontrivial if stats else True)
    ctx.count(f"kind={case['kind']}")
    if 'err' in mo:
        ctx.diverge('cache_run', case, impl_outs, mo)
        return
    if impl_outs != mo['outs']:
        i = next(i for i, (a, b) in enumerate(zip(impl_outs, mo['outs'])) if a != b)
        ctx.diverge('cache_run', case, {'op_index': i, 'op': case['ops'][i], 'out': impl_outs[i]}, {'out': mo['outs'][i]})
    elif files is not None and files != mo['files']:
        ctx.diverge('cache_files', case, files, mo['files'])
    for i, (got, exp) in enumerate(zip(impl_outs, exp_outs)):
        if exp is None:
            continue
        op = case['ops'][i]
        eout, ecalls = exp
        gout, gcalls = got
        ctx.count('out=' + (gout if isinstance(gout, str) else next(iter(gout))))
        if gout == eout and gcalls == ecalls:
            continue
        detail = {'op_index': i, 'op': op, 'got': got, 'expected': list(exp)}
        if op['o'] == 'get' and gcalls:
            ctx.fail('get called the computer', case, detail)
        elif isinstance(gout, dict) and 'val' in gout and eout in ('no_value', 'raised') or (isinstance(gout, dict) and 'unknown' in gout):
            ctx.fail('a missing/damaged entry (or a value never stored for the key) was returned as a value', case, detail)
        elif eout == 'cache_error':
            ctx.fail('a file recorded for another key was not reported', case, detail)
        elif gcalls != ecalls:
            ctx.fail('computer-call count differs from the dictionary semantics (hit recomputed, miss not computed, or computed twice)', case, detail)
        else:
            ctx.fail('result differs from the dictionary semantics', case, detail)
        break


# ------------------------------------------------------------------------------------------- truncation sweep

def sweep(ctx, root):
    """every proper prefix of real entry files is `corrupt`: get -> NO_VALUE, get_or_compute recomputes"""
    import taskchain.cache as tc
    batch = []
    for kind in ('json', 'pd', 'npy'):
        rng = ctx.rng('sweep', kind)
        values = Values(kind, rng)
        for vi in range(len(values.vals) if ctx.thorough else 3):
            k = rng.choice(KEYS)
            impl = Impl(kind, True, root, values, rng)
            impl.do({'o': 'goc', 'd': [], 'k': k, 'c': {'ret': vi}, 'force': False})
            p = impl.filepath([], k)
            raw = p.read_bytes()
            n = len(raw)
            if ctx.thorough or n <= 80:
                lens = list(range(n))
            else:
                lens = sorted(set(list(range(0, 24)) + list(range(n - 12, n)) + [rng.randrange(n) for _ in range(40)]))
            for L in lens:
                p.write_bytes(raw)
                ops = [{'o': 'goc', 'd': [], 'k': k, 'c': {'ret': vi}, 'force': False},
                       {'o': 'set', 'd': [], 'k': k, 'how': 'trunc', 'len': L, 'of': n, 'f': 'corrupt'},
                       {'o': 'get', 'd': [], 'k': k}]
                outs = [[{'val': vi}, 1], ['unit', 0]]
                impl.do(ops[1])
                outs.append(list(impl.do(ops[2])))
                exps = [None, None, ('no_value', 0)]
                if L % 3 == 0:
                    ops.append({'o': 'goc', 'd': [], 'k': k, 'c': {'ret': (vi + 1) % len(values.vals)}, 'force': False})
                    outs.append(list(impl.do(ops[3])))
                    exps.append(({'val': (vi + 1) % len(values.vals)}, 1))
                case = {'kind': kind, 'allow_nones': True, 'ops': ops, 'sweep': True}
                batch.append((case, outs, exps, None))
                ctx.count(f'sweep_{kind}')
    mos = ctx.model.many([model_req(c) for c, _, _, _ in batch])
    for (case, outs, exps, files), mo in zip(batch, mos):
        judge(ctx, case, outs, exps, files, mo)


def jv_orjson(v):
    """JSON-like value -> tagged JSON for the driver, numbers as the token orjson prints"""
    import orjson
    if v is None or isinstance(v, (bool, str)):
        return v
    if isinstance(v, (int, float)):
        return {'num': orjson.dumps(v).decode()}
    if isinstance(v, list):
        return [jv_orjson(x) for x in v]
    return {'obj': [[k, jv_orjson(x)] for k, x in v.items()]}


def json_text(ctx, root):
    """ties TCV.Json (theorem torn_json_never_loads) to the bytes JsonCache writes and to orjson.loads:
    (1) entryText(k, v) is the file content; (2) every character-level proper prefix fails the model's scan and orjson.loads;
    (3) the assumption `orjson accepts => the scan accepts`, on the texts, their prefixes and random mutations of them"""
    import orjson
    import taskchain.cache as tc

    def loads_ok(t):
        try:
            orjson.loads(t)
            return True
        except Exception:
            return False
    n = ctx.n(60, 500)
    cache = tc.JsonCache(root / 'jt')
    texts, reqs = [], []
    for i in range(n):
        rng = ctx.rng('jsontext', i)
        k = gen_key(rng)
        v = _fix_ints(gen.gen_value(rng, maxdepth=3), rng, [0, 1, -1, 2 ** 53, -2 ** 63])
        p = cache.filepath(k)
        cache.save_value(p, k, v)
        texts.append((k, v, p.read_bytes().decode('utf-8')))
        reqs.append({'m': 'cache', 'op': 'entry_text', 'k': k, 'v': jv_orjson(v)})
    mos = ctx.model.many(reqs)
    scan_reqs, scan_meta = [], []
    for i, ((k, v, text), mo) in enumerate(zip(texts, mos)):
        case = {'json_text': True, 'key': k, 'value': v}
        ctx.case(case)
        ctx.count('json_text')
        if mo.get('text') != text or mo.get('nums_ok') is not True:
            ctx.diverge('json_entry_text', case, text, mo)
            continue
        rng = ctx.rng('jsonscan', i)
        L = len(text)
        lens = list(range(L)) if (ctx.thorough or L <= 100) else sorted(set(list(range(16)) + list(range(L - 10, L)) + [rng.randrange(L) for _ in range(40)]))
        for m in lens:
            scan_reqs.append({'m': 'cache', 'op': 'scan', 'text': text[:m]}); scan_meta.append((case, 'prefix', text[:m]))
        scan_reqs.append({'m': 'cache', 'op': 'scan', 'text': text}); scan_meta.append((case, 'full', text))
        for _ in range(8):
            t = list(text)
            for _ in range(rng.randint(1, 2)):
                r = rng.random()
                pos = rng.randrange(len(t)) if t else 0
                if r < 0.4 and t:
                    del t[pos]
                elif r < 0.8:
                    t.insert(pos, rng.choice('{}[]",:\\ 1a'))
                elif t:
                    t[pos] = rng.choice('{}[]",:\\ 1a')
            t = ''.join(t)
            scan_reqs.append({'m': 'cache', 'op': 'scan', 'text': t}); scan_meta.append((case, 'mutant', t))
    for (case, what, t), mo in zip(scan_meta, ctx.model.many(scan_reqs)):
        ok = loads_ok(t)
        ctx.count(f'scan_{what}')
        c2 = dict(case, text=t, what=what)
        if 'err' in mo:
            ctx.diverge('json_scan', c2, ok, mo)
        elif what == 'prefix' and (mo['complete'] or ok):
            ctx.diverge('json_scan', c2, {'orjson_accepts': ok}, mo)
        elif what == 'full' and not (mo['complete'] and ok):
            ctx.diverge('json_scan', c2, {'orjson_accepts': ok}, mo)
        elif ok and not mo['complete']:
            ctx.diverge('json_scan_assumption', c2, {'orjson_accepts': ok}, mo)
        if what == 'mutant' and ok:
            ctx.count('scan_mutant_accepted')


def run(ctx):
    import tcv.quiet
    tcv.quiet.quiet()
    root = ctx.tmpdir() / 'c14' / 'cache'
    root.parent.mkdir(parents=True, exist_ok=True)
    n = ctx.n(300, 3000)
    batch = []
    tot = {'hit': 0, 'recompute': 0, 'damage': 0, 'foreign': 0}
    for kind in ('json', 'pd', 'npy', 'mem'):
        for i in range(n):
            rng = ctx.rng('seq', kind, i)
            case, impl_outs, exp_outs, files, stats = gen_case(ctx, rng, kind, i, root)
            batch.append((case, impl_outs, exp_outs, files, stats))
            for k2 in tot:
                tot[k2] += stats[k2]
    mos = ctx.model.many([model_req(c) for c, *_ in batch])
    for (case, impl_outs, exp_outs, files, stats), mo in zip(batch, mos):
        judge(ctx, case, impl_outs, exp_outs, files, mo, stats)
    for k2, v in tot.items():
        ctx.count('ops_' + k2, v)
    sweep(ctx, root)
    json_text(ctx, root.parent)
    own_cache_probe(ctx, root.parent)


def own_cache_probe(ctx, root):
    """the value returned for a key comes from the cache that was ASKED: two live objects of one class, each with a file cache of its own
    behind `obj.cache`, calling the same cached method — each computes once and finds its entry in its own directory"""
    import taskchain.cache as tc

    class Holder:
        def __init__(self, cache, tag):
            self.cache, self.tag, self.log = cache, tag, []

        @tc.cached()
        def m(self, x):
            self.log.append(x)
            return [self.tag, x]
    for k in range(ctx.n(3, 12)):
        caches = [tc.JsonCache(root / f'own{k}-a'), tc.JsonCache(root / f'own{k}-b')] if k % 2 == 0 else [tc.InMemoryCache(), tc.InMemoryCache()]
        a, b = Holder(caches[0], 'a'), Holder(caches[1], 'b')
        outs = [a.m(k), b.m(k), a.m(k), b.m(k)]
        case = {'probe': 'two objects with caches of their own', 'cache': type(caches[0]).__name__}
        ctx.case(case); ctx.count('own-cache-probe')
        if outs != [['a', k], ['b', k], ['a', k], ['b', k]] or a.log != [k] or b.log != [k]:
            ctx.fail('a cached call on one object was answered from (or stored into) the cache of another object', case,
                     {'returned': outs, 'computed': {'a': a.log, 'b': b.log}})
        if k % 2 == 0 and not any((root / f'own{k}-b').rglob('*.json')):
            ctx.fail('the entry of a cached call is not in the cache of the object that was called', case, {'directory': f'own{k}-b'})


def search(ctx, divergences):
    run(ctx)


def sanity(ctx):
    from tcv.core import BrokenCheck
    if ctx.failures or ctx.divergences:
        return          # a verdict is being reported; the distribution of a broken implementation says nothing
    c = ctx.counts
    need = {'ops_hit': 200, 'ops_recompute': 200, 'ops_damage': 200, 'ops_foreign': 20, 'out=cache_error': 20, 'out=raised': 50,
            'out=no_value': 100, 'out=val': 500, 'json_text': 30, 'scan_prefix': 1000, 'sweep_json': 30, 'sweep_pd': 30, 'sweep_npy': 30}
    low = {k: c.get(k, 0) for k, v in need.items() if c.get(k, 0) < v}
    if low:
        raise BrokenCheck(f'generator distribution collapsed: {low}')
