"""C05 — a result is visible only when complete (failure and crash atomicity).

(i)  protocol extraction: the file operations of one real request (audit hook) are mapped to primitives and path roles and
     compared with the protocol of the Lean model (TCV.FS.requestP / deleteP) started in the observed state of the location;
     outcome (value / exception, `_data` reset, run count) and resulting state are compared too;
(ii) crash replay: the requesting process is killed immediately before each of its file operations, and a torn prefix of every
     file being written is produced; the state left behind is compared with the model's crash state for that point, a later
     process reports has_data / value / run count / state, which is compared with the model's recovery from that state;
(iii) oracle on the real code, independent of the model: a later chain never finds data that is unreadable or wrong, a result
     that is not found is recomputed, a second request agrees, failed directory work is set aside, resumable work is kept."""
import os
from pathlib import Path

from tcv.core import BrokenCheck, REPO, VERIF

RULE = ('for each data class (JSONData, NumpyData, PandasData, GeneratedData, GeneratedDataLazy, ListOfNumpyData, DirData, '
        'ContinuesData finished/unfinished) x mode (first computation, forced recomputation over a result, reuse of a result, '
        'force(delete_data)) x raise point (none, run, run after partial output, generator body, type check, serializer) x value '
        'size: one traced request (protocol extraction), then one killed process per recorded file operation (os._exit inside '
        'the audit hook immediately before the operation; operations inside rmtree and every file written into a work directory '
        'are crash points of their own) and torn prefixes of the file being written; after every crash and every failure a later '
        'process reports has_data, value, run count and the state of all path roles, then requests again on a new chain; '
        'plus fault sequences: every ordered pair of raise points of a class, one failing request after the other (new chain each), '
        'then recovery. '
        'Compared with the Lean model: operation trace, state at the crash point, recovery outcome and state. '
        'distinct = distinct (class, mode, raise point, size, crash point, torn fraction); non-trivial = a crash or failure case')
ASSUMPTIONS = ['os.rename / shutil.move within one directory are atomic; a killed process leaves a prefix of the bytes of the file it was '
               'writing (simulated by truncation after the kill) and completely written earlier files; fsync/durability out of scope',
               'steps run in forked children of a worker that has imported taskchain but built no chain; a sample is re-run in freshly '
               'started interpreters and must give identical reports',
               'what bytes a torn .npy / pickle / json file contains and how its reader fails is library behaviour: sampled, not modelled '
               '(the model only has `torn`); FigureData (same protocol as the other file classes plus .png/.svg side files) is not exercised']
TRUSTED = ['modelled, not verified: sys.addaudithook reports every file-system call of CPython, numpy, pandas and orjson before it happens']

FAULTS = {
    'json': ['run', 'typeCheck', 'serialise', 'serialisePy'],      # serialisePy: a value with a set and a path inside (no JSON form)
    'numpy': ['run', 'typeCheck', 'serialise'],
    'pandas': ['run', 'typeCheck', 'serialise'],
    'generated': ['run', 'genBody', 'typeCheck', 'serialise'],
    'generatedLazy': ['run', 'genBody', 'typeCheck', 'serialise'],
    'listNumpy': ['run', 'typeCheck', 'serialise'],
    'dirData': ['run', 'runMid', 'typeCheck'],
    'continues': ['run', 'runMid', 'typeCheck'],
}
# the model's name of a serializer failure: orjson raises before anything is written, the others in the middle of the file
MODEL_FAULT = {('json', 'serialise'): 'serialise', ('json', 'serialisePy'): 'serialise', ('numpy', 'serialise'): 'serialiseWrote', ('pandas', 'serialise'): 'serialiseWrote',
               ('generated', 'serialise'): 'serialiseWrote', ('generatedLazy', 'serialise'): 'serialiseWrote',
               ('listNumpy', 'serialise'): 'serialiseWrote'}
DIRK = ('listNumpy', 'dirData', 'continues')


def size_of(kind, label):
    if label == 'small':
        return 3
    if label == 'medium':
        return 12
    return 40 if kind in DIRK else 3000


# ------------------------------------------------------------------------------------------- events -> primitives

def role_names(kind, key):
    from tcv.dtasks import EXT
    ext = EXT.get(kind)
    dot = f'.{ext}' if ext else ''
    return {f'{key}{dot}': 'final', f'{key}_tmp{dot}': 'tmp', f'{key}_old': 'old', f'{key}_error': 'error', f'{key}.log': 'log',
            f'{key}.run_info.yaml': 'runinfo'}


def locate(path, slug, names):
    """-> ('base', None) | ('role', r) | ('in', r) | ('other', text)"""
    parts = [p for p in path.split('/') if p]
    if parts == [] or parts == [slug]:
        return 'base', None
    if parts[0] != slug:
        return 'other', path
    if len(parts) == 2:
        return ('role', names[parts[1]]) if parts[1] in names else ('other', parts[1])
    if parts[1] in names:
        return 'in', names[parts[1]]
    return 'other', path


def map_events(events, kind, slug, key):
    """raw audit events -> list of [primitive text, [raw indices]] ; leading base-directory mkdirs are attached to the next primitive"""
    names = role_names(kind, key)
    prims, pending = [], []
    i, n = 0, len(events)

    def add(text, idx):
        prims.append([text, pending + idx]); pending.clear()
    while i < n:
        ev = events[i]
        name, args = ev[0], ev[1:]
        if name == 'os.mkdir':
            w, r = locate(args[0], slug, names)
            if w == 'base':
                pending.append(i)
            elif w == 'role':
                add(f'mkdir:{r}', [i])
            else:
                add(f'mkdir:?{args[0]}', [i])
        elif name == 'open':
            w, r = locate(args[0], slug, names)
            if w == 'role':
                add(f'openTrunc:{r}', [i])
            elif w == 'in':
                if prims and prims[-1][0] == f'write:{r}' and not pending:
                    prims[-1][1].append(i)
                else:
                    add(f'write:{r}', [i])
            else:
                add(f'open:?{args[0]}', [i])
        elif name == 'shutil.move':
            a, b = locate(args[0], slug, names), locate(args[1], slug, names)
            idx = [i]
            if i + 1 < n and events[i + 1][0] == 'os.rename' and events[i + 1][1:3] == args[:2]:
                idx.append(i + 1); i += 1
            add(f'move:{a[1] if a[0] == "role" else "?" + args[0]}>{b[1] if b[0] == "role" else "?" + args[1]}', idx)
        elif name == 'os.rename':
            a, b = locate(args[0], slug, names), locate(args[1], slug, names)
            add(f'rename:{a[1] if a[0] == "role" else "?" + args[0]}>{b[1] if b[0] == "role" else "?" + args[1]}', [i])
        elif name == 'shutil.rmtree':
            w, r = locate(args[0], slug, names)
            idx = [i]
            j = i + 1
            while j < n and events[j][0] in ('os.remove', 'os.rmdir'):
                idx.append(j)
                if events[j][0] == 'os.rmdir' and events[j][1] == args[0]:
                    j += 1
                    break
                j += 1
            i = j - 1
            add(f'rmtree:{r}' if w == 'role' else f'rmtree:?{args[0]}', idx)
        elif name in ('os.remove',):
            w, r = locate(args[0], slug, names)
            add(f'unlink:{r}' if w == 'role' else f'unlink:?{args[0]}', [i])
        else:
            add(f'{name}:?{args}', [i])
        i += 1
    return prims, list(pending)


def model_visible(kind, points):
    """model points -> [(visible primitive text, model point index)]; writes into files are invisible to the audit hook"""
    out = []
    filerole = (lambda r: r in ('log', 'runinfo') or kind not in DIRK)
    for i, p in enumerate(points):
        name, arg = p['prim'].split(':', 1)
        if name in ('writeAll', 'writePart'):
            if filerole(arg):
                continue
            out.append((f'write:{arg}', i))
        else:
            out.append((p['prim'], i))
    return out


# ------------------------------------------------------------------------------------------- states

ROLES = ['final', 'tmp', 'old', 'error', 'log', 'runinfo']


def canon(st):
    """comparable form of a state (model or observed): logs are present/absent; garbage outside the final name is garbage"""
    out = {}
    for r in ROLES:
        v = st.get(r, 'absent')
        if r in ('log', 'runinfo'):
            v = 'absent' if v == 'absent' else 'present'
        elif r != 'final' and v in ('file:torn', 'file:empty'):
            v = 'file:garbage'
        out[r] = v
    return out


def to_model_state(obs):
    out = {}
    for r in ROLES:
        v = obs.get(r, 'absent')
        if v == 'present':
            v = 'file:empty'
        out[r] = v
    return out


def model_req(kind, v, fault, forced, init, finish=True):
    return {'m': 'fs', 'op': 'request', 'kind': kind, 'v': v, 'fin': bool(finish), 'fault': MODEL_FAULT.get((kind, fault), fault or 'none'),
            'forced': bool(forced), 'init': init}


# ------------------------------------------------------------------------------------------- scenarios

def scenarios(ctx):
    """(kind, mode, fault, size label, finish)"""
    from tcv.dtasks import KINDS
    out = []
    sizes = ['small', 'medium', 'large'] if ctx.thorough else ['small']
    for kind in KINDS:
        for size in sizes:
            for mode in ('first', 'forced', 'reuse', 'delete'):
                fins = [True, False] if kind == 'continues' and mode in ('first', 'forced') else [True]
                for fin in fins:
                    out.append((kind, mode, None, size, fin))
                    if mode in ('first', 'forced') and (size == 'small' or ctx.thorough and size == 'medium'):
                        for f in FAULTS[kind]:
                            out.append((kind, mode, f, size, fin))
    if not ctx.thorough:
        out.append(('listNumpy', 'forced', None, 'medium', True))     # >= 11 arrays
        out.append(('json', 'forced', None, 'large', True))          # longer than one write buffer
    return out


def setup_steps(kind, root, mode, size):
    from tcv.dtasks import CTL  # noqa
    if mode in ('forced', 'reuse', 'delete'):
        return [{'do': 'request', 'kind': kind, 'root': root, 'ctl': {'gen': 1, 'size': size, 'fault': None, 'finish': True}}]
    return []


def request_step(kind, root, mode, fault, size, fin, crash_at=None, fresh=False):
    st = {'do': 'request', 'kind': kind, 'root': root, 'ctl': {'gen': 2, 'size': size, 'fault': fault, 'finish': fin},
          'forced': mode == 'forced', 'crash_at': crash_at}
    if mode == 'delete':
        st['delete'] = True
    if fresh:
        st['fresh'] = True
    return st


def tail_steps(kind, root, size, fresh=False, g=3):
    a = {'do': 'snapshot', 'kind': kind, 'root': root, 'size': size}
    b = {'do': 'observe', 'kind': kind, 'root': root, 'ctl': {'gen': g, 'size': size, 'fault': None, 'finish': True}}
    if fresh:
        a['fresh'] = True; b['fresh'] = True
    return [a, b]


def check_step_errors(results, what):
    for r in results:
        if isinstance(r, dict) and 'error' in r:
            raise BrokenCheck(f'{what}: {r["error"]}')


# ------------------------------------------------------------------------------------------- comparison helpers

def expect_recovery(ctx, case, obs_state, observe, kind, size, g=3):
    """model recovery from the observed state vs what the later process reported; then the oracle on the real code"""
    init = to_model_state(obs_state)
    hd = yield {'m': 'fs', 'op': 'hasdata', 'kind': kind, 'init': init}
    if hd.get('oserror'):
        ctx.diverge('recovery:has_data', case, observe.get('has_data'), 'model: file-system error')
        return
    if observe.get('has_data') != hd['has']:
        ctx.diverge('recovery:has_data', case, observe.get('has_data'), hd['has'])
    mr = yield model_req(kind, g, None, False, hd['state'])
    impl = {'ret': observe.get('value_gen') if observe.get('outcome') == 'ok' else None, 'ran': observe.get('runs', 0) > 0,
            'state': canon(observe.get('state_after', {}))}
    if mr.get('oserror') or mr.get('end') is None:
        ctx.diverge('recovery:request', case, impl, 'model: file-system error')
        return
    model = {'ret': mr['ret'], 'ran': mr['ran'], 'state': canon(mr['end'])}
    if impl != model:
        ctx.diverge('recovery:request', case, impl, model)
        return
    m3 = yield model_req(kind, g + 1, None, True, mr['end'])
    impl3 = {'ret': observe.get('value_gen3') if observe.get('outcome3') == 'ok' else None, 'state': canon(observe.get('state_after3', {}))}
    model3 = {'ret': m3.get('ret'), 'state': canon(m3['end']) if m3.get('end') else None}
    if impl3 != model3:
        ctx.diverge('recovery:forced-recomputation', case, impl3, model3)


def drive(ctx, coros):
    """run generator-style case checkers in lock step, batching their model queries"""
    pending = []
    for c in coros:
        try:
            pending.append((c, next(c)))
        except StopIteration:
            pass
    while pending:
        replies = ctx.model.many([r for _, r in pending])
        nxt = []
        for (c, _), rep in zip(pending, replies):
            try:
                nxt.append((c, c.send(rep)))
            except StopIteration:
                pass
        pending = nxt


def oracle(ctx, case, observe, existed, kind, fault=None, snap=None, fin=True, g=3, allowed=None):
    """model-independent: what the property text demands of a later chain"""
    allowed = allowed if allowed is not None else ({2} | ({1} if existed else set()))
    hd = observe.get('has_data')
    if hd not in (True, False):
        ctx.fail('has_data raises after a crash/failure', case, observe)
        return
    if hd:
        if observe.get('outcome') != 'ok':
            ctx.fail('a later chain finds a result (has_data) that cannot be read', case, observe)
        elif observe.get('value_gen') not in allowed:
            ctx.fail('a later chain finds a result (has_data) that is not a complete old or new value', case, observe)
    else:
        if observe.get('outcome') != 'ok' or observe.get('value_gen') != g or observe.get('runs') != 1:
            ctx.fail('no result visible, and requesting the value does not return the recomputed value', case, observe)
    if observe.get('outcome2') != 'ok' or (observe.get('outcome') == 'ok' and observe.get('value_gen2') != observe.get('value_gen')):
        ctx.fail('a second request does not recover the value', case, observe)
    if observe.get('outcome3') != 'ok' or observe.get('value_gen3') != g + 1:
        ctx.fail('a forced recomputation after the crash/failure does not yield the new value', case, observe)
    if fault and snap is not None:
        if kind == 'dirData' and not (snap['tmp'] == 'absent' and snap['error'].startswith('dir')):
            ctx.fail('work directory of a failed directory task is not set aside under <key>_error', case, snap)
        if kind == 'continues' and fault in ('run', 'runMid') and not snap['tmp'].startswith('dir'):
            ctx.fail('work directory of a failed resumable task is not kept', case, snap)
    if kind == 'continues' and not fin and fault is None and snap is not None and not snap['tmp'].startswith('dir'):
        ctx.fail('work directory of an unfinished resumable task is not kept', case, snap)


# ------------------------------------------------------------------------------------------- run

def run(ctx):
    from tcv.quiet import quiet
    quiet()
    import sys
    from tcv import fsx, dtasks
    root0 = ctx.tmpdir()
    ncpu = min(16, os.cpu_count() or 4)
    pool = fsx.Pool(ncpu, REPO / 'src', VERIF / 'harness')
    try:
        _run(ctx, pool, root0, dtasks)
    except RuntimeError as e:
        raise BrokenCheck(str(e))
    finally:
        pool.close()
    from tcv import postpublish
    postpublish.probe(ctx)


def _run(ctx, pool, root0, dtasks):
    scen = scenarios(ctx)
    # keys / slugs (no file-system effect)
    info = {}
    for kind in dtasks.KINDS:
        t = dtasks.make_task(kind, root0 / 'probe')
        info[kind] = (t.slugname, t.name_for_persistence)

    # ---------------- phase A: protocol extraction (uninterrupted requests) ----------------
    jobsA = []
    for si, (kind, mode, fault, sl, fin) in enumerate(scen):
        size = size_of(kind, sl)
        root = str(root0 / f'a{si}')
        jobsA.append(setup_steps(kind, root, mode, size) + [{'do': 'snapshot', 'kind': kind, 'root': root, 'size': size}]
                     + [request_step(kind, root, mode, fault, size, fin)] + tail_steps(kind, root, size))
    for job in jobsA:
        Path(job[-1]['root']).mkdir(parents=True, exist_ok=True)
    import time as _t
    t0 = _t.time()
    resA = pool.map(jobsA)
    ctx.notes['phaseA_s'] = round(_t.time() - t0, 1)
    traces = {}

    def procA(si, kind, mode, fault, sl, fin, res):
        check_step_errors(res, f'phase A {scen[si]}')
        size = size_of(kind, sl)
        snap0, req, snap1, obs = res[-4], res[-3], res[-2], res[-1]
        slug, key = info[kind]
        case = {'phase': 'protocol', 'class': kind, 'mode': mode, 'raise_at': fault, 'size': sl, 'finished': fin}
        ctx.case(case, nontrivial=fault is not None)
        ctx.count(f'protocol:{kind}'); ctx.count(f'mode:{mode}'); ctx.count(f'raise:{fault or "none"}')
        if snap0['extra'] or snap1['extra']:
            ctx.diverge('protocol:unexpected-files', case, snap1['extra'], [])
        prims, trailing = map_events(req['events'], kind, slug, key)
        init = to_model_state(snap0['state'])
        if mode == 'delete':
            hd = yield {'m': 'fs', 'op': 'hasdata', 'kind': kind, 'init': init}
            md = yield {'m': 'fs', 'op': 'delete', 'kind': kind, 'init': hd['state']}
            mpoints = [{'prim': p, 'before': hd['state'], 'half': []} for p in hd['trace']]
            # has_data's init primitives: states before them are recomputed by the model per primitive via a request-less replay
            mh = yield {'m': 'fs', 'op': 'request', 'kind': kind, 'v': 0, 'fin': True, 'fault': 'none', 'forced': False, 'init': init}
            ninit = len(hd['trace'])
            mpoints = mh['points'][:ninit] + md['points']
            mend = md['end']
            mout = {'outcome': 'deleted'}
        else:
            mr = yield model_req(kind, 2, fault, mode == 'forced', init, fin)
            mpoints, mend = mr['points'], mr['end']
            if mr.get('oserror'):
                mout = {'outcome': 'oserror'}
            elif mr['ret'] is None:
                mout = {'outcome': 'raise', 'runs': 1}
            else:
                mout = {'outcome': 'ok', 'value_gen': mr['ret'], 'runs': 1 if mr['ran'] else 0}
        vis = model_visible(kind, mpoints)
        impl_trace = [p[0] for p in prims]
        if impl_trace != [v[0] for v in vis]:
            ctx.diverge('protocol:trace', case, impl_trace, [v[0] for v in vis])
            traces[si] = (prims, None, mpoints, req['events'], trailing, None)    # crash replay still runs, with the oracle only
            if mode != 'delete':
                oracle(ctx, case, obs, mode in ('forced', 'reuse'), kind, fault=fault, snap=snap1['state'], fin=fin)
            return
        iout = {'outcome': req['outcome']}
        if req['outcome'] == 'ok':
            iout.update(value_gen=req['value_gen'], runs=req['runs'])
        elif req['outcome'] == 'raise':
            iout['runs'] = req['runs']
            if not req.get('data_reset'):
                ctx.fail('after an exception the task keeps its data object (`_data` not reset)', case, req)
            if fault is None:
                ctx.fail('a request without injected fault raised', case, req)
        if iout != mout:
            ctx.diverge('protocol:outcome', case, iout, mout)
        if mend is None or canon(snap1['state']) != canon(mend):
            ctx.diverge('protocol:end-state', case, canon(snap1['state']), None if mend is None else canon(mend))
        # later process
        existed = mode in ('forced', 'reuse')
        if mode != 'delete':
            yield from expect_recovery(ctx, case, snap1['state'], obs, kind, size)
            oracle(ctx, case, obs, existed, kind, fault=fault, snap=snap1['state'], fin=fin)
            if mode == 'reuse' and not (req['outcome'] == 'ok' and req['value_gen'] == 1 and req['runs'] == 0):
                ctx.fail('a stored complete result is not reused', case, req)
            if mode in ('first', 'forced') and fault is None and fin and not (req['outcome'] == 'ok' and req['value_gen'] == 2):
                ctx.fail('the computing chain does not return the computed value', case, req)
        else:
            yield from expect_recovery(ctx, case, snap1['state'], obs, kind, size)
            if obs.get('has_data') is not False or obs.get('value_gen') != 3:
                ctx.fail('force(delete_data=True) did not remove the result', case, obs)
        traces[si] = (prims, vis, mpoints, req['events'], trailing, mend)

    drive(ctx, [procA(si, *sc, res) for si, (sc, res) in enumerate(zip(scen, resA))])

    # ---------------- phase S: fault sequences (a failed attempt followed by another failed attempt, then recovery) ----------------
    seqs = []
    rngS = ctx.rng('fault-sequences')
    for kind in dtasks.KINDS:
        pairs = [(a, b_) for a in FAULTS[kind] for b_ in FAULTS[kind]]
        if not ctx.thorough and kind not in ('dirData', 'continues'):
            pairs = rngS.sample(pairs, 2)
        for f1, f2 in pairs:
            for mode in (('first', 'forced') if ctx.thorough or kind in ('dirData', 'continues') else (rngS.choice(['first', 'forced']),)):
                seqs.append((kind, mode, f1, f2, False))
        # the first (failing) attempt works on a LARGER value than the later ones: what it leaves behind must not leak into them
        # (only raise points after which nothing complete of the larger size exists: a directory task failing at the type check has
        #  finished its directory, which the size-specific classification of the later steps would not recognise)
        #  a resumable task continues in the kept work directory by design: what an earlier attempt left there is its own business)
        for f1 in [f_ for f_ in FAULTS[kind] if not (kind == 'dirData' and f_ == 'typeCheck') and kind != 'continues']:
            seqs.append((kind, rngS.choice(['first', 'forced']), f1, rngS.choice(FAULTS[kind]), True))
    jobsS = []
    for qi, (kind, mode, f1, f2, big_first) in enumerate(seqs):
        size = size_of(kind, 'small')
        root = str(root0 / f's{qi}')
        Path(root).mkdir(parents=True, exist_ok=True)
        r1 = request_step(kind, root, mode, f1, size_of(kind, 'medium') if big_first else size, True)
        r2 = request_step(kind, root, mode, f2, size, True); r2['ctl'] = dict(r2['ctl'], gen=3)
        snap = {'do': 'snapshot', 'kind': kind, 'root': root, 'size': size}
        jobsS.append(setup_steps(kind, root, mode, size) + [snap, r1, snap, r2] + tail_steps(kind, root, size, g=4))
    resS = pool.map(jobsS)

    def procS(qi, kind, mode, f1, f2, big_first, res):
        check_step_errors(res, f'phase S {seqs[qi]}')
        size = size_of(kind, 'small')
        snap0, req1, snap1, req2, snap2, obs = res[-6:]
        case = {'phase': 'fault-sequence', 'class': kind, 'mode': mode, 'raise_at': [f1, f2], 'first_attempt_larger': big_first}
        ctx.case(case, nontrivial=True); ctx.count(f'sequence:{kind}')
        existed = mode == 'forced'
        # oracle first (model-independent)
        for k_, req in ((1, req1), (2, req2)):
            if req['outcome'] == 'raise' and not req.get('data_reset'):
                ctx.fail('after an exception the task keeps its data object (`_data` not reset)', dict(case, attempt=k_), req)
        # (a resumable task that fails only at the type check has already published a complete result: generations 2 / 3 may be visible)
        ran2 = req2.get('runs', 0) >= 1
        oracle(ctx, case, obs, existed, kind, fault=f2 if ran2 else None, snap=snap2['state'], g=4, allowed={2, 3} | ({1} if existed else set()))
        # model: the same two failing requests, chained
        st = to_model_state(snap0['state'])
        for k_, (f, snapk) in enumerate(((f1, snap1), (f2, snap2))):
            mr = yield model_req(kind, 2 + k_, f, mode == 'forced', st, True)
            if mr.get('end') is None or canon(snapk['state']) != canon(mr['end']):
                ctx.diverge('sequence:state-after-failure', dict(case, attempt=k_ + 1), canon(snapk['state']), None if mr.get('end') is None else canon(mr['end']))
                return
            st = mr['end']
        yield from expect_recovery(ctx, case, snap2['state'], obs, kind, size, g=4)

    drive(ctx, [procS(qi, *sq, res) for qi, (sq, res) in enumerate(zip(seqs, resS))])

    # ---------------- phase B: crash replay ----------------
    jobsB, metaB = [], []
    for si, (kind, mode, fault, sl, fin) in enumerate(scen):
        if si not in traces:
            continue
        prims, vis, mpoints, events, trailing, mend = traces[si]
        size = size_of(kind, sl)
        n = len(events)
        if not ctx.thorough and fault is not None and not (kind in ('dirData', 'continues', 'generatedLazy', 'listNumpy') or mode == 'forced'):
            pass
        ks = list(range(n))
        if sl == 'large' and kind in DIRK:
            ks = [k for k in ks if k % 5 == 0 or k > n - 12]
        for k in ks:
            root = str(root0 / f'b{si}_{k}')
            jobsB.append(setup_steps(kind, root, mode, size) + [request_step(kind, root, mode, fault, size, fin, crash_at=k)]
                         + tail_steps(kind, root, size))
            metaB.append((si, k, None))
        # torn prefixes of every file written: kill before the next operation, then cut the file
        fracs = [0.0, 0.5] if not ctx.thorough else ([0.0] + [i / 64 for i in range(1, 64, 3 if sl != 'small' else 1)])
        for pi, (text, idx) in enumerate(prims):
            if pi + 1 >= len(prims):
                continue
            nxt = prims[pi + 1][1]
            kname, arg = text.split(':', 1)
            if kname in ('openTrunc', 'open') and not arg.startswith(('log', 'runinfo')):
                target = arg
            elif kname == 'write':
                target = 'in:' + arg
            else:
                continue
            for fr in fracs:
                root = str(root0 / f't{si}_{pi}_{int(fr * 1000)}')
                slug, key = info[kind]
                if target.startswith('in:'):
                    last = events[idx[-1]][1]
                    path = str(Path(root) / last)
                else:
                    path = str(Path(root) / events[idx[-1]][1])
                jobsB.append(setup_steps(kind, root, mode, size)
                             + [request_step(kind, root, mode, fault, size, fin, crash_at=nxt[0]), {'do': 'truncate', 'path': path, 'frac': fr}]
                             + tail_steps(kind, root, size))
                metaB.append((si, nxt[0], (pi, fr)))
    for job in jobsB:
        Path(job[-1]['root']).mkdir(parents=True, exist_ok=True)
    t0 = _t.time()
    resB = pool.map(jobsB)
    ctx.notes['phaseB_s'] = round(_t.time() - t0, 1)
    def procB(si, k, torn, res):
        kind, mode, fault, sl, fin = scen[si]
        check_step_errors(res, f'phase B {scen[si]} k={k}')
        size = size_of(kind, sl)
        prims, vis, mpoints, events, trailing, mend = traces[si]
        creq = [r for r in res if isinstance(r, dict) and ('crashed' in r or 'outcome' in r and 'events' in r and 'has_data' not in r)]
        snap, obs = res[-2], res[-1]
        case = {'phase': 'crash', 'class': kind, 'mode': mode, 'raise_at': fault, 'size': sl, 'finished': fin, 'kill_before_event': k,
                'event': events[k] if k < len(events) else None, 'torn': None if torn is None else torn[1]}
        ctx.case(case, nontrivial=True)
        ctx.count(f'crash:{kind}'); ctx.count('crash:torn' if torn else 'crash:kill')
        if not res[len(setup_steps(kind, '', mode, size))].get('crashed'):
            # the run did not repeat the file operations of the observed run (an implementation that works partly outside the data
            # directory, or whose operations depend on the process): no crash point to compare — the oracle still judges what is left
            ctx.diverge('crash-injection:run-does-not-repeat-the-observed-operations', case, 'no crash at the chosen operation', 'crash')
            oracle(ctx, case, obs, mode in ('forced', 'reuse', 'delete'), kind)
            return
        if vis is None:          # protocol differs from the model's: no model state to compare with; the oracle decides
            oracle(ctx, case, obs, mode in ('forced', 'reuse', 'delete'), kind)
            return
        if k in trailing:        # base-directory mkdirs after the last primitive: nothing of the location changes any more
            if mend is not None and canon(snap['state']) != canon(mend):
                ctx.diverge('crash:state', case, canon(snap['state']), [canon(mend)])
            yield from expect_recovery(ctx, case, snap['state'], obs, kind, size)
            oracle(ctx, case, obs, mode in ('forced', 'reuse', 'delete'), kind)
            return
        # which primitive / position
        pi = next(i for i, (t, idx) in enumerate(prims) if k in idx)
        j = prims[pi][1].index(k)
        lead = sum(1 for x in prims[pi][1] if events[x][0] == 'os.mkdir' and x < prims[pi][1][-1] and
                   locate(events[x][1], info[kind][0], role_names(kind, info[kind][1]))[0] == 'base')
        j = max(0, j - lead)
        text = prims[pi][0]
        mp = mpoints[vis[pi][1]]
        expected = [canon(mp['before'])]
        if torn is not None:
            tpi, fr = torn
            tp = mpoints[vis[tpi][1] + (1 if prims[tpi][0].startswith('openTrunc') else 0)]
            if prims[tpi][0].startswith('openTrunc'):
                # the invisible writeAll/writePart that follows the open
                expected = [canon(tp['before'])] if fr == 0.0 else [canon(h) for h in tp['half']] or [canon(tp['before'])]
            else:
                expected = [canon(h) for h in tp['half']] or [canon(tp['before'])]
        elif text.startswith('rmtree') and j >= 2:
            expected = [canon(h) for h in mp['half']] or expected
        elif text.startswith('write:') and j >= 1:
            expected = [canon(h) for h in mp['half']] or expected
        got = canon(snap['state'])
        if got not in expected:
            ctx.diverge('crash:state', case, got, expected)
        if snap['extra']:
            ctx.diverge('crash:unexpected-files', case, snap['extra'], [])
        yield from expect_recovery(ctx, case, snap['state'], obs, kind, size)
        oracle(ctx, case, obs, mode in ('forced', 'reuse', 'delete'), kind)
        if mode == 'delete' and obs.get('has_data') is True and obs.get('value_gen') != 1:
            ctx.fail('a crash during delete leaves a damaged result visible', case, obs)

    drive(ctx, [procB(si, k, torn, res) for (si, k, torn), res in zip(metaB, resB)])

    # ---------------- phase D: histories with two crashes / failures in a row (arbitrary leftovers) ----------------
    nD = ctx.n(60, 1200)
    jobsD, metaD = [], []
    for di in range(nD):
        rng = ctx.rng('double', di)
        kind = rng.choice(dtasks.KINDS)
        sl = rng.choice(['small', 'small', 'medium'])
        size = size_of(kind, sl)
        mode = rng.choice(['first', 'forced'])
        root = str(root0 / f'd{di}')
        steps = setup_steps(kind, root, mode, size)
        hist = []
        for gi, gen in enumerate((2, 3)):
            fault = rng.choice([None, None] + FAULTS[kind])
            forced = (mode == 'forced') if gi == 0 else rng.random() < 0.5
            fin = rng.random() < 0.8
            k = rng.randrange(0, 14) if rng.random() < 0.8 else None
            steps.append({'do': 'request', 'kind': kind, 'root': root, 'ctl': {'gen': gen, 'size': size, 'fault': fault, 'finish': fin},
                          'forced': forced, 'crash_at': k})
            hist.append({'gen': gen, 'raise_at': fault, 'forced': forced, 'finished': fin, 'kill_before_event': k})
        steps += tail_steps(kind, root, size, g=5)
        jobsD.append(steps); metaD.append((kind, mode, sl, hist))
    for job in jobsD:
        Path(job[-1]['root']).mkdir(parents=True, exist_ok=True)
    resD = pool.map(jobsD)

    def procD(meta, res):
        kind, mode, sl, hist = meta
        check_step_errors(res, f'phase D {meta}')
        size = size_of(kind, sl)
        snap, obs = res[-2], res[-1]
        crashed = [bool(r.get('crashed')) for r in res[-4:-2]]
        case = {'phase': 'history', 'class': kind, 'mode': mode, 'size': sl, 'requests': hist, 'crashed': crashed}
        ctx.case(case, nontrivial=True)
        ctx.count('history'); ctx.count(f'history:crashes={sum(crashed)}')
        if snap['extra']:
            ctx.diverge('history:unexpected-files', case, snap['extra'], [])
        yield from expect_recovery(ctx, case, snap['state'], obs, kind, size, g=5)
        oracle(ctx, case, obs, True, kind, g=5, allowed={2, 3} | ({1} if mode == 'forced' else set()))

    drive(ctx, [procD(m, r) for m, r in zip(metaD, resD)])

    # ---------------- phase C: forked children vs freshly started interpreters ----------------
    rng = ctx.rng('fresh')
    pick = rng.sample(range(len(jobsB)), min(len(jobsB), 48, ctx.n(16, 48))) if jobsB else []
    jobsC = []
    for bi in pick:
        si, k, torn = metaB[bi]
        kind, mode, fault, sl, fin = scen[si]
        job = []
        for st in jobsB[bi]:
            st = dict(st)
            st['root'] = st.get('root', '').replace(str(root0), str(root0 / 'fresh')) if 'root' in st else None
            if st.get('root') is None:
                st.pop('root')
            if 'path' in st:
                st['path'] = st['path'].replace(str(root0), str(root0 / 'fresh'))
            if st['do'] != 'truncate':
                st['fresh'] = True
            job.append(st)
        jobsC.append(job)
    for job in jobsC:
        Path(job[-1]['root']).mkdir(parents=True, exist_ok=True)
    t0 = _t.time()
    resC = pool.map(jobsC)
    ctx.notes['phaseC_s'] = round(_t.time() - t0, 1)
    for bi, res in zip(pick, resC):
        check_step_errors(res, 'phase C')
        ctx.count('fresh-interpreter-replays')
        a, b = resB[bi], res
        strip = lambda r: {k: v for k, v in r.items() if k not in ('size',)} if isinstance(r, dict) else r
        if [strip(x) for x in a[-2:]] != [strip(x) for x in b[-2:]]:
            # (with recorded disagreements already in hand this is one more symptom of an implementation whose file operations depend on
            #  the process; on an implementation that agreed with the model so far it means the harness itself is not deterministic)
            if not (ctx.failures or ctx.divergences):
                raise BrokenCheck(f'forked child and fresh interpreter disagree on {metaB[bi]}: {a[-2:]} vs {b[-2:]}')
            ctx.diverge('crash-replay:forked-child-vs-fresh-interpreter', {'job': list(metaB[bi])}, str(a[-2:])[:300], str(b[-2:])[:300])
    ctx.notes['scenarios'] = len(scen)
    ctx.notes['crash_jobs'] = len(jobsB)
    memory_retry_probe(ctx)


def memory_retry_probe(ctx):
    """a result is visible only when complete — also for a task that keeps its result in memory: after a run that raised, the next request
    on the SAME task object runs it again; nothing of the failed attempt (an empty data object) is handed to its dependants"""
    from taskchain import Task, Config, InMemoryData
    root = ctx.tmpdir() / 'memretry'
    state = {'fail': True, 'runs': 0}

    class Mem(Task):
        class Meta:
            name = 'mem'
            data_class = InMemoryData

        def run(self) -> dict:
            state['runs'] += 1
            if state['fail']:
                raise RuntimeError('first attempt fails')
            return {'ok': state['runs']}

    class Down(Task):
        class Meta:
            name = 'down'
            input_tasks = [Mem]

        def run(self, mem) -> dict:
            return {'got': mem}
    for k in range(ctx.n(2, 6)):
        state.update(fail=True, runs=0)
        ch = Config(root / f'd{k}', name='c', data={'tasks': [Mem, Down]}).chain()
        case = {'probe': 'in-memory task whose first run raises', 'round': k}
        ctx.case(case); ctx.count('memory-retry-probe')
        try:
            _ = ch['down'].value if k % 2 else ch['mem'].value
        except RuntimeError:
            pass
        state['fail'] = False
        try:
            got = ch['down'].value
        except Exception as e:      # noqa
            ctx.fail('a request after a failed run of an in-memory task fails although the task now succeeds', case, f'{type(e).__name__}: {e}'[:160]); continue
        if got != {'got': {'ok': 2}}:
            ctx.fail('a dependant was handed something else than the result of a complete run of its in-memory input', case, {'value': repr(got)[:200], 'runs': state['runs']})


def search(ctx, divergences):
    run(ctx)


def sanity(ctx):
    c = ctx.counts
    from tcv.dtasks import KINDS
    missing = [k for k in KINDS if not c.get(f'crash:{k}') or not c.get(f'protocol:{k}')]
    if missing or c.get('crash:torn', 0) < 10 or c.get('fresh-interpreter-replays', 0) < 8 or c.get('raise:none', 0) < 8:
        raise BrokenCheck(f'distribution collapsed: missing={missing} {c}')
