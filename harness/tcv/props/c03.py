"""C03 — different computations get different storage locations.

Pairs of parameter assignments that differ (JSON-like values at any nesting depth, adversarial splicing of the separators and
quotes used by the key text, look-alikes such as '1' / 1 / 1.0 / True) are placed in the first task of a 7-task pipeline; the
locations of the task itself and of every task downstream (distance 1..5, and across a branch) must differ.  Wirings that
differ (optional input present/absent, input provided by another class) must move the location too."""
import copy

from tcv import findings, gen, pipeline as pl
from tcv.quiet import quiet

RULE = ('seeded pairs of (pa, pb) assignments with different canonical JSON identity — random nested values, one-leaf mutations, '
        'look-alike atoms, adversarial splices of quotes and of the separators `, ` `###` `$$$` `=` — on a fixed 8-class pipeline '
        '(chain of depth 6, a branch, an optional input), plus values that print like the default of a parameter whose default is left out of the key, '
        'plus a task with two inputs of the same task name from different namespaces whose computations are swapped; compared: locations of all tasks implementation vs model (literal keys) '
        'and the oracle "different descriptor => different data_path at every distance downstream"; '
        'distinct = distinct pairs; non-trivial = both values non-empty containers or strings')
ASSUMPTIONS = ['sha256[:32] has no collisions on the key texts that occur (hypothesis hH of keyOf_eq_imp_text_eq)',
               'parameter objects are outside this check (their repr is user code); Python repr of int/float is injective']
TRUSTED = ['modelled, not verified: Python repr of atoms, str quoting in repr_from_instantiation, sorted() on dict items']

CLASSES = {
    'K0': {'name': 'src', 'group': 'g', 'params': [{'name': 'pa'}, {'name': 'pb', 'default': None}], 'inputs': [], 'kind': 'json', 'run_args': ['pa', 'pb']},
    'K1': {'name': 't1', 'group': '', 'params': [], 'inputs': [{'by': 'class', 'ref': 'K0'}], 'kind': 'json', 'run_args': ['src']},
    'K2': {'name': 't2', 'group': 'g:h', 'params': [], 'inputs': [{'by': 'class', 'ref': 'K1'}], 'kind': 'json', 'run_args': ['t1']},
    # an in-memory task in the middle of the chain: it has no location of its own but its key must carry the difference on
    'K3': {'name': 't3', 'group': '', 'params': [], 'inputs': [{'by': 'name', 'ref': 'g:h:t2'}], 'kind': 'memory', 'run_args': []},
    'K4': {'name': 't4', 'group': '', 'params': [], 'inputs': [{'by': 'class', 'ref': 'K3'}], 'kind': 'json', 'run_args': []},
    'K5': {'name': 't5', 'group': '', 'params': [{'name': 'pc', 'default': 0, 'nic': 'pc_cfg'}], 'inputs': [{'by': 'class', 'ref': 'K4'}], 'kind': 'json', 'run_args': []},
    'K6': {'name': 'br', 'group': '', 'params': [], 'inputs': [{'by': 'class', 'ref': 'K2'}, {'by': 'name', 'ref': 'opt', 'default': None}], 'kind': 'json', 'run_args': []},
    'K7': {'name': 'opt', 'group': '', 'params': [{'name': 'po', 'default': 1}], 'inputs': [], 'kind': 'json', 'run_args': []},
    # parameters whose default is left out of the key (dont_persist_default_value): a value that merely LOOKS like the default
    # (same text, other type) is another computation
    'K8': {'name': 'dflt', 'group': '', 'params': [{'name': 'pd', 'default': 5, 'dpd': True}, {'name': 'pe', 'default': None, 'dpd': True},
                                                   {'name': 'pf', 'default': [1, 2], 'dpd': True}, {'name': 'pg', 'default': '7', 'dpd': True},
                                                   {'name': 'ph', 'default': {'a': 1}, 'dpd': True}],
           'inputs': [{'by': 'class', 'ref': 'K0'}], 'kind': 'json', 'run_args': ['pd', 'pe', 'pf', 'pg', 'ph']},
    'K9': {'name': 'dcons', 'group': '', 'params': [], 'inputs': [{'by': 'class', 'ref': 'K8'}], 'kind': 'json', 'run_args': ['dflt']},
    # two inputs with the same task name from different namespaces
    'K10': {'name': 'join', 'group': '', 'params': [], 'inputs': [{'by': 'name', 'ref': 'a::g:src'}, {'by': 'name', 'ref': 'b::g:src'}],
            'kind': 'json', 'run_args': []},
    'K11': {'name': 'jcons', 'group': '', 'params': [], 'inputs': [{'by': 'class', 'ref': 'K10'}], 'kind': 'json', 'run_args': []},
}
CHAIN = ['K0', 'K1', 'K2', 'K3', 'K4', 'K5', 'K6']
LOOKALIKES = {'pd': ['5', [5], '5 ', {'5': 5}], 'pe': ['None', 'null', False, '', 0, []], 'pf': ['[1, 2]', [1, '2'], [[1, 2]], [1, 2, None]],
              'pg': [7, '7 ', ['7'], "'7'"], 'ph': ["{'a': 1}", {'a': '1'}, [['a', 1]], {'a': 1, 'b': None}]}


def mutate(rng, v, depth=0):
    """a value that differs from v in exactly one place (or in type only)"""
    r = rng.random()
    if isinstance(v, list) and v and r < 0.7:
        i = rng.randrange(len(v)); w = list(v); w[i] = mutate(rng, v[i], depth + 1); return w
    if isinstance(v, dict) and v and r < 0.7:
        k = rng.choice(list(v)); w = dict(v); w[k] = mutate(rng, v[k], depth + 1); return w
    if isinstance(v, list):
        return v + [gen.gen_value(rng, 3)] if r < 0.85 else {'k': v}
    if isinstance(v, dict):
        w = dict(v); w[gen.gen_str(rng, gen.SAFE, 3) + 'k'] = None; return w
    if isinstance(v, str):
        return rng.choice([v + ' ', v + 'x', ' ' + v, v.upper() if v.upper() != v else v + '_', [v], v + '\\', v + "'"])
    if isinstance(v, bool):
        return rng.choice([int(v), str(v), not v])
    if isinstance(v, int):
        return rng.choice([float(v) if abs(v) < 2 ** 53 else v + 1, str(v), v + 1, [v]])
    if isinstance(v, float):
        return rng.choice([str(v), v + 1.0, [v], repr(v)])
    return rng.choice(['None', 0, False, [], [None], ''])


def splice_pair(rng):
    """adversarial: one assignment spelt so that its text could equal the other's"""
    a, b = gen.gen_str(rng, gen.SAFE, 4) or 'a', gen.gen_str(rng, gen.SAFE, 4) or 'b'
    k = rng.randrange(8)
    if k == 0:
        return ({'pa': [a, b]}, {'pa': [a + "', '" + b]})
    if k == 1:
        return ({'pa': a, 'pb': b}, {'pa': a + "'###pb='" + b})
    if k == 2:
        return ({'pa': {a: 1, b: 2}}, {'pa': {a + "': 1, '" + b: 2}})
    if k == 3:
        return ({'pa': [a, [b]]}, {'pa': [a, '[' + b + ']']})
    if k == 4:
        return ({'pa': a + '$$$src=x'}, {'pa': a})
    if k == 5:
        return ({'pa': [1, 2]}, {'pa': '[1, 2]'})
    if k == 6:
        return ({'pa': {a: None}}, {'pa': "{'" + a + "': None}"})
    return ({'pa': a + '###pb=1'}, {'pa': a, 'pb': 1})


def float_pair(rng):
    """two floats that are different numbers but close: neighbours, or differing far behind the decimal point"""
    import math
    x = rng.choice([0.1, 1 / 3, 1e-11, 2e-12, 123456.789, 1e16, 5e-324, 0.30000000000000004, rng.random(), rng.random() * 1e-9, rng.uniform(-1e6, 1e6)])
    y = rng.choice([math.nextafter(x, math.inf), x * (1 + 2 ** -40), x + 1e-11, x * (1 - 1e-12), x + abs(x) * 1e-7 + 1e-300])
    if y == x:
        y = math.nextafter(x, -math.inf)
    wrap = rng.choice([lambda v: v, lambda v: [1, v], lambda v: {'k': [v]}, lambda v: [{'a': {'b': v}}]])
    return {'pa': wrap(x)}, {'pa': wrap(y)}


def gen_pair(rng):
    r = rng.random()
    if r < 0.06:
        A, B = float_pair(rng)
        return A, B, 'floats'
    if r < 0.3:
        A, B = splice_pair(rng)
        return A, B, 'splice'
    alph = None if rng.random() < 0.4 else gen.SAFE
    v = gen.gen_value(rng, 0, 5, alph, gen.SAFE if rng.random() < 0.7 else None)
    if r < 0.75:
        w = mutate(rng, copy.deepcopy(v))
        which = rng.choice(['pa', 'pb'])
        other = gen.gen_value(rng, 2, 4, gen.SAFE, gen.SAFE)
        A = {which: v, ('pb' if which == 'pa' else 'pa'): other}
        B = {which: w, ('pb' if which == 'pa' else 'pa'): other}
        return A, B, 'mutation'
    w = gen.gen_value(rng, 0, 5, alph)
    return {'pa': v}, {'pa': w}, 'random'


def in_k1_class(*assignments):
    return not all(gen.quote_free(a) for a in assignments)


def locations(mod, data, name, assignment, tasks=CHAIN, extra=None):
    from taskchain import Config
    d = {'tasks': [getattr(mod, pl.pyname(c)) for c in tasks]}
    d.update(copy.deepcopy(assignment))
    if extra:
        d.update(extra)
    chain = Config(data, name=name, data=d).chain()
    return chain


def model_tasks(chain, order):
    desc = {d['fullname']: d for d in pl.describe(chain, chain_base(chain))}
    names = list(desc)
    idx = {n: i for i, n in enumerate(names)}
    ts = []
    for n in names:
        d = desc[n]
        ts.append({'params': d['params'], 'ns': d['ns'], 'inputs': [[iname, idx[x['task']]] for iname, x in d['inputs'] if 'task' in x]})
    return names, ts, desc


def chain_base(chain):
    return next(iter(chain.tasks.values())).get_config().base_dir


def topo(chain):
    """task names in dependency order"""
    out, seen = [], set()

    def visit(t):
        if t.fullname in seen:
            return
        seen.add(t.fullname)
        for it in t.input_tasks.values():
            if hasattr(it, 'fullname'):
                visit(it)
        out.append(t.fullname)
    for t in chain.tasks.values():
        visit(t)
    return out


def model_keys(ctx, chains):
    reqs, metas = [], []
    for chain in chains:
        order = topo(chain)
        base = chain_base(chain)
        idx = {n: i for i, n in enumerate(order)}
        ts = []
        for n in order:
            t = chain.tasks[n]
            d = pl.describe_task(n, t, base)
            ts.append({'params': pl.model_params(t), 'ns': d['ns'],
                       'inputs': [[iname, idx[x['task']]] for iname, x in d['inputs'] if 'task' in x]})
        reqs.append({'m': 'key', 'op': 'chain_keys', 'tasks': ts, 'np': sorted(pl.nonprintable(ts))})
        metas.append(order)
    outs = ctx.model.many(reqs)
    return [dict(zip(order, o['keys'])) for order, o in zip(metas, outs)], outs


def run(ctx):
    quiet()
    root = ctx.tmpdir()
    spec = {'classes': CLASSES, 'files': {}, 'main': None}
    b = pl.materialize(spec, root / 'mod', modname=gen.fresh_modname())
    mod = b.module()
    data = root / 'data'
    n = ctx.n(700, 12000)
    pairs, chains = [], []
    for i in range(n):
        rng = ctx.rng('pair', i)
        A, B, how = gen_pair(rng)
        try:
            ca = locations(mod, data, 'ca', A); cb = locations(mod, data, 'cb', B)
            pl.model_params(ca.tasks['g:src']); pl.model_params(cb.tasks['g:src'])
        except (TypeError, ValueError) as e:
            ctx.count('outside-domain'); continue
        pairs.append((A, B, how)); chains.extend([ca, cb])
    # wiring pairs: optional input present / absent, and a parameter of the optional input's provider
    for i in range(ctx.n(40, 400)):
        rng = ctx.rng('wire', i)
        A = {'pa': gen.gen_value(rng, 1, 3, gen.SAFE, gen.SAFE)}
        k = rng.randrange(3)
        try:
            if k == 0:
                ca = locations(mod, data, 'ca', A); cb = locations(mod, data, 'cb', A, tasks=CHAIN + ['K7'])
            elif k == 1:
                ca = locations(mod, data, 'ca', A, tasks=CHAIN + ['K7']); cb = locations(mod, data, 'cb', A, tasks=CHAIN + ['K7'], extra={'po': 2})
            else:
                ca = locations(mod, data, 'ca', A); cb = locations(mod, data, 'cb', A, extra={'pc_cfg': rng.choice([1, '0', [0], None])})      # a parameter configured under another name (name_in_config)
        except (TypeError, ValueError):
            continue
        pairs.append((A, {'wiring': k}, 'wiring')); chains.extend([ca, cb])
    # a value that prints like the default of a parameter whose default is left out of the key
    for i in range(ctx.n(60, 600)):
        rng = ctx.rng('lookalike', i)
        A = {'pa': gen.gen_value(rng, 0, 2, gen.SAFE, gen.SAFE)}
        pn = rng.choice(sorted(LOOKALIKES))
        B = {**A, pn: rng.choice(LOOKALIKES[pn])}
        if rng.random() < 0.3:
            q = rng.choice([x for x in sorted(LOOKALIKES) if x != pn])
            v = rng.choice(LOOKALIKES[q]); A[q] = v; B[q] = v
        ca = locations(mod, data, 'ca', A, tasks=CHAIN + ['K8', 'K9']); cb = locations(mod, data, 'cb', B, tasks=CHAIN + ['K8', 'K9'])
        pairs.append((A, B, 'lookalike')); chains.extend([ca, cb])
    # two inputs of the same task name from different namespaces, with the computations behind them swapped
    import json as _json
    from taskchain import Config
    for i in range(ctx.n(30, 300)):
        rng = ctx.rng('swap', i)
        x = gen.gen_value(rng, 0, 2, gen.SAFE, gen.SAFE); y = mutate(rng, copy.deepcopy(x))
        if gen.canon_json(x) == gen.canon_json(y):
            continue
        d = root / f'swap{i}'; d.mkdir()
        src = f'{mod.__name__}.{pl.pyname("K0")}'
        (d / 'p1.json').write_text(_json.dumps({'tasks': [src], 'pa': x})); (d / 'p2.json').write_text(_json.dumps({'tasks': [src], 'pa': y}))
        top = [f'{mod.__name__}.{pl.pyname(k)}' for k in ('K10', 'K11')]
        (d / 'ma.json').write_text(_json.dumps({'tasks': top, 'uses': [f'{d}/p1.json as a', f'{d}/p2.json as b']}))
        (d / 'mb.json').write_text(_json.dumps({'tasks': top, 'uses': [f'{d}/p2.json as a', f'{d}/p1.json as b']}))
        ca = Config(data, str(d / 'ma.json')).chain(); cb = Config(data, str(d / 'mb.json')).chain()
        pairs.append(({'a::pa': x, 'b::pa': y}, {'a::pa': y, 'b::pa': x}, 'swap')); chains.extend([ca, cb])
    # ---- parameter objects: a difference at any depth of an object's arguments moves the location (implementation + oracle;
    #      the text of an object is AutoParameterObject.repr, model TCV.AutoObj, compared in C02)
    object_pairs(ctx, root)
    odd_value_pairs(ctx, root)
    keys, outs = model_keys(ctx, chains)
    for pi, (A, B, how) in enumerate(pairs):
        ca, cb = chains[2 * pi], chains[2 * pi + 1]
        ka, kb = keys[2 * pi], keys[2 * pi + 1]
        case = {'A': A, 'B': B, 'how': how}
        nontrivial = how != 'random' or (isinstance(A.get('pa'), (list, dict, str)) and bool(A.get('pa')))
        ctx.case(case, nontrivial=nontrivial)
        ctx.count(f'pair:{how}')
        k1 = how not in ('wiring', 'swap') and findings.k1(A, B, ['pa', 'pb'] + (sorted(LOOKALIKES) if how == 'lookalike' else []))
        ctx.count('k1-class' if k1 else 'not-k1')
        ctx.count('has-quote' if in_k1_class(A, B) else 'quote-free')
        # correspondence: literal keys of every task, both chains
        for chain, km in ((ca, ka), (cb, kb)):
            impl = {n: t.name_for_persistence for n, t in chain.tasks.items()}
            if impl != {n: km[n] for n in impl}:
                ctx.diverge('keys', case, impl, km)
                break
        # oracle on the real code
        differs = how in ('wiring', 'swap') or gen.canon_json({**{'pb': None}, **A}) != gen.canon_json({**{'pb': None}, **B})
        if how == 'wiring':
            affected = {0: ['br'], 1: ['br'], 2: ['t5']}[B['wiring']]
        elif how == 'lookalike':
            affected = ['dflt', 'dcons']
        elif how == 'swap':
            affected = ['join', 'jcons']
        else:
            affected = [n for n in ca.tasks]
        if differs:
            same = [n for n in affected if n in cb.tasks and ca.tasks[n].data_path is not None
                    and ca.tasks[n].data_path == cb.tasks[n].data_path]
            if same:
                ctx.count('collision')
                ctx.fail('two different computations share a storage location', case,
                         {'tasks': same, 'path': str(ca.tasks[same[0]].data_path), 'repr_A': ca.tasks[same[0]].params.repr,
                          'repr_B': cb.tasks[same[0]].params.repr}, known='K1' if k1 else None)
    # the recorded witness of K1 must still collide (else the finding is stale)
    ca = locations(mod, data, 'wa', {'pa': ['a', 'b']}); cb = locations(mod, data, 'wb', {'pa': ["a', 'b"]})
    ctx.case({'witness': 'K1'})
    if ca.tasks['g:src'].data_path == cb.tasks['g:src'].data_path:
        ctx.fail('K1 witness', {'witness': 'K1'}, known='K1')
    else:
        ctx.notes['K1'] = 'witness no longer collides: finding K1 appears repaired'
    b.cleanup_module()


OBJ_SRC = '''
from taskchain.parameter import AutoParameterObject as _APO


class ArgObj(_APO):
    def __init__(self, a, b=None):
        self.a = a
        self._b = b
'''


def object_pairs(ctx, root):
    from taskchain import Config
    spec = {'classes': {'K0': {'name': 'o', 'group': '', 'params': [{'name': 'obj'}, {'name': 'pz', 'default': None}], 'inputs': [], 'kind': 'json', 'run_args': []},
                        'K1': {'name': 'oc', 'group': '', 'params': [], 'inputs': [{'by': 'class', 'ref': 'K0'}], 'kind': 'json', 'run_args': []}},
            'files': {}, 'main': None}
    modname = gen.fresh_modname()
    b = pl.materialize(spec, root / 'objs', modname=modname)
    f = (root / 'objs').joinpath(*modname.split('.')).with_suffix('.py')
    f.write_text(f.read_text() + OBJ_SRC)
    mod = b.module()
    tasks = [getattr(mod, pl.pyname('K0')), getattr(mod, pl.pyname('K1'))]

    def paths(kwargs, extra=None):
        d = {'tasks': tasks, 'obj': {'class': f'{modname}.ArgObj', 'kwargs': copy.deepcopy(kwargs)}}
        d.update(extra or {})
        ch = Config(root / 'objd', name='c', data=d).chain()
        return [ch.tasks['o'].data_path, ch.tasks['oc'].data_path], ch.tasks['o'].params.repr
    for i in range(ctx.n(80, 1200)):
        rng = ctx.rng('objpair', i)
        r = rng.random()
        if r < 0.25:
            # adversarial: the text of one object spelt into a string argument / a neighbouring parameter of the other
            a, b_ = gen.gen_str(rng, gen.SAFE, 4) or 'a', gen.gen_str(rng, gen.SAFE, 4) or 'b'
            A, B = rng.choice([
                ({'a': a, 'b': b_}, {'a': a + "', b='" + b_}), ({'a': [a, b_]}, {'a': [a + "', '" + b_]}),
                ({'a': a}, {'a': a + "')###pz='x"}), ({'a': {a: 1}}, {'a': "{'" + a + "': 1}"}), ({'a': a, 'b': None}, {'a': a + "', b=None"}),
                ({'a': 1}, {'a': '1'}), ({'a': [1, 2]}, {'a': '[1, 2]'})])
            ea = eb = None
            if "pz=" in str(B):
                ea = {'pz': 'x'}
            how = 'object-splice'
        else:
            v = gen.gen_value(rng, 0, 4, None if rng.random() < 0.4 else gen.SAFE, gen.SAFE)
            w = mutate(rng, copy.deepcopy(v))
            which = rng.choice(['a', 'b'])
            other = gen.gen_value(rng, 1, 2, gen.SAFE, gen.SAFE)
            A = {which: v, ('b' if which == 'a' else 'a'): other}
            B = {which: w, ('b' if which == 'a' else 'a'): other}
            ea = eb = None
            how = 'object-mutation'
        if gen.canon_json(A) == gen.canon_json(B) and ea == eb:
            continue
        try:
            pa, ra = paths(A, ea); pb, rb = paths(B, eb)
        except (TypeError, ValueError, AssertionError):
            ctx.count('outside-domain'); continue
        case = {'A': A, 'B': B, 'how': how, 'extra_A': ea}
        ctx.case(case, nontrivial=True); ctx.count(f'pair:{how}')
        same = [str(x) for x, y in zip(pa, pb) if x == y]
        if same:
            ctx.fail('two different computations share a storage location (they differ inside the arguments of a parameter object)', case,
                     {'paths': same, 'repr_A': ra, 'repr_B': rb})
    b.cleanup_module()


def odd_value_pairs(ctx, root):
    """values at the edge of the domain: (i) strings with lone surrogates (file names from `os.fsdecode` with undecodable bytes) — the
    library may refuse them, but if it assigns locations, different values get different ones; (ii) plain objects (no `repr` of their own) of
    one class with different state — never one location for two of them"""
    import os as _os
    from taskchain import Config
    spec = {'classes': {'K0': {'name': 'o', 'group': '', 'params': [{'name': 'v'}], 'inputs': [], 'kind': 'json', 'run_args': []}}, 'files': {}, 'main': None}
    b = pl.materialize(spec, root / 'odd', modname=gen.fresh_modname())
    cls = getattr(b.module(), pl.pyname('K0'))

    class Knob:
        def __init__(self, v):
            self.v = v

    def key_of(v):
        try:
            return Config(root / 'oddd', name='c', data={'tasks': [cls], 'v': v}).chain().tasks['o'].name_for_persistence
        except (UnicodeEncodeError, ValueError, TypeError, AttributeError) as e:
            return ('refused', type(e).__name__)
    pairs = [(_os.fsdecode(b'caf\xe9.csv'), _os.fsdecode(b'caf\xf1.csv')), ('a\udc80b', 'a?b'), (['x', '\udcff'], ['x', '\udcfe']),
             ({'k': 'p\udc80'}, {'k': 'p\ufffd'})]
    for k, (a, b_) in enumerate(pairs):
        case = {'probe': 'lone surrogates', 'pair': [ascii(a), ascii(b_)]}
        ctx.case(case); ctx.count('odd-values:surrogates')
        ka, kb = key_of(a), key_of(b_)
        if isinstance(ka, str) and isinstance(kb, str) and ka == kb:
            ctx.fail('two different parameter values got the same storage key', case, {'key': ka})
    # (iii) `dtype=Path` values that are different texts for one place (relative / with `..` / absolute): different values, different keys;
    # (iv) integers beyond 64 bits written in a JSON config FILE: exact, and different when they differ
    import json as _json
    pspec = {'classes': {'K0': {'name': 'po', 'group': '', 'params': [{'name': 'pth', 'dtype': 'path'}, {'name': 'n', 'default': 0}], 'inputs': [], 'kind': 'json',
                                'run_args': []}}, 'files': {}, 'main': None}
    pb = pl.materialize(pspec, root / 'oddp', modname=gen.fresh_modname())
    pcls = getattr(pb.module(), pl.pyname('K0'))
    (root / 'oddp' / 'inputs' / 'raw').mkdir(parents=True, exist_ok=True)
    old_cwd = _os.getcwd()
    try:
        _os.chdir(root / 'oddp')
        texts = ['inputs/raw', 'alt/../inputs/raw', str(root / 'oddp' / 'inputs' / 'raw'), './inputs/raw']
        ks = {}
        for t_ in texts:
            ks[t_] = Config(root / 'oddpd', name='c', data={'tasks': [pcls], 'pth': t_}).chain().tasks['po'].name_for_persistence
        case = {'probe': 'path values: different texts', 'values': texts}
        ctx.case(case); ctx.count('odd-values:path-texts')
        if len(set(ks.values())) < len(texts):
            ctx.fail('two different parameter values got the same storage key', case, ks)
    finally:
        _os.chdir(old_cwd)
    bigs = [2 ** 64 + 1, 2 ** 64 + 2, 2 ** 70, -(2 ** 65) - 1]
    ks = {}
    for j, n_ in enumerate(bigs):
        f_ = root / 'oddp' / f'big{j}.json'
        f_.write_text(_json.dumps({'tasks': [f'{pcls.__module__}.{pcls.__name__}'], 'pth': 'p', 'n': n_, 'nested': {'deep': [n_]}}))
        t_ = Config(root / 'oddpd', str(f_)).chain().tasks['po']
        case = {'probe': 'integers beyond 64 bits in a JSON config file', 'value': str(n_)}
        ctx.case(case); ctx.count('odd-values:big-integers')
        if t_.params['n'] != n_ or type(t_.params['n']) is not int:
            ctx.fail('a task does not see the integer its config file holds', case, {'seen': repr(t_.params['n'])})
        ks[str(n_)] = t_.name_for_persistence
    if len(set(ks.values())) < len(bigs):
        ctx.fail('two different parameter values got the same storage key', {'probe': 'integers beyond 64 bits in a JSON config file'}, ks)
    pb.cleanup_module()
    # (v) parameter objects whose class hands keyword arguments on to its parent without keeping them under their own names: refused
    #      (the text cannot be derived) or distinct — never one key for two of them; (vi) a subclass used after its parent class was
    from taskchain.parameter import AutoParameterObject

    def classes():
        class Base(AutoParameterObject):
            def __init__(self, scale=1):
                self.scale = scale

        class PassOn(Base):
            def __init__(self, a, **kwargs):
                super().__init__(**kwargs)
                self.a = a

        class Extended(Base):
            def __init__(self, scale=1, extra=0):
                super().__init__(scale)
                self.extra = extra
        return Base, PassOn, Extended
    Base, PassOn, Extended = classes()
    case = {'probe': 'keyword arguments handed on to the parent class', 'objects': ['PassOn(1, scale=2)', 'PassOn(1, scale=3)']}
    ctx.case(case); ctx.count('odd-values:kwargs-handed-on')
    ka, kb = key_of(PassOn(1, scale=2)), key_of(PassOn(1, scale=3))
    if isinstance(ka, str) and ka == kb:
        ctx.fail('two different parameter values got the same storage key', case, {'key': ka})
    for first in ('subclass first', 'parent first'):
        Base, PassOn, Extended = classes()
        case = {'probe': 'subclass of a parameter-object class', 'order': first, 'objects': ['Extended(1, extra=2)', 'Extended(1, extra=3)']}
        ctx.case(case); ctx.count('odd-values:subclass-after-parent')
        if first == 'parent first':
            _ = key_of(Base(5))
        ka, kb = key_of(Extended(1, extra=2)), key_of(Extended(1, extra=3))
        if isinstance(ka, str) and ka == kb:
            ctx.fail('two different parameter values got the same storage key', case, {'key': ka})
    for k in range(ctx.n(4, 20)):
        case = {'probe': 'plain objects with different state', 'states': [k, k + 1]}
        ctx.case(case); ctx.count('odd-values:plain-objects')
        ka, kb = key_of(Knob(k)), key_of(Knob(k + 1))
        if isinstance(ka, str) and ka == kb:
            ctx.fail('two different parameter values got the same storage key', case, {'key': ka})
    b.cleanup_module()


def search(ctx, divergences):
    run(ctx)


def sanity(ctx):
    from tcv.core import BrokenCheck
    c = ctx.counts
    if c.get('pair:splice', 0) < 20 or c.get('pair:mutation', 0) < 50 or c.get('quote-free', 0) < 50 or c.get('has-quote', 0) < 20:
        raise BrokenCheck(f'generator distribution collapsed: {c}')
