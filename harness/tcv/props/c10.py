"""C10 — task names resolve uniquely or not at all.

Name sets over a tiny alphabet (so that prefixes/suffixes collide constantly); every shorter form of every name plus random
queries; each set in several orders; through `_find_task_full_name`, `Chain[...]`/`in`/`get_task` and `InputTasks`."""
RULE = ('seeded name sets (1-8 names; namespaces depth 0-3, groups depth 0-2 over the alphabet a,n,xn,na,g,xg,b) x queries '
        '(all documented shorter forms of each name, the full names, mutated/random strings) x determine_namespace x 3 orders; '
        'resolved through taskchain.task._find_task_full_name, Chain.__getitem__/__contains__/get_task and InputTasks; '
        'compared with the Lean model TCV.Names.findFull (result or error kind) and with a structured reference resolver; '
        'distinct = distinct (name set, query, flag); non-trivial = at least two names')
ASSUMPTIONS = ['names are built from non-empty, colon-free components (the form MetaTask.fullname produces); '
               'queries are arbitrary strings over the same alphabet plus stray colons']
TRUSTED = ['modelled, not verified: str.split/endswith/==, list comprehension order']

COMP = ['a', 'n', 'xn', 'na', 'g', 'xg', 'b', 'an', 'A', 'Na', 'AN']        # (names are case-sensitive: `A` is not `a`)


def render(ns, gr, name):
    return ''.join(x + '::' for x in ns) + ''.join(x + ':' for x in gr) + name


def gen_names(rng):
    k = rng.choice([1, 2, 2, 3, 3, 4, 5, 6, 8])
    out = {}
    pool_ns = [[rng.choice(COMP) for _ in range(rng.randint(0, 3))] for _ in range(3)]
    pool_gr = [[rng.choice(COMP) for _ in range(rng.randint(0, 2))] for _ in range(3)]
    pool_nm = [rng.choice(COMP) for _ in range(2)]
    for _ in range(k):
        ns = list(rng.choice(pool_ns)); gr = list(rng.choice(pool_gr)); nm = rng.choice(pool_nm)
        r = rng.random()
        if r < 0.25 and ns:
            ns = ns[rng.randint(0, len(ns)):]          # a suffix: less nested variant
        elif r < 0.4 and gr:
            gr = gr[rng.randint(0, len(gr)):]
        out[render(ns, gr, nm)] = (tuple(ns), tuple(gr), nm)
    return out


def short_forms(ns, gr, nm, det=True):
    full = render(ns, gr, nm)
    forms = {full, render(ns, (), nm)}
    if det:
        forms |= {render((), gr, nm), nm}
    return forms


def gen_queries(rng, names):
    qs = []
    for full, (ns, gr, nm) in names.items():
        qs.extend(sorted(short_forms(ns, gr, nm)))
        if gr:
            qs.append(render(ns, gr[1:], nm))      # partly shortened group: not a documented form
        if ns:
            qs.append(render(ns[1:], gr, nm))      # partly shortened namespace
    for _ in range(3):
        base = rng.choice(list(names))
        r = rng.random()
        if r < 0.3:
            qs.append(base[rng.randint(0, len(base) - 1):])       # textual suffix
        elif r < 0.5:
            qs.append(rng.choice(COMP) + base)
        elif r < 0.7:
            qs.append(base.replace('::', ':', 1))
        else:
            qs.append(rng.choice(COMP) + rng.choice(['', ':', '::']) + rng.choice(COMP))
    return qs


def _noop():
    pass


def impl_find(q, names, det):
    from taskchain.task import _find_task_full_name
    try:
        return {'ok': _find_task_full_name(q, list(names), determine_namespace=det)}
    except KeyError as e:
        return {'error': 'ambiguous' if 'Ambiguous' in str(e) else 'not_found'}


def run(ctx):
    import warnings
    warnings.filterwarnings('ignore')
    from taskchain.task import InputTasks
    from taskchain import Chain, Config
    n = ctx.n(250, 4000)
    reqs, meta = [], []
    for i in range(n):
        rng = ctx.rng('set', i)
        names = gen_names(rng)
        qs = gen_queries(rng, names)
        if not ctx.thorough:
            qs = rng.sample(qs, min(len(qs), 8))
        orders = [list(names)]
        for _ in range(2):
            o = list(names); rng.shuffle(o); orders.append(o)
        for q in qs:
            for det in (True, False):
                res = [impl_find(q, o, det) for o in orders]
                reqs.append({'m': 'names', 'op': 'find', 'q': q, 'names': orders[0], 'det': det})
                meta.append((names, q, det, res, orders))
    model = ctx.model.many(reqs)
    for (names, q, det, res, orders), mo in zip(meta, model):
        case = {'names': orders[0], 'q': q, 'det': det}
        ctx.case(case, nontrivial=len(names) > 1)
        r0 = res[0]
        ctx.count('ok' if 'ok' in r0 else r0['error'])
        if r0 != mo:
            ctx.diverge('find_task_full_name', case, r0, mo)
        # ---- oracle (structured reference)
        S = [t for t, (ns, gr, nm) in names.items() if q in short_forms(ns, gr, nm, det)]
        ctx.count(f'matches={min(len(S), 3)}{"+" if len(S) >= 3 else ""}')
        if any(r != r0 for r in res):
            ctx.fail('resolution depends on declaration order', case, {'results': res, 'orders': orders})
        if q in names and r0 != {'ok': q}:
            ctx.fail('a full name does not resolve to itself', case, r0)
        if len(S) == 1 and r0 != {'ok': S[0]}:
            ctx.fail('a shorter form that identifies one task uniquely does not resolve to it', case, r0)
        wf = all(c for part in q.split('::') for c in part.split(':'))   # components non-empty: a well-formed (short) name
        ctx.count('query_wf' if wf else 'query_malformed')
        if wf and len(S) == 0 and 'ok' in r0:
            ctx.fail('a name matching no task resolved', case, r0)
        if 'ok' in r0 and len(S) > 1:
            r = r0['ok']
            if r not in S:
                ctx.fail('resolved to a task the name does not match', case, r0)
            else:
                rns, rgr, rnm = names[r]
                for t in S:
                    tns, tgr, tnm = names[t]
                    less = rnm == tnm and tns[len(tns) - len(rns):] == rns and tgr[len(tgr) - len(rgr):] == rgr \
                        and len(rns) <= len(tns) and len(rgr) <= len(tgr)
                    if not less:
                        ctx.fail('ambiguous name silently resolved to a task that is not the less-nested form of all matches', case, r0)
                        break
    # ---- the same through Chain and InputTasks (real lookup methods on real containers)
    m = ctx.n(60, 600)
    for i in range(m):
        rng = ctx.rng('chain', i)
        names = gen_names(rng)
        objs = {nm: object() for nm in names}
        # (a chain made by its constructor — from an empty config — whose task table is then replaced: look-ups see a fully initialised object)
        chain = Config(ctx.tmpdir() / 'c10-empty', name='empty', data={}).chain()
        chain.tasks = dict(objs)
        it = InputTasks()
        for k, v in objs.items():
            it[k] = v
        for q in rng.sample(gen_queries(rng, names), 4):
            exp = impl_find(q, list(names), True)
            case = {'names': list(names), 'q': q, 'via': 'Chain/InputTasks'}
            ctx.case(case, nontrivial=len(names) > 1)
            ctx.count('via_chain')
            for cont in (chain, it):
                # several look-ups of ONE name on ONE container, in any order: every answer is the resolution of the name among the
                # registered names — an earlier `in`, a failed or a successful look-up leaves nothing behind
                seq = [rng.choice(['getitem', 'in', 'get']) for _ in range(rng.randint(2, 4))]
                if 'getitem' not in seq:
                    seq.append('getitem')
                for step, how in enumerate(seq):
                    ctx.count('lookup:' + how)
                    if how == 'in':
                        got_in = q in cont
                        if got_in != ('ok' in exp):
                            ctx.fail('`in` disagrees with name resolution', case, {'in': got_in, 'find': exp, 'sequence': seq[:step + 1]})
                            break
                        continue
                    try:
                        obj = cont[q] if how == 'getitem' else cont.get(q)
                        hit = [k for k, v in objs.items() if v is obj]
                        got = {'ok': hit[0]} if hit else {'returned': repr(obj)[:40]}
                    except KeyError as e:
                        got = {'error': 'ambiguous' if 'Ambiguous' in str(e) else 'not_found'}
                    if got != exp:
                        ctx.fail('Chain[...] / input_tasks[...] resolve differently from _find_task_full_name', case,
                                 {'container': type(cont).__name__, 'how': how, 'got': got, 'find': exp, 'sequence': seq[:step + 1]})
                        break
        # a registry that GROWS between two look-ups: the answer always refers to the names registered now (a name that was unique can
        # become ambiguous, a missing one can appear)
        items = list(objs.items())
        rng.shuffle(items)
        it2 = InputTasks()
        qs = rng.sample(gen_queries(rng, names), 3)
        for k_, (nm, v) in enumerate(items):
            it2[nm] = v
            present = [x for x, _ in items[:k_ + 1]]
            for q in qs:
                exp = impl_find(q, present, True)
                try:
                    got = {'ok': [x for x, vv in objs.items() if vv is it2[q]][0]}
                except KeyError as e:
                    got = {'error': 'ambiguous' if 'Ambiguous' in str(e) else 'not_found'}
                ctx.count('via_growing_registry')
                if got != exp or (q in it2) != ('ok' in exp):
                    ctx.fail('a look-up in a growing InputTasks registry does not reflect the names registered at that moment', 
                             {'names': present, 'q': q, 'via': 'InputTasks, growing'}, {'got': got, 'in': q in it2, 'find': exp})
    run_class_names(ctx)
    run_dependants(ctx)
    helper_mock_names_probe(ctx)
    shared_object_probe(ctx)
    run_argument_probe(ctx)


def helper_mock_names_probe(ctx):
    """names given to the test helpers resolve uniquely or not at all: a mock filed under a short name (`stats`) is the task `stats` — it never
    stands in for `train:stats` or `eval:stats` because those end alike; a task that needs both is told that its inputs are missing"""
    from taskchain import Task
    from taskchain.utils.testing import TestChain

    class TrainStats(Task):
        class Meta:
            name = 'stats'
            task_group = 'train'

        def run(self) -> int:
            return 1

    class EvalStats(Task):
        class Meta:
            name = 'stats'
            task_group = 'eval'

        def run(self) -> int:
            return 2

    for order in (['train:stats', 'eval:stats'], ['eval:stats', 'train:stats']):
        class Report(Task):
            class Meta:
                name = 'report'
                input_tasks = list(order)

            def run(self) -> list:
                return [self.input_tasks['train:stats'].value, self.input_tasks['eval:stats'].value]
        case = {'probe': 'TestChain, mock under an ambiguous short name', 'inputs': order, 'mock': 'stats'}
        ctx.case(case); ctx.count('helper-mock-names')
        try:
            tc = TestChain([Report], mock_tasks={'stats': 7})
            got = tc['report'].value
            ctx.fail('a mock given under a short name that matches two inputs was bound to one of them (no error)', case, {'value': got})
        except (ValueError, KeyError):
            pass
        try:
            # an additional mock under the short name is one more task (`stats`): it replaces neither of the two
            tc = TestChain([Report], mock_tasks={'eval:stats': 20, 'train:stats': 30, 'stats': 10})
            if tc['report'].value != [30, 20]:
                ctx.fail('a mock given under a short name replaced a mock given under a full name', case, {'value': tc['report'].value})
        except Exception as e:      # noqa
            ctx.fail('mocks under two full names and their common short name are rejected', case, f'{type(e).__name__}: {e}'[:150])
        try:
            tc = TestChain([Report], mock_tasks={'train:stats': 7, 'eval:stats': 8})
            if tc['report'].value != [7, 8]:
                ctx.fail('mocks given under their full names are not the inputs of the tested task', case, {'value': tc['report'].value})
        except Exception as e:      # noqa
            ctx.fail('mocks given under their full names are rejected', case, f'{type(e).__name__}: {e}'[:150])


FRAGS = ['Export', 'Task', 'List', 'Data', 'X', 'AB', 'Train', 'Model', 'Tasks', 'task', 'V2', 'Http', 'T']


def run_class_names(ctx):
    """the name a task is addressed by when its class gives none: derived from the class name (real `MetaTask.slugname` of real
    classes vs the Lean model `Names.classTaskName`); oracle: classes whose names differ otherwise than by a trailing `Task` are
    different tasks, and a chain declaring both holds both"""
    from taskchain import Task, Config
    rng = ctx.rng('class-names')
    n = ctx.n(150, 1500)
    names = []
    for _ in range(n):
        k = rng.randint(1, 4)
        nm = ''.join(rng.choice(FRAGS) for _ in range(k))
        if not nm[0].isupper():
            nm = 'K' + nm
        if rng.random() < 0.15:
            nm += 'Task'
        names.append(nm)
    names = sorted(set(names))
    outs = ctx.model.many([{'m': 'names', 'op': 'class_name', 'cls': nm} for nm in names])
    classes, slug = {}, {}
    for nm, mo in zip(names, outs):
        cls = type(nm, (Task,), {'run': _run_int, '__module__': 'tcv_c10_classnames'})
        classes[nm] = cls
        slug[nm] = cls.slugname
        case = {'class': nm}
        ctx.case(case, nontrivial='Task' in nm[:-4] or '_' in slug[nm])
        ctx.count('class-name')
        if slug[nm] != mo.get('name'):
            ctx.diverge('class_task_name', case, slug[nm], mo)
    by_slug = {}
    for nm in names:
        by_slug.setdefault(slug[nm], []).append(nm)
    for sl, group in by_slug.items():
        base = {g[:-4] if g.endswith('Task') and len(g) > 4 else g for g in group}
        if len(base) > 1:
            ctx.fail('two classes whose names differ otherwise than by a trailing `Task` get the same task name', {'classes': group}, {'task name': sl})
    # through a real chain: every declared class is a task of the chain, under its own name
    root = ctx.tmpdir() / 'classnames'
    for i in range(ctx.n(20, 200)):
        pick = rng.sample(names, min(len(names), rng.randint(2, 5)))
        distinct = {}
        for nm in pick:
            distinct.setdefault(nm[:-4] if nm.endswith('Task') and len(nm) > 4 else nm, nm)
        pick = sorted(distinct.values())
        try:
            chain = Config(root / f'd{i}', name='c', data={'tasks': [classes[nm] for nm in pick]}).chain()
        except Exception as e:      # noqa
            ctx.fail('a chain of classes with different names cannot be built', {'classes': pick}, f'{type(e).__name__}: {e}'[:200]); continue
        ctx.case({'classes': pick, 'via': 'chain'}); ctx.count('class-name:chain')
        if len(chain.tasks) != len(pick):
            ctx.fail('a chain lost a declared task: two classes were given one task name', {'classes': pick}, {'tasks': list(chain.tasks)})


def _run_int(self) -> int:
    return 1


def run_argument_probe(ctx):
    """a run argument is a name like any other: when two inputs of a task share the short name (`train:features`, `test:features`) an argument
    called `features` identifies neither — the request fails, it does not receive whichever input was declared last"""
    from taskchain import Task, Config

    def feat(group, val):
        class F(Task):
            class Meta:
                name = 'features'
                task_group = group

            def run(self) -> int:
                return val
        return F
    Tr, Te = feat('train', 1), feat('test', 2)
    for order in ([Tr, Te], [Te, Tr]):
        class Uses(Task):
            class Meta:
                name = 'uses'
                input_tasks = list(order)

            def run(self, features) -> int:
                return features
        case = {'probe': 'run argument named like two inputs', 'declared': [c.slugname for c in order]}
        ctx.case(case); ctx.count('run-argument-probe')
        try:
            ch = Config(ctx.tmpdir() / 'runarg', name='c', data={'tasks': [Tr, Te, Uses]}).chain()
            v = ch['uses'].value
            ctx.fail('an ambiguous short name was resolved (no error)', case, {'how': 'run argument', 'received': v})
        except (KeyError, ValueError):
            pass


def shared_object_probe(ctx):
    """a short name that fits two NAMES is ambiguous — also when the two names hold one shared task object (the same pipeline with equal
    parameters under two sibling namespaces): `chain['a']` raises, `'a' in chain` is False, the full names resolve"""
    from tcv import gen, pipeline as pl
    root = ctx.tmpdir() / 'shared-object'
    spec = {'classes': {'K0': {'name': 'a', 'group': '', 'params': [{'name': 'x', 'default': 1}], 'inputs': [], 'kind': 'json', 'run_args': []}},
            'files': {'p.json': {'tasks': ['K0']}, 'main.json': {'uses': ['@cfg/p.json as n1', '@cfg/p.json as n2']}}, 'main': 'main.json',
            'module': gen.fresh_modname()}
    b = pl.materialize(spec, root, modname=spec['module'])
    b.module()
    chain, err = pl.build(b, root / 'data')
    case = {'probe': 'one shared object under two names', 'names': ['n1::a', 'n2::a'], 'q': 'a'}
    ctx.case(case); ctx.count('shared-object-probe')
    if chain is None:
        ctx.notes['shared-object-probe'] = f'not built: {err}'; b.cleanup_module(); return
    shared = chain.tasks['n1::a'] is chain.tasks['n2::a']
    for how in ('getitem', 'in', 'get', 'force'):
        try:
            if how == 'in':
                r = 'a' in chain
                if r:
                    ctx.fail('`in` disagrees with name resolution', case, {'in': True, 'shared_object': shared})
                continue
            r = chain['a'] if how == 'getitem' else (chain.get('a') if how == 'get' else chain.force('a'))
            ctx.fail('an ambiguous short name was resolved (no error)', case, {'how': how, 'shared_object': shared})
        except (KeyError, ValueError):
            pass
    if chain['n1::a'] is not chain.tasks['n1::a'] or chain['n2::a'] is not chain.tasks['n2::a']:
        ctx.fail('a full name does not resolve to its task', case, {})
    b.cleanup_module()


def run_dependants(ctx):
    """"... and from a dependant's inputs": real chains whose tasks declare inputs by short forms under colliding namespaces; the
    resolution is compared with the Lean builder model and the executable reference (shared with C08)"""
    from tcv import builder, pipeline as pl
    from tcv.props import c08
    from tcv.quiet import quiet
    quiet()
    root = ctx.tmpdir()
    specs = [builder.gen_case(ctx.rng('dep', i)) for i in range(ctx.n(60, 600))]
    reqs = [builder.encode(spec, pl.Built(root / f'd{i}', spec['module'], spec)) for i, spec in enumerate(specs)]
    outs = ctx.model.many(reqs)
    for i, (spec, mo) in enumerate(zip(specs, outs)):
        c08.check_case(ctx, spec, root, f'd{i}', mo)
        ctx.count('via_dependant_inputs')


def search(ctx, divergences):
    run(ctx)


def sanity(ctx):
    from tcv.core import BrokenCheck
    c = ctx.counts
    tot = c.get('ok', 0) + c.get('ambiguous', 0) + c.get('not_found', 0)
    if min(c.get('ok', 0), c.get('ambiguous', 0), c.get('not_found', 0)) < 0.03 * tot:
        raise BrokenCheck(f'generator distribution collapsed: {c}')
