"""C18 — run records describe the run that produced the stored result.

Histories with logging tasks (random numbers of messages and run-info records per run), failing runs, retries in the same and
in new chains of one process, forced recomputation, several chains sharing full names (hence logger names and locations).
Which runs happen, in which order, and which succeed is observed on the real code (harness-side wrappers around
`Data.get_log_handler` and `Task._finish_run_info`); the Lean model TCV.RunRec computes what every log file and run info must
then contain; the expected run info (task, parameter representations, input keys, config) is assembled independently."""
from tcv import machine, pipeline as pl, gen
from tcv.quiet import quiet

RULE = ('seeded histories (8-30 operations: chain constructions of 2-4 config variants, value requests with injected failures, '
        'task/chain forcing with recompute) over pipelines whose tasks log 0-3 messages and 0-2 records per run; after every '
        'operation `log` and `run_info` of every task object are compared with the model state (log lines, records, parameter '
        'representations from the Lean key model, input keys, config name/namespace); oracle: the expectation assembled by the '
        'harness from what each run actually logged; distinct = distinct (pipeline, op list); non-trivial = at least one failed '
        'run followed by a later run of the same task')
ASSUMPTIONS = ['timestamps, user name, taskchain version and YAML formatting are not compared',
               'messages are single-line without surrounding whitespace (Data.log strips lines)',
               'after a FAILED forced recomputation the log describes the failed run while stored data and run info are still those of the '
               'earlier successful run: the property speaks about the state after successful runs; this window is observed, not judged']
TRUSTED = ['which runs happen and succeed is taken from the implementation (the store machine is C01/C04/C07)',
           'logging.FileHandler(mode="w") truncates on creation and writes each record as one line']


class Observer:
    """harness-side observation of run attempts and successes"""
    def __init__(self):
        from taskchain.data import Data
        from taskchain.task import Task
        self.Data, self.Task = Data, Task
        self.attempts, self.success = [], []

    def __enter__(self):
        obs = self
        self.o1 = self.Data.get_log_handler
        self.o2 = self.Task._finish_run_info
        self.o3 = self.Task._init_run_info

        def init_run_info(task):
            obs.current = task
            return obs.o3(task)

        def get_log_handler(data):
            obs.attempts.append(id(obs.current))
            return obs.o1(data)

        def finish(task):
            obs.success.append(id(task))
            return obs.o2(task)
        self.Task._init_run_info = init_run_info
        self.Data.get_log_handler = get_log_handler
        self.Task._finish_run_info = finish
        return self

    def __exit__(self, *a):
        self.Data.get_log_handler = self.o1
        self.Task._finish_run_info = self.o2
        self.Task._init_run_info = self.o3


def gen_logs(rng, spec, variants):
    logs = {}
    nss = {v['ns'] for v in variants}
    for c in spec['classes'].values():
        slug = gen.slug_of(c, spec['module'])
        for ns in nss:
            full = (ns + '::' if ns else '') + slug
            logs[full] = [([f'm{rng.randrange(1000)}-{k}' for k in range(rng.randint(0, 3))],
                           [rng.choice([{'rec': rng.randrange(100)}, 'text', [1, 2], 7]) for _ in range(rng.randint(0, 2))])
                          for _ in range(12)]
    return logs


def add_twin(rng, spec, variants):
    """a second task class with the SAME task name as an existing one, declared by the main config of one variant (so it lives one
    namespace above the original) and computing the original lazily inside its own run: two runs of equally named tasks nest"""
    cands = [v for v in variants if v['ns']]
    if not cands:
        return None
    v = rng.choice(cands)
    cid = rng.choice(sorted(spec['classes']))
    c = spec['classes'][cid]
    if c.get('base', 'Task') != 'Task':
        return None
    slug = gen.slug_of(c, spec['module'])
    ref = v['ns'] + '::' + slug
    tname, tgroup = c['name'], c['group']
    if '::' not in v['ns'] and rng.random() < 0.5:
        # ... or a task named exactly like the NAMESPACE its lazily computed input lives in (`n` computing `n::g:x`): the names of the two
        # tasks' loggers must not be related either
        tname, tgroup = v['ns'], ''
    twin = {'name': tname, 'group': tgroup, 'base': 'Task', 'params': [{'name': 'tw'}], 'inputs': [{'by': 'name', 'ref': ref}],
            'kind': 'json', 'run_args': ['tw'], 'pull': [ref], 'in_kinds': {ref: c['kind']}}
    tid = f'K{len(spec["classes"])}'
    spec['classes'][tid] = twin
    main = spec['files']['main_' + v['file']]
    main['tasks'] = [tid]
    main['tw'] = rng.randrange(100)
    spec['_twin'] = {'variant': variants.index(v), 'inner': slug, 'twin': gen.slug_of(twin, spec['module'])}
    return gen.slug_of(twin, spec['module'])


def run(ctx):
    quiet()
    import json
    import logging
    logging.disable(logging.NOTSET)      # this check is about what the task loggers write
    root = ctx.tmpdir()
    n = ctx.n(45, 600)
    jobs = []
    for h in range(n):
        rng = ctx.rng('hist', h)
        spec, variants = machine.gen_family(rng, n_classes=rng.randint(2, 5), kinds=['json', 'json', 'numpy', 'memory', 'generated'])
        twin = add_twin(rng, spec, variants) if rng.random() < 0.6 else None
        ctx.count('twin-family' if twin else 'plain-family')
        ops = machine.gen_ops(rng, spec, variants, rng.randint(8, 30), {'fail', 'force'})
        tw = spec.pop('_twin', None)
        if tw:
            # make sure the two runs nest at least once: a fresh chain of the twin's variant, the inner task (hence the twin) forced, the
            # twin requested — it computes the inner task lazily inside its own run
            c_new = sum(1 for o in ops if o['op'] == 'build')
            # (tasks are addressed by (name without namespace, position in chain.tasks): in parameter mode inputs are created before their
            #  dependants, so the inner task comes before the twin)
            same = tw['inner'] == tw['twin']
            ops += [{'op': 'build', 'variant': tw['variant']},
                    {'op': 'force', 'chain': c_new, 'task': tw['inner'], 'del': False, 'pick': 0},
                    {'op': 'force', 'chain': c_new, 'task': tw['twin'], 'del': False, 'pick': 1 if same else 0},
                    {'op': 'value', 'chain': c_new, 'task': tw['twin'], 'failing': [], 'pick': 1 if same else 0}]
        logs = gen_logs(rng, spec, variants)
        if tw:
            # the lazily computed inner task always has something to say (else a leak into the outer log would not show)
            inner_full = variants[tw['variant']]['ns'] + '::' + tw['inner']
            logs[inner_full] = [([f'in{rng.randrange(1000)}-{k}' for k in range(rng.randint(1, 3))], [{'rec': rng.randrange(100)}]) for _ in range(12)]
        if twin:
            logs[twin] = [([f'tw{rng.randrange(1000)}-{k}' for k in range(rng.randint(1, 3))], [{'rec': rng.randrange(100)}]) for _ in range(12)]
        b = pl.materialize(spec, root / f'h{h}' / 'src', modname=spec['module'])
        mod = b.module()
        mod.LOGS.clear(); mod.LOGS.update({k: list(v) for k, v in logs.items()}); mod.EMITTED.clear()
        with Observer() as obs:
            hist = machine.run_history_steps(spec, variants, ops, root / f'h{h}', obs=obs, mod=mod)
        if hist is None:
            ctx.count('construction-error'); b.cleanup_module(); continue
        jobs.append((spec, ops, hist, b))
    # ---- model: key model for parameter representations, run-record model for logs / run info
    reqs = []
    for spec, ops, hist, b in jobs:
        for o in hist['objects']:
            reqs.append({'m': 'runrec', 'op': 'value_reprs', 'params': o['params'], 'np': []})
    reprs = ctx.model.many(reqs)
    pos = 0
    reqs2 = []
    for spec, ops, hist, b in jobs:
        for o in hist['objects']:
            r = reprs[pos]; pos += 1
            o['value_reprs'] = {k: v for k, v in r['reprs']}
            o['registry'] = r['registry']
        events = []
        for ev in hist['events']:
            o = hist['objects'][ev['obj']]
            lines = [f"{o['fullname']} - run started with params: {o['registry']}"] + (ev['msgs'] if ev['emitted'] else [])
            if ev['ok']:
                lines.append(f"{o['fullname']} - run ended")
            info = {'task': {'name': o['slug'], 'class': o['cls']}, 'parameters': o['value_reprs'],
                    'config': {'name': o['config_name'], 'namespace': o['ns']}, 'input_tasks': o['input_keys']}
            events.append({'logger': 'task_' + o['fullname'], 'loc': o['loc'], 'lines': lines, 'records': ev['recs'] if ev['emitted'] else [],
                           'ok': ev['ok'], 'info': info})
        hist['model_events'] = events
        reqs2.append({'m': 'runrec', 'op': 'run', 'events': events, 'locs': sorted({o['loc'] for o in hist['objects']})})
    outs = ctx.model.many(reqs2)
    for (spec, ops, hist, b), mo in zip(jobs, outs):
        case = {'module': spec['module'], 'ops': ops, 'runs': len(hist['events'])}
        full_case = {**case, 'spec': spec}
        failed_then_rerun = any((not e['ok']) and any(f['obj_loc'] == e['obj_loc'] for f in hist['events'][i + 1:]) for i, e in enumerate(hist['events']))
        ctx.case(case, nontrivial=failed_then_rerun)
        ctx.count('runs', len(hist['events'])); ctx.count('failed-runs', sum(1 for e in hist['events'] if not e['ok']))
        ctx.count('retry-after-failure' if failed_then_rerun else 'no-retry')
        # observations are taken after every operation; the model state after the runs so far
        for obs_rec in hist['observations']:
            k = obs_rec['events_so_far']
            if k == 0:
                continue
            state = {s['loc']: s for s in mo['states'][k - 1]}
            # oracle expectation, assembled independently from what each run logged
            exp_log, exp_info = {}, {}
            for ev, mev in zip(hist['events'][:k], hist['model_events'][:k]):
                exp_log[mev['loc']] = mev['lines']
                if ev['ok']:
                    exp_info[mev['loc']] = (mev['info'], mev['records'])
            for loc, got in obs_rec['by_loc'].items():
                m = state[loc]
                got_log = got['log'] or []
                if got_log != m['log']:
                    ctx.diverge('run-records:log', full_case, {'loc': loc, 'log': got_log}, {'log': m['log']})
                minfo = None if m['run_info'] is None else {**m['run_info']['info'], 'log': m['run_info']['records']}
                if got['run_info'] != minfo:
                    ctx.diverge('run-records:run_info', full_case, {'loc': loc, 'run_info': got['run_info']}, {'run_info': minfo})
                # oracle
                if loc in exp_log and got_log != exp_log[loc]:
                    last_ok = any(e['ok'] for e, me in zip(hist['events'][:k], hist['model_events'][:k]) if me['loc'] == loc and me is [x for x in hist['model_events'][:k] if x['loc'] == loc][-1])
                    ctx.fail('the log does not hold exactly the messages of the latest run of the task', full_case,
                             {'task': got['fullname'], 'log': got_log, 'expected': exp_log[loc]})
                if loc in exp_info:
                    einfo = {**exp_info[loc][0], 'log': exp_info[loc][1]}
                    if got['run_info'] != einfo:
                        ctx.fail('run info does not describe the latest successful run', full_case,
                                 {'task': got['fullname'], 'run_info': got['run_info'], 'expected': einfo})
        b.cleanup_module()
    k7_witness(ctx)
    dotted_names_probe(ctx)
    separator_names_probe(ctx)


def k7_witness(ctx):
    """finding K7: name mode, config names that differ only after their last dot (`main.v1` / `main.v2`), a DIRECTORY result: both
    configs keep their results apart (`main.v1/`, `main.v2/`) but share one run-info file and one log (`main.run_info.yaml`,
    `main.log`: `Path.stem` of a directory name cuts at the last dot), so the run info of the first names the config of the second"""
    from tcv import gen, pipeline as pl
    root = ctx.tmpdir() / 'k7'
    spec = {'classes': {'K0': {'name': 'w', 'group': '', 'params': [{'name': 'x'}], 'inputs': [], 'kind': 'dir', 'run_args': ['x']}},
            'files': {'main.v1.json': {'tasks': ['K0'], 'x': 1}, 'main.v2.json': {'tasks': ['K0'], 'x': 2}}, 'main': 'main.v1.json'}
    b = pl.materialize(spec, root, modname=gen.fresh_modname())
    b.module()
    c1, e1 = pl.build(b, root / 'd', main='main.v1.json', parameter_mode=False)
    c2, e2 = pl.build(b, root / 'd', main='main.v2.json', parameter_mode=False)
    case = {'witness': 'K7', 'configs': ['main.v1', 'main.v2'], 'mode': 'name', 'kind': 'dir'}
    ctx.case(case)
    if e1 or e2:
        ctx.notes['K7'] = f'witness does not build: {e1 or e2}'; b.cleanup_module(); return
    _ = c1.tasks['w'].value
    _ = c2.tasks['w'].value
    t1 = pl.build(b, root / 'd', main='main.v1.json', parameter_mode=False)[0].tasks['w']
    info = t1.run_info
    if info and info.get('config', {}).get('name') != 'main.v1':
        ctx.fail('K7 witness: the run info of a stored result names another config', case,
                 {'data_path': str(t1.data_path.name), 'run_info_config': info.get('config'), 'parameters': info.get('parameters')}, known='K7')
    else:
        ctx.notes['K7'] = 'witness no longer fails: finding K7 appears repaired'
    b.cleanup_module()


def dotted_names_probe(ctx):
    """name mode, config names that differ only after a dot (`main.v1`, `main.v2`, `main`), FILE results: every result keeps its own run
    info and log (`<config name>.run_info.yaml`, `<config name>.log`) — the run of one never rewrites the records of another"""
    from tcv import gen, pipeline as pl
    root = ctx.tmpdir() / 'dotted'
    for k, kind in enumerate(['json', 'numpy', 'generated', 'json'][:ctx.n(2, 4)]):
        spec = {'classes': {'K0': {'name': 'w', 'group': '', 'params': [{'name': 'x'}], 'inputs': [], 'kind': kind, 'run_args': ['x']}},
                'files': {'main.v1.json': {'tasks': ['K0'], 'x': 1}, 'main.v2.json': {'tasks': ['K0'], 'x': 2}, 'main.json': {'tasks': ['K0'], 'x': 3}},
                'main': 'main.v1.json'}
        b = pl.materialize(spec, root / f'k{k}', modname=gen.fresh_modname())
        b.module()
        names = ['main.v1.json', 'main.v2.json', 'main.json'] if k % 2 == 0 else ['main.json', 'main.v2.json', 'main.v1.json']
        case = {'probe': 'dotted config names, file results', 'kind': kind, 'order': names}
        ctx.case(case); ctx.count('dotted-names-probe')
        for m in names:
            c, e = pl.build(b, root / f'k{k}' / 'd', main=m, parameter_mode=False)
            if e:
                ctx.notes['dotted-names'] = f'does not build: {e}'; break
            _ = c.tasks['w'].value
        for m in names:
            t = pl.build(b, root / f'k{k}' / 'd', main=m, parameter_mode=False)[0].tasks['w']
            info = t.run_info
            want = m[:-len('.json')]
            if not info or info.get('config', {}).get('name') != want:
                ctx.fail('the run info beside a stored result describes the run of another config', case,
                         {'config': want, 'run_info_config': info and info.get('config'), 'run_info_file': str(t._data_without_value.run_info_path.name)})
                break
            log = t.log or []
            if not any(f'{want}' in str(line) or 'w' in str(line) for line in log):
                ctx.fail('the log beside a stored result is empty or missing', case, {'config': want}); break
        b.cleanup_module()


def separator_names_probe(ctx):
    """the log of a task holds the messages of ITS run: a task `raw_table` that computes its input `raw::table` (or `raw:table`) while it runs
    does not get that input's messages into its own log — names that differ only in separators are different tasks, also for logging"""
    from taskchain import Task, Config
    root = ctx.tmpdir() / 'separators'
    for k, how in enumerate(['namespace', 'group']):
        class Table(Task):
            class Meta:
                name = 'table'
                task_group = 'raw' if how == 'group' else ''

            def run(self) -> int:
                self.logger.info('MESSAGE-OF-THE-INPUT')
                return 1
        inner = 'raw::table' if how == 'namespace' else 'raw:table'

        class RawTable(Task):
            class Meta:
                name = 'raw_table'
                input_tasks = [inner]

            def run(self) -> int:
                self.logger.info('own message, before the input')
                v = self.input_tasks[inner].value          # the input is computed HERE, inside this run
                self.logger.info('own message, after the input')
                return v + 1
        case = {'probe': 'names that differ only in separators', 'input': inner, 'task': 'raw_table'}
        ctx.case(case); ctx.count('separator-names-probe')
        if how == 'namespace':
            sub = Config(root / f'd{k}', name='sub', namespace='raw', data={'tasks': [Table]})
            cfg = Config(root / f'd{k}', name='main', data={'tasks': [RawTable], 'uses': [sub]})
        else:
            cfg = Config(root / f'd{k}', name='main', data={'tasks': [Table, RawTable]})
        try:
            ch = cfg.chain()
            _ = ch['raw_table'].value
            own = ' '.join(map(str, ch['raw_table'].log or []))
            other = ' '.join(map(str, ch[inner].log or []))
        except Exception as e:      # noqa
            ctx.notes['separator-names'] = f'{type(e).__name__}: {e}'[:160]; continue
        if 'MESSAGE-OF-THE-INPUT' in own or 'MESSAGE-OF-THE-INPUT' not in other or 'own message' in other:
            ctx.fail('the log of a task contains messages of another task\'s run (or lacks its own)', case, {'log_of_raw_table': own[:300], 'log_of_input': other[:300]})


def search(ctx, divergences):
    run(ctx)


def sanity(ctx):
    from tcv.core import BrokenCheck
    c = ctx.counts
    if c.get('failed-runs', 0) < 10 or c.get('retry-after-failure', 0) < 3:
        raise BrokenCheck(f'generator distribution collapsed: {c}')
