"""C04 — each computation runs at most once, and only on demand (machine level: histories without force/failure/deletion)."""
from tcv import machine, pipeline as pl
from tcv.data_kinds import persisting

RULE = ('seeded histories (8-30 operations) over 2-4 configurations of one generated pipeline (2-7 task classes, all data kinds '
        'incl. in-memory, inputs used as run arguments / pulled in run / unused) on ONE data directory: chain constructions, value '
        'requests in random order, all inspection calls, simulated restarts (all chains dropped); executed on the real code and '
        'replayed on the Lean store machine; compared per operation: returned provenance term, run-log delta (order included), '
        'forced / in-memory / stored sets; oracle: no location run twice, nothing run by construction or inspection, nothing run '
        'whose result was available, only the used upstream closure runs; distinct = distinct (pipeline, op list)')
ASSUMPTIONS = ['restarts are simulated by dropping every chain object (fresh objects share nothing but the data directory); '
               'real interpreter restarts are exercised by C01/C05',
               'data classes whose constructor needs arguments are outside the domain (existence cannot be tested before running)']
TRUSTED = ['the chain structure (objects, edges, locations, used inputs) is extracted from the implementation; construction is C08/C09']


def oracle(ctx, case, hist, maps, spec):
    seen_loc, seen_obj = {}, set()
    prev = {'mem': [], 'stored': []}
    for r in hist['rec']:
        op = r['op']
        runs = r['runs']
        objs = {id(t): t for t in maps['objs']}
        if op['op'] in ('build', 'inspect', 'restart') and runs:
            ctx.fail(f"{op['op']} ran tasks", case, {'op': op, 'ran': [objs[x].fullname for x in runs if x in objs]})
        if op['op'] == 'value' and not r.get('skipped'):
            allowed = machine.closure_used(r['task'], spec)
            for x in runs:
                t = objs.get(x)
                if t is None:
                    continue
                if x not in allowed:
                    ctx.fail('a value request ran a task outside the used upstream closure', case, {'op': op, 'ran': t.fullname})
                if x in prev['mem']:
                    ctx.fail('a task whose result was in memory was run again', case, {'op': op, 'ran': t.fullname})
                lk = (str(t.path), t.name_for_persistence)
                if persisting(t):
                    if lk in prev['stored']:
                        ctx.fail('a task whose result was stored (and not forced) was run', case, {'op': op, 'ran': t.fullname})
                    if lk in seen_loc:
                        ctx.fail('a storage location was computed twice without force, failure or deletion', case,
                                 {'op': op, 'ran': t.fullname, 'first': seen_loc[lk]})
                    seen_loc[lk] = op
                else:
                    if x in seen_obj:
                        ctx.fail('an in-memory task object was run twice', case, {'op': op, 'ran': t.fullname})
                    seen_obj.add(x)
        prev = r['state']


def name_mode_inspection_probe(ctx):
    """inspection runs nothing and loses nothing — also in name mode, where the "readable" name of a result defaults to the config name,
    i.e. to the very name the result is stored under: after every inspection call the results are still there and a later chain is
    served from them"""
    from tcv import gen, pipeline as pl
    root = ctx.tmpdir() / 'nmi'
    for k in range(ctx.n(6, 40)):
        rng = ctx.rng('name-mode-inspect', k)
        kinds = [rng.choice(['json', 'numpy', 'pandas', 'generated', 'dir']) for _ in range(2)]
        spec = {'classes': {'K0': {'name': 'up', 'group': rng.choice(['', 'g']), 'params': [{'name': 'x'}], 'inputs': [], 'kind': kinds[0], 'run_args': ['x']},
                            'K1': {'name': 'down', 'group': '', 'params': [], 'inputs': [{'by': 'class', 'ref': 'K0'}], 'kind': kinds[1], 'run_args': [],
                                   'pull': [], 'in_kinds': {}}},
                'files': {'exp.json': {'tasks': ['K0', 'K1'], 'x': k}}, 'main': 'exp.json'}
        b = pl.materialize(spec, root / f'c{k}', modname=gen.fresh_modname())
        mod = b.module()
        data = root / f'd{k}'
        case = {'probe': 'name mode: inspection', 'kinds': kinds}
        ctx.case(case); ctx.count('name-mode-inspection-probe')
        ch, err = pl.build(b, data, parameter_mode=False)
        if err:
            b.cleanup_module(); continue
        for t in ch.tasks.values():
            _ = t.value
        mod.RUNLOG.clear()
        calls = [('has_data', lambda c: [t.has_data for t in c.tasks.values()]), ('data_path', lambda c: [t.data_path for t in c.tasks.values()]),
                 ('run_info', lambda c: [t.run_info for t in c.tasks.values()]), ('log', lambda c: [t.log for t in c.tasks.values()]),
                 ('tasks_df', lambda c: c.tasks_df), ('create_readable_filenames()', lambda c: c.create_readable_filenames()),
                 ('create_readable_filenames(name=…)', lambda c: c.create_readable_filenames(name='nice')),
                 ('create_readable_filenames(keep_existing=True)', lambda c: c.create_readable_filenames(keep_existing=True)),
                 ('create_readable_filenames() again', lambda c: c.create_readable_filenames())]
        rng.shuffle(calls)
        for what, fn in calls:
            try:
                fn(ch)
            except Exception as e:      # noqa
                ctx.fail('an inspection call raised', {**case, 'call': what}, f'{type(e).__name__}: {e}'[:200]); break
            if mod.RUNLOG:
                ctx.fail('inspection ran tasks', {**case, 'call': what}, {'ran': [x[0] for x in mod.RUNLOG]}); break
            gone = [t.fullname for t in ch.tasks.values() if persisting(t) and not t.has_data]
            if gone:
                ctx.fail('an inspection call removed a stored result', {**case, 'call': what}, {'tasks': gone}); break
        ch2, _ = pl.build(b, data, parameter_mode=False)
        for t in ch2.tasks.values():
            _ = t.value
        if mod.RUNLOG:
            ctx.fail('a later chain ran a task whose result had been stored (after inspection calls)', case, {'ran': [x[0] for x in mod.RUNLOG]})
        b.cleanup_module()


def run(ctx):
    machine.run_batch(ctx, ctx.n(60, 800), allow={'restart'}, oracle=oracle)
    name_mode_inspection_probe(ctx)
    thread_probe(ctx)
    damaged_result_probe(ctx)


def thread_probe(ctx):
    """a computation runs at most once — also when the value is asked for from several threads one after the other (a worker thread, then
    the main thread): the object that holds the value is the same for every thread"""
    import threading
    from tcv import gen
    root = ctx.tmpdir() / 'threads'
    for k, kind in enumerate(['memory', 'json', 'memory', 'numpy'][:ctx.n(2, 4)]):
        spec = {'classes': {'K0': {'name': 'w', 'group': '', 'params': [{'name': 'x'}], 'inputs': [], 'kind': kind, 'run_args': ['x']}},
                'files': {'main.json': {'tasks': ['K0'], 'x': k}}, 'main': 'main.json', 'module': gen.fresh_modname()}
        b = pl.materialize(spec, root / f't{k}', modname=spec['module'])
        mod = b.module()
        mod.RUNLOG.clear()
        chain, err = pl.build(b, root / f't{k}' / 'data')
        t = chain.tasks['w']
        box = {}
        th = threading.Thread(target=lambda: box.setdefault('v', t.value)); th.start(); th.join(30)
        _ = t.value
        th2 = threading.Thread(target=lambda: box.setdefault('v2', t.value)); th2.start(); th2.join(30)
        case = {'probe': 'value requested from three threads in turn', 'kind': kind}
        ctx.case(case); ctx.count('thread-probe')
        runs = [r for r in mod.RUNLOG if r[0] == 'w']
        if len(runs) != 1:
            ctx.fail('a task ran more than once although its value was already computed', case, {'runs': len(runs)})
        b.cleanup_module()


def damaged_result_probe(ctx):
    """a stored result that cannot be loaded (truncated file, foreign bytes) is an error the user sees — the task is not quietly run a
    second time for the same location"""
    from tcv import gen
    root = ctx.tmpdir() / 'damaged'
    for k, kind in enumerate(['json', 'numpy', 'pandas', 'json'][:ctx.n(2, 4)]):
        spec = {'classes': {'K0': {'name': 'w', 'group': '', 'params': [{'name': 'x'}], 'inputs': [], 'kind': kind, 'run_args': ['x']},
                            'K1': {'name': 'down', 'group': '', 'params': [], 'inputs': [{'by': 'class', 'ref': 'K0'}], 'kind': 'json', 'run_args': ['w'],
                                   'in_kinds': {'w': kind}}},
                'files': {'main.json': {'tasks': ['K0', 'K1'], 'x': k}}, 'main': 'main.json', 'module': gen.fresh_modname()}
        b = pl.materialize(spec, root / f't{k}', modname=spec['module'])
        mod = b.module()
        mod.RUNLOG.clear()
        chain, err = pl.build(b, root / f't{k}' / 'data')
        _ = chain.tasks['w'].value
        f = chain.tasks['w'].data_path
        raw = f.read_bytes()
        f.write_bytes(raw[: max(1, len(raw) // 2)] if k % 2 == 0 else b'\x00garbage')
        chain2, err = pl.build(b, root / f't{k}' / 'data')
        case = {'probe': 'stored result that cannot be loaded', 'kind': kind, 'damage': 'truncated' if k % 2 == 0 else 'foreign bytes'}
        ctx.case(case); ctx.count('damaged-result-probe')
        outcome = 'returned'
        try:
            _ = mod.unwrap('json', chain2.tasks['down'].value)
        except Exception as e:      # noqa
            outcome = type(e).__name__
        runs = [r for r in mod.RUNLOG if r[0] == 'w']
        if len(runs) != 1:
            ctx.fail('a task ran a second time for a location that holds a (damaged) result, without an error', case, {'runs': len(runs), 'outcome': outcome})
        b.cleanup_module()


def search(ctx, divergences):
    run(ctx)


def sanity(ctx):
    from tcv.core import BrokenCheck
    c = ctx.counts
    if c.get('op:value', 0) < 5 * max(1, ctx.evaluations) or c.get('op:inspect', 0) < ctx.evaluations:
        raise BrokenCheck(f'generator distribution collapsed: {c}')
