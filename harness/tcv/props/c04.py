"""C04 — each computation runs at most once, and only on demand (machine level: histories without force/failure/deletion)."""
from tcv import machine
from tcv.data_kinds import persisting

RULE = ('seeded histories (8-30 operations) over 2-4 configurations of one generated pipeline (2-7 task classes, all data kinds '
        'incl. in-memory, inputs used as run arguments / pulled in run / unused) on ONE data directory: chain constructions, value '
        'requests in random order, all inspection calls, simulated restarts (all chains dropped); executed on the real code and '
        'replayed on the Lean store machine; compared per operation: returned provenance term, run-log delta (order included), '
        'forced / in-memory / stored sets; oracle: no location run twice, nothing run by construction or inspection, nothing run '
        'whose result was available, only the used upstream closure runs; distinct = distinct (pipeline, op list)')
ASSUMPTIONS = ['restarts are simulated by dropping every chain object (fresh objects share nothing but the data directory); '
               'real interpreter restarts are exercised by C01/C05',
               'data classes whose constructor needs arguments are outside the domain (existence cannot be tested before running)']
TRUSTED = ['the chain structure (objects, edges, locations, used inputs) is extracted from the implementation; construction is C08/C09']


def oracle(ctx, case, hist, maps, spec):
    seen_loc, seen_obj = {}, set()
    prev = {'mem': [], 'stored': []}
    for r in hist['rec']:
        op = r['op']
        runs = r['runs']
        objs = {id(t): t for t in maps['objs']}
        if op['op'] in ('build', 'inspect', 'restart') and runs:
            ctx.fail(f"{op['op']} ran tasks", case, {'op': op, 'ran': [objs[x].fullname for x in runs if x in objs]})
        if op['op'] == 'value' and not r.get('skipped'):
            allowed = machine.closure_used(r['task'], spec)
            for x in runs:
                t = objs.get(x)
                if t is None:
                    continue
                if x not in allowed:
                    ctx.fail('a value request ran a task outside the used upstream closure', case, {'op': op, 'ran': t.fullname})
                if x in prev['mem']:
                    ctx.fail('a task whose result was in memory was run again', case, {'op': op, 'ran': t.fullname})
                lk = (str(t.path), t.name_for_persistence)
                if persisting(t):
                    if lk in prev['stored']:
                        ctx.fail('a task whose result was stored (and not forced) was run', case, {'op': op, 'ran': t.fullname})
                    if lk in seen_loc:
                        ctx.fail('a storage location was computed twice without force, failure or deletion', case,
                                 {'op': op, 'ran': t.fullname, 'first': seen_loc[lk]})
                    seen_loc[lk] = op
                else:
                    if x in seen_obj:
                        ctx.fail('an in-memory task object was run twice', case, {'op': op, 'ran': t.fullname})
                    seen_obj.add(x)
        prev = r['state']


def run(ctx):
    machine.run_batch(ctx, ctx.n(60, 800), allow={'restart'}, oracle=oracle)


def search(ctx, divergences):
    run(ctx)


def sanity(ctx):
    from tcv.core import BrokenCheck
    c = ctx.counts
    if c.get('op:value', 0) < 5 * max(1, ctx.evaluations) or c.get('op:inspect', 0) < ctx.evaluations:
        raise BrokenCheck(f'generator distribution collapsed: {c}')
