"""C17 — parallel_map equals map whatever the scheduling; chunked.

Implementation side: the thread pool is replaced (in this process) by an executor whose futures are completed by the
harness in a dictated order; the same orders are given to the Lean model (TCV.ParMap.parallelMap)."""
import asyncio
import concurrent.futures
import os
import threading
from concurrent.futures import Future

os.environ.setdefault('TQDM_DISABLE', '1')
import logging
logging.getLogger('asyncio').setLevel(logging.CRITICAL)

RULE = ('seeded cases (length 0..40 around multiples of the chunk size, chunk size 1..12, threads 1..8, sorted/unsorted, '
        'list or generator input, 0-2 raising elements, completion order random/reversed/identity per chunk) run through '
        'taskchain.utils.threading.parallel_map, utils.iter.parallel_map and utils.iter.chunked with a controller-dictated '
        'completion order; compared with the Lean model and with [f(x) for x in xs]; distinct = distinct case descriptions')
ASSUMPTIONS = ['asyncio/ThreadPoolExecutor internals are replaced by a controller that completes futures in a dictated order; '
               'the real pool can produce exactly these orders and no others (each future completes once)']
TRUSTED = ['modelled, not verified: asyncio.as_completed yields futures in completion order; sorted() is a stable sort']


class Boom(Exception):
    pass


class BoomRuntime(RuntimeError):
    """what `f` raises may be of ANY class — also one the implementation itself might catch for its own purposes"""


class BoomNotImpl(NotImplementedError):
    pass


BOOMS = {'plain': Boom, 'runtime': BoomRuntime, 'notimpl': BoomNotImpl}


class Ctl:
    """controller: dictated completion orders"""
    def __init__(self):
        self.execs, self.style, self.rng, self.used, self.threads = [], 'random', None, [], []

    def perm(self, n):
        p = list(range(n))
        if self.style == 'reverse':
            p.reverse()
        elif self.style == 'random':
            self.rng.shuffle(p)
        elif self.style == 'rotate' and n:
            p = p[1:] + p[:1]
        return p


CTL = Ctl()


class CtlExecutor:
    def __init__(self, max_workers=None, *a, **kw):
        if max_workers is not None and max_workers <= 0:
            raise ValueError('max_workers must be greater than 0')      # as concurrent.futures.ThreadPoolExecutor does
        self.pending = []
        CTL.execs.append(self)

    def submit(self, fn, *args):
        f = Future(); self.pending.append((f, fn, args)); return f

    def __enter__(self):
        return self

    def __exit__(self, *a):
        return False

    def shutdown(self, wait=True, **kw):
        pass

    def release(self, perm):
        # (the LAST len(perm) submissions: an implementation may keep one executor for several chunks)
        base = len(self.pending) - len(perm)

        def work():
            for i in perm:
                f, fn, args = self.pending[base + i]
                try:
                    f.set_result(fn(*args))
                except BaseException as e:  # noqa
                    f.set_exception(e)
        t = threading.Thread(target=work, daemon=True); t.start(); CTL.threads.append(t)


_orig_as_completed = asyncio.as_completed
_orig_executor = concurrent.futures.ThreadPoolExecutor


def _as_completed(fs, **kw):
    fs = list(fs)
    ex = CTL.execs[-1]
    perm = CTL.perm(min(len(fs), len(ex.pending)))
    CTL.used.append(perm)
    # complete everything before the event loop looks: as_completed then yields in completion order
    ex.release(perm)
    for t in CTL.threads:
        t.join()
    return _orig_as_completed(fs, **kw)


def install():
    concurrent.futures.ThreadPoolExecutor = CtlExecutor
    asyncio.as_completed = _as_completed


def uninstall():
    concurrent.futures.ThreadPoolExecutor = _orig_executor
    asyncio.as_completed = _orig_as_completed


NONE = 1000


def gen_case(rng):
    c = rng.choice([1, 1, 2, 3, 4, 5, 7, 8, 12])
    k = rng.randint(0, 4)
    n = max(0, min(40, k * c + rng.choice([0, 0, 1, -1, 2, c // 2])))
    xs = [rng.randint(-50, 50) for _ in range(n)]
    if n and rng.random() < 0.2:
        # None is a legitimate element (an optional value): it travels as the number NONE on the model side
        for _ in range(rng.randint(1, 3)):
            xs[rng.randrange(n)] = NONE
    fail = []
    if n and rng.random() < 0.2:
        fail = sorted({rng.choice(xs) for _ in range(rng.randint(1, 2))})
    # the progress bar and its `total` hint (exact, too small, too large, absent) are presentation only: they never change the result
    total = rng.choice([None, None, n, max(0, n - c - 1), n // 2, n + 3, 0])
    return {'xs': xs, 'c': c, 'threads': rng.choice([1, 2, 2, 3, 4, 8]), 'sort': rng.random() < 0.75,
            'fail': fail, 'style': rng.choice(['random', 'random', 'reverse', 'identity', 'rotate']),
            'gen': rng.random() < 0.3, 'which': rng.choice(['new', 'new', 'new', 'old']),
            'tqdm': rng.random() < 0.4, 'total': total, 'boom': rng.choice(['plain', 'plain', 'runtime', 'notimpl'])}


class _Hang(BaseException):
    pass


def _with_alarm(fn, seconds):
    """run fn in this (the main) thread — `asyncio.get_event_loop()` needs it — and give up after `seconds`"""
    import signal

    def on_alarm(signum, frame):
        raise _Hang()
    old = signal.signal(signal.SIGALRM, on_alarm)
    old_timer = signal.setitimer(signal.ITIMER_REAL, seconds)
    try:
        fn()
    except _Hang:
        pass
    finally:
        signal.setitimer(signal.ITIMER_REAL, 0)
        signal.signal(signal.SIGALRM, old)
        if old_timer and old_timer[0] > 0:
            signal.setitimer(signal.ITIMER_REAL, max(0.001, old_timer[0] - 0.0), old_timer[1])


def run_impl(case, rng):
    import taskchain.utils.threading as th
    import taskchain.utils.iter as it
    calls = []

    def f(x):
        x = NONE if x is None else x
        calls.append(x)
        if x in case['fail']:
            raise BOOMS[case.get('boom', 'plain')](x)
        return 3 * x + 1

    CTL.execs.clear(); CTL.used.clear(); CTL.threads.clear(); CTL.style = case['style']; CTL.rng = rng
    xs = case['xs']
    xs = [None if x == NONE else x for x in xs]
    arg = (x for x in xs) if case['gen'] else list(xs)
    box = {}

    def call():
        try:
            if case['which'] == 'new':
                r = th.parallel_map(f, arg, threads=case['threads'], sort=case['sort'], use_tqdm=case['tqdm'], total=case['total'], chunksize=case['c'])
            else:
                r = it.parallel_map(f, arg, threads=case['threads'])
            box['out'] = {'ok': list(r)}
        except (Boom, BoomRuntime, BoomNotImpl) as e:
            box['out'] = {'raise': e.args[0]}
        except Exception as e:  # noqa  (anything else the implementation raises is an outcome to judge, not a harness error)
            box['out'] = {'error': type(e).__name__}
    # (a call that never returns — e.g. work handed to an executor the controller does not drive — is an outcome too)
    _with_alarm(call, 20)
    out = box.get('out', {'error': 'no result within 20 s'})
    for t in CTL.threads:
        t.join(5)
    if isinstance(arg, list) and arg != xs:
        out = dict(out, input_changed=list(arg))        # the caller's list is the caller's: it is read, never written
    return out, sorted(calls), [list(p) for p in CTL.used]


def run(ctx, search=False):
    import sys
    sys.path.insert(0, str(__import__('tcv.core').core.REPO / 'src'))
    import warnings
    warnings.filterwarnings('ignore')
    import taskchain.utils.iter as it
    install()
    try:
        n = ctx.n(300, 3000)
        cases, impl = [], []
        hangs = 0
        for i in range(n):
            rng = ctx.rng('case', i)
            case = gen_case(rng)
            out, calls, orders = run_impl(case, rng)
            case['orders'] = orders
            cases.append(case); impl.append((out, calls))
            hangs += str(out.get('error', '')).startswith('no result')
            if hangs >= 3:
                break           # an implementation whose calls do not return: three witnesses are enough
        reqs = []
        for case in cases:
            if case['which'] == 'new':
                reqs.append({'m': 'parmap', 'op': 'pmap', 'xs': case['xs'], 'c': case['c'], 'threads': case['threads'],
                             'sort': case['sort'], 'fail': case['fail'], 'orders': case['orders']})
            else:
                reqs.append({'m': 'parmap', 'op': 'pmap_old', 'xs': case['xs'], 'threads': case['threads'], 'fail': case['fail'],
                             'order': case['orders'][0] if case['orders'] else []})
        model = ctx.model.many(reqs)
        for case, (out, calls), mo in zip(cases, impl, model):
            ctx.case(case, nontrivial=len(case['xs']) > 1)
            ctx.count('len=0' if not case['xs'] else 'len<=c' if len(case['xs']) <= case['c'] else 'len>c')
            ctx.count('multiple_of_c' if case['xs'] and len(case['xs']) % case['c'] == 0 else 'non_multiple')
            ctx.count(f"threads={'1' if case['threads'] == 1 else '>1'}")
            ctx.count('sorted' if case['sort'] or case['which'] == 'old' else 'unsorted')
            ctx.count('raises' if case['fail'] else 'no_raise')
            ctx.count(f"which={case['which']}")
            if 'input_changed' in out:
                ctx.fail('parallel_map changed the list it was given', case, {'list_after_the_call': out['input_changed']})
                out = {k: v for k, v in out.items() if k != 'input_changed'}
            if out != mo:
                ctx.diverge('parallel_map', case, out, mo)
            # ---- oracle on the real code
            xs = case['xs']
            exp = [3 * x + 1 for x in xs]
            sort = case['sort'] or case['which'] == 'old' or case['threads'] == 1
            if case['fail']:
                if 'raise' not in out or out['raise'] not in case['fail']:
                    ctx.fail('exception of f not propagated', case, out)
                if any(calls.count(x) > sorted(xs).count(x) for x in set(calls)):
                    ctx.fail('f was called more than once for an element', case, {'calls': calls})
            elif 'ok' not in out:
                ctx.fail('parallel_map raised although f did not', case, out)
            else:
                if sort and out['ok'] != exp:
                    ctx.fail('parallel_map(f, xs) != [f(x) for x in xs]', case, out)
                if not sort:
                    c = case['c']
                    got, off, okp = out['ok'], 0, len(out['ok']) == len(exp)
                    while okp and off < len(exp):
                        okp = sorted(got[off:off + c]) == sorted(exp[off:off + c]); off += c
                    if not okp:
                        ctx.fail('unsorted result is not a chunk-wise permutation of the outputs', case, out)
                if calls != sorted(xs):
                    ctx.fail('f not called exactly once per element', case, {'calls': calls})
        # ---- chunked
        m = ctx.n(300, 3000)
        ccases = []
        for i in range(m):
            rng = ctx.rng('chunk', i)
            c = rng.choice([1, 2, 3, 4, 5, 8, 12])
            nn = max(0, rng.randint(0, 5) * c + rng.choice([0, 0, 1, -1, 3]))
            xs = [rng.randint(0, 99) for _ in range(nn)]
            ccases.append({'op': 'chunked', 'xs': xs, 'c': c, 'gen': rng.random() < 0.5})
        mout = ctx.model.many([{'m': 'parmap', 'op': 'chunked', 'xs': cc['xs'], 'c': cc['c']} for cc in ccases])
        for i, (cc, mo) in enumerate(zip(ccases, mout)):
            arg = iter(cc['xs']) if cc['gen'] else cc['xs']
            if i % 2 == 0:
                # the caller keeps every chunk until the iteration is over (list(chunked(...)), zip over chunks, chunks handed
                # on as work items): a chunk must not change after it was yielded
                held = list(it.chunked(arg, cc['c']))
                got = [list(ch) for ch in held]
                ctx.count('chunked:held')
            else:
                got = [list(ch) for ch in it.chunked(arg, cc['c'])]
                ctx.count('chunked:streamed')
            ctx.case(cc, nontrivial=len(cc['xs']) > cc['c'])
            ctx.count('chunked')
            if {'chunks': got} != mo:
                ctx.diverge('chunked', cc, got, mo)
            flat = [x for ch in got for x in ch]
            sizes_ok = all(len(ch) == cc['c'] for ch in got[:-1]) and (not got or 0 < len(got[-1]) <= cc['c'])
            if flat != cc['xs'] or not sizes_ok:
                ctx.fail('chunked does not split into consecutive chunks of the requested size', cc, got)
    finally:
        uninstall()
    real_pool_histories(ctx)
    ambient_probe(ctx)


def real_pool_histories(ctx):
    """sequences of calls in ONE process on the real thread pool (no controller): every call is `map(f, xs)` again — whatever the earlier
    calls were, also after a call in which `f` raised, with the same or another thread count"""
    import taskchain.utils.threading as th
    import taskchain.utils.iter as it
    hangs = 0
    for h in range(ctx.n(12, 120)):
        if hangs >= 2:
            break               # calls that do not return: two witnesses are enough
        rng = ctx.rng('real-pool', h)
        hist = []
        for k in range(rng.randint(2, 5)):
            n = rng.choice([0, 1, 3, 7, 12, 25])
            xs = [rng.randint(-9, 9) for _ in range(n)]
            hist.append({'xs': xs, 'threads': rng.choice([2, 2, 3, 4]), 'c': rng.choice([1, 3, 5, 20]), 'which': rng.choice(['new', 'new', 'old']),
                         'fail': sorted({rng.choice(xs)}) if xs and rng.random() < 0.4 else [], 'sort': True,
                         'boom': rng.choice(['plain', 'runtime', 'notimpl'])})
        # (some histories map over the SAME list object twice)
        shared = [rng.randint(-9, 9) for _ in range(rng.choice([2, 5, 12]))]
        keep = list(shared)
        for c in hist[:2]:
            if rng.random() < 0.5:
                c['xs'] = shared; c['fail'] = []
        case = {'history': [dict(c, xs=list(c['xs'])) for c in hist], 'executor': 'real'}
        ctx.case(case, nontrivial=True); ctx.count('real-pool-history')
        for k, c in enumerate(hist):
            def f(x, c=c):
                if x in c['fail']:
                    raise BOOMS[c.get('boom', 'plain')](x)
                return 3 * x + 1
            box = {}

            def call(c=c, f=f):
                try:
                    arg = c['xs'] if c['xs'] is shared else list(c['xs'])
                    if c['which'] == 'new':
                        box['out'] = {'ok': list(th.parallel_map(f, arg, threads=c['threads'], sort=True, chunksize=c['c']))}
                    else:
                        box['out'] = {'ok': list(it.parallel_map(f, arg, threads=c['threads']))}
                except (Boom, BoomRuntime, BoomNotImpl) as e:
                    box['out'] = {'raise': e.args[0]}
                except Exception as e:  # noqa
                    box['out'] = {'error': f'{type(e).__name__}: {e}'[:120]}
            _with_alarm(call, 30)
            out = box.get('out', {'error': 'no result within 30 s'})
            ctx.count('real-pool-call')
            hangs += 'out' not in box
            if c['fail']:
                if 'raise' not in out or out['raise'] not in c['fail']:
                    ctx.fail('exception of f not propagated', dict(case, call_index=k), out); break
            elif out != {'ok': [3 * x + 1 for x in (keep if c['xs'] is shared else c['xs'])]}:
                ctx.fail('parallel_map(f, xs) != [f(x) for x in xs] after earlier calls in the same process', dict(case, call_index=k), out); break
            if shared != keep:
                ctx.fail('parallel_map changed the list it was given', dict(case, call_index=k), {'list_after_the_call': list(shared)}); break


def ambient_probe(ctx):
    """(i) two threads, each with an event loop of its own, mapping at the same time on the real thread pool: each gets its own map(f, xs);
    (ii) a process in which a module named `ipykernel` happens to be imported (a library pulled it in) but no notebook is running: the
    progress bar is presentation only — `parallel_map` still returns map(f, xs)"""
    import sys
    import time
    import types
    import taskchain.utils.threading as th
    import taskchain.utils.iter as it
    for k in range(ctx.n(3, 12)):
        rng = ctx.rng('ambient', k)
        xs = [rng.randint(-20, 20) for _ in range(rng.choice([6, 11, 25]))]
        box = {}
        started = threading.Event()

        def caller(tag, f, which):
            asyncio.set_event_loop(asyncio.new_event_loop())
            try:
                box[tag] = {'ok': list((th.parallel_map if which == 'new' else it.parallel_map)(f, list(xs), threads=3))}
            except Exception as e:      # noqa
                box[tag] = {'error': f'{type(e).__name__}: {e}'[:120]}
            finally:
                asyncio.get_event_loop().close()

        def slow(x):
            started.set(); time.sleep(0.01); return x * x

        def quick(x):
            return x + 1
        which = rng.choice(['new', 'new', 'old'])
        ta = threading.Thread(target=caller, args=('A', slow, which)); tb = threading.Thread(target=caller, args=('B', quick, which))
        ta.start(); started.wait(5); tb.start(); ta.join(25); tb.join(25)
        case = {'probe': 'two threads mapping at the same time', 'xs': xs, 'which': which}
        ctx.case(case, nontrivial=True); ctx.count('ambient:two-threads')
        if box.get('A') != {'ok': [x * x for x in xs]} or box.get('B') != {'ok': [x + 1 for x in xs]}:
            ctx.fail('parallel_map(f, xs) != [f(x) for x in xs] when two threads map at the same time', case, box)
            if ta.is_alive() or tb.is_alive():
                break           # calls that do not return: one witness is enough
    # (iii) values are values: a function that RETURNS exception objects (collected errors of a batch) gets them back, in order
    for which in ('new', 'old'):
        errs = [ValueError(i) if i % 2 else i for i in range(9)]
        case = {'probe': 'f returns exception objects as values', 'which': which}
        ctx.case(case); ctx.count('ambient:exception-values')
        box = {}

        def call_e():
            try:
                box['out'] = list((th.parallel_map if which == 'new' else it.parallel_map)(lambda i: errs[i], list(range(9)), threads=3))
            except Exception as e:      # noqa
                box['out'] = f'{type(e).__name__}: {e}'[:80]
        _with_alarm(call_e, 30)
        if not (isinstance(box.get('out'), list) and len(box['out']) == 9 and all(a is b for a, b in zip(box['out'], errs))):
            ctx.fail('parallel_map(f, xs) != [f(x) for x in xs] when f returns exception objects', case, str(box.get('out'))[:200])
    fake = 'ipykernel' not in sys.modules
    if fake:
        sys.modules['ipykernel'] = types.ModuleType('ipykernel')
    try:
        for which in ('old', 'new'):
            xs = list(range(7))
            case = {'probe': 'ipykernel imported, no notebook', 'which': which}
            ctx.case(case); ctx.count('ambient:ipykernel-imported')
            box = {}

            def call():
                try:
                    box['out'] = {'ok': list((th.parallel_map if which == 'new' else it.parallel_map)(lambda x: 2 * x, list(xs), threads=2))}
                except Exception as e:      # noqa
                    box['out'] = {'error': f'{type(e).__name__}: {e}'[:120]}
            import contextlib, gc, io
            with contextlib.redirect_stderr(io.StringIO()):
                _with_alarm(call, 30)
                gc.collect()            # (a half-built progress bar complains when it is collected: here, not at interpreter exit)
            if box.get('out') != {'ok': [2 * x for x in xs]}:
                ctx.fail('parallel_map(f, xs) != [f(x) for x in xs] in a process that has imported ipykernel', case, box.get('out'))
    finally:
        if fake:
            sys.modules.pop('ipykernel', None)


def search(ctx, divergences):
    run(ctx, search=True)


def sanity(ctx):
    from tcv.core import BrokenCheck
    c = ctx.counts
    if c.get('raises', 0) < 0.05 * max(1, c.get('no_raise', 0)) or c.get('len>c', 0) < 0.2 * ctx.evaluations / 2:
        raise BrokenCheck(f'generator distribution collapsed: {c}')
