"""C01 — a chain never returns a stale or foreign result.

Machine level: histories over several configurations (different parameter values at random places, contexts with global and
per-namespace overrides, the same file mounted under two namespaces) on ONE data directory with value requests in any order,
injected run failures, forcing, simulated and real interpreter restarts.  Every value the real code returns is compared with
(a) the Lean store machine and (b) the reference evaluation of the task's provenance term from the CURRENT configuration."""
import concurrent.futures
import pathlib

from tcv import gen, machine, pipeline as pl
from tcv.quiet import quiet

RULE = ('seeded histories (8-30 operations, 2-4 configuration variants incl. contexts / for_namespaces / double mounting, all data '
        'kinds) with value requests, failing runs, task/chain forcing, restarts; a share of them with every segment between '
        'restarts in a fresh interpreter; compared per operation with the Lean store machine (values as provenance terms, run log, '
        'forced/in-memory/stored sets) and with the reference provenance term of the current configuration; '
        'distinct = distinct (pipeline, variants, op list); non-trivial = at least 2 objects and 5 operations')
ASSUMPTIONS = ['task computations are deterministic functions of their declared parameters and inputs (generated tasks return provenance terms)',
               'parameter mode (name mode: one configuration per data directory, no file mounted twice); user-defined repr() injective; sha256[:32] collision-free on the occurring key texts',
               'K1 (quotes in strings) is excluded from these generators (covered by C03); K3 (== default) is in the domain and reported as KNOWN-FINDING']
TRUSTED = ['chain structure (objects, edges, locations, used inputs) extracted from the implementation; its correctness is C08/C09']


# (all kinds, and results streamed through GeneratedDataLazy whose failing runs fail while the result is written)
KINDS01 = gen.KINDS_P + ['genlazy', 'genlazy']


def value_oracle(ctx, case, hist, maps, spec):
    for r in hist['rec']:
        if r['op']['op'] != 'value' or r.get('skipped'):
            continue
        if r.get('raised'):
            if not r['op']['failing']:
                ctx.fail('value request raised although no run was told to fail', case, {'op': r['op'], 'exception': r.get('unexpected')})
            continue
        ctx.count('values-compared')
        if isinstance(r['value'], dict) and r['value'].get('t') == '__EMPTY__' and machine.class_of(r['task'], spec)['kind'] == 'genempty':
            continue        # an empty generated sequence: nothing to compare but emptiness
        if r['value'] != r['expected']:
            known = 'K3' if machine.k3_in_closure(r['task'], spec) else None
            ctx.fail('a chain returned a value that is not what the task computes from its current configuration (stale or foreign result)',
                     case, {'op': r['op'], 'returned': r['value'], 'expected': r['expected']}, known=known)


def subprocess_history(args):
    spec, variants, ops, root = args
    return machine.run_segments_subprocess(spec, variants, ops, root)


def k3_witness(ctx):
    """the recorded K3 witness must still fail (else the finding is stale)"""
    from taskchain import Config
    from tcv import gen
    root = ctx.tmpdir() / 'k3'
    spec = {'classes': {'K0': {'name': 'w', 'group': '', 'params': [{'name': 'flag', 'default': 0, 'dpd': True}], 'inputs': [], 'kind': 'json', 'run_args': ['flag']}},
            'files': {}, 'main': None}
    b = pl.materialize(spec, root, modname=gen.fresh_modname())
    mod = b.module()
    cls = getattr(mod, pl.pyname('K0'))
    v0 = Config(root / 'd', name='c0', data={'tasks': [cls], 'flag': 0}).chain().tasks['w'].value
    v1 = Config(root / 'd', name='c1', data={'tasks': [cls], 'flag': False}).chain().tasks['w'].value
    ctx.case({'witness': 'K3'})
    if v1['p']['flag'] is not False:
        ctx.fail('K3 witness', {'witness': 'K3'}, known='K3')
    else:
        ctx.notes['K3'] = 'witness no longer fails: finding K3 appears repaired'
    b.cleanup_module()


def name_mode_probe(ctx):
    """the same promise in name mode (`parameter_mode=False`), each configuration on its own fresh data directory (there the key is the
    config's name, so two configurations must not share a directory — by design): the chain's edges are the declared ones (executable
    reference builder) and every value is the reference evaluation of the task's provenance term.  Families without a file mounted
    twice (in name mode a twice-mounted file shares its task objects across the mounts)."""
    root = ctx.tmpdir()
    for h in range(ctx.n(24, 160)):
        rng = ctx.rng('name-mode', h)
        # (every second family: nested namespaces only, files rarely mounted twice — the shapes the name-mode oracle can judge)
        spec, variants = machine.gen_family(rng, rich=True, kinds=[k for k in machine.gen.KINDS_P if k not in ('dir', 'continues')],
                                            ns_pool=['m::k', 'z::n', 'm::k', 'n'] if h % 2 else None, double_p=0.15 if h % 2 else 0.6)
        b = pl.materialize(spec, root / f'nm{h}' / 'src', modname=spec['module'])
        mod = b.module()
        mod.RUNLOG.clear(); mod.FAIL.clear(); mod.DONE.clear()
        for vi, v in enumerate(variants[:3]):
            used = [u.split(' as ')[0] for u in spec['files']['main_' + v['file']].get('uses', [])]
            if len(set(used)) < len(used):
                ctx.count('name-mode:double-mount-skipped'); continue
            case = {'probe': 'name mode', 'module': spec['module'], 'variant': v['file'], 'spec': spec, 'variants_full': variants}
            chain, err = pl.build(b, root / f'nm{h}' / f'd{vi}', main='main_' + v['file'], context=v.get('context_disk') or v.get('context'),
                                  parameter_mode=False)
            pchain, perr = pl.build(b, root / f'nm{h}' / f'p{vi}', main='main_' + v['file'], context=v.get('context_disk') or v.get('context'))
            ctx.case({k: x for k, x in case.items() if k not in ('spec', 'variants_full')}, nontrivial=chain is not None)
            if chain is None:
                ctx.count('name-mode:construction-error')
                if pchain is not None and err != 'bad_type':
                    ctx.diverge('family:construction(name mode)', case, err, 'constructible in parameter mode')
                continue
            ctx.count('name-mode:chains')
            w = machine.wiring_check(spec, v, b, chain)
            if w:
                ctx.fail('a chain wires a task to other inputs than its configuration declares (foreign upstream)', case, dict(w, mode='name'))
                continue
            for name, task in chain.tasks.items():
                kind = machine.class_of(task, spec)['kind']
                try:
                    value = mod.unwrap(kind, task.value)
                except Exception as e:  # noqa
                    ctx.fail('value request raised although no run was told to fail', case, {'task': name, 'exception': f'{type(e).__name__}: {e}'[:300]})
                    break
                ctx.count('name-mode:values-compared')
                if isinstance(value, dict) and value.get('t') == '__EMPTY__':
                    continue
                exp = machine.expected_term(task, spec, variant=v, name=name)
                if value != exp:
                    ctx.fail('a chain returned a value that is not what the task computes from its current configuration (stale or foreign result)',
                             case, {'task': name, 'mode': 'name', 'returned': value, 'expected': exp},
                             known='K3' if machine.k3_in_closure(task, spec) else None)
                    break
        b.cleanup_module()


def mutable_default_probe(ctx):
    """a task whose run uses a list- or dict-valued parameter as scratch space (appends in place), the parameter left at its declared
    default: every chain built afterwards in the same process — same or another config, each on its own data directory — still computes
    from the DECLARED default; the directed part also mounts the class twice in one chain"""
    root = ctx.tmpdir()
    for h in range(ctx.n(8, 60)):
        rng = ctx.rng('mutable-default', h)
        dflt = rng.choice([[0], [], {'k': [1]}, [[1], {'a': 2}]])
        spec = {'classes': {'K0': {'name': 'acc', 'group': '', 'params': [{'name': 'x'}, {'name': 'acc_', 'default': dflt}], 'inputs': [], 'kind': 'json',
                                   'run_args': ['x']},
                            'K1': {'name': 'down', 'group': '', 'params': [], 'inputs': [{'by': 'class', 'ref': 'K0'}], 'kind': rng.choice(['json', 'memory']),
                                   'run_args': ['acc'], 'in_kinds': {'acc': 'json'}}},
                'files': {'p.json': {'tasks': ['K0', 'K1'], 'x': 1}, 'q.json': {'tasks': ['K0', 'K1'], 'x': 2},
                          'main_v0.json': {'uses': ['@cfg/p.json as n1', '@cfg/q.json as n2']}, 'main_v1.json': {'uses': ['@cfg/q.json']}},
                'main': 'main_v0.json', 'module': gen.fresh_modname()}
        variants = [{'file': 'v0.json', 'data': {}, 'ns': None, 'context': None}, {'file': 'v1.json', 'data': {}, 'ns': None, 'context': None}]
        b = pl.materialize(spec, root / f'md{h}' / 'src', modname=spec['module'])
        mod = b.module()
        mod.RUNLOG.clear(); mod.FAIL.clear(); mod.DONE.clear()
        case = {'probe': 'mutable declared default used as scratch space', 'default': dflt, 'module': spec['module']}
        ctx.case(case, nontrivial=True); ctx.count('mutable-default-probe')
        order = [0, 1, 0] if h % 2 else [1, 0, 1]
        for step, vi in enumerate(order):
            chain, err = pl.build(b, root / f'md{h}' / f'd{step}', main=f'main_v{vi}.json', parameter_mode=bool(h % 3))
            if chain is None:
                ctx.fail('a chain over a class with a mutable default cannot be built', case, err); break
            bad = None
            for name, task in chain.tasks.items():
                if not name.endswith('down'):
                    continue
                got = mod.unwrap(machine.class_of(task, spec)['kind'], task.value)
                xval = 2 if (vi == 1 or name.startswith('n2')) else 1
                exp_up = {'t': 'acc', 'p': {'x': xval, 'acc_': dflt}, 'i': []}
                if got.get('i') != [['acc', exp_up]]:
                    bad = {'chain_number': step, 'task': name, 'returned_input': got.get('i'), 'expected_input': [['acc', exp_up]]}
                    break
            if bad:
                ctx.fail('a chain returned a value that is not what the task computes from its current configuration (stale or foreign result)',
                         case, bad)
                break
        b.cleanup_module()


def name_mode_parts_probe(ctx):
    """name mode: the parts of ONE multi-config file (`multi.json#a`, `multi.json#b`) that declare the same task classes, mounted under
    two namespaces of one chain (or built one after the other on one data directory): every task returns what ITS part configures"""
    root = ctx.tmpdir()
    for h in range(ctx.n(8, 60)):
        rng = ctx.rng('name-mode-parts', h)
        xa, xb = rng.sample([1, 2, 'a', [1], {'k': 2}, None, 0.5], 2)
        spec = {'classes': {'K0': {'name': 'up', 'group': rng.choice(['', 'g']), 'params': [{'name': 'x'}], 'inputs': [], 'kind': 'json', 'run_args': ['x']},
                            'K1': {'name': 'down', 'group': '', 'params': [], 'inputs': [{'by': 'class', 'ref': 'K0'}], 'kind': rng.choice(['json', 'numpy']),
                                   'run_args': ['up'], 'in_kinds': {'up': 'json'}}},
                'files': {'multi.json': {'configs': {'a': {'tasks': ['K0', 'K1'], 'x': xa, 'main_part': True}, 'b': {'tasks': ['K0', 'K1'], 'x': xb}}},
                          'main_both.json': {'uses': ['@cfg/multi.json#a as n1', '@cfg/multi.json#b as n2']},
                          'main_a.json': {'uses': ['@cfg/multi.json#a']}, 'main_b.json': {'uses': ['@cfg/multi.json#b' + rng.choice(['', ' as n2'])]}},
                'main': 'main_both.json', 'module': gen.fresh_modname()}
        b = pl.materialize(spec, root / f'nmp{h}' / 'src', modname=spec['module'])
        mod = b.module()
        mod.RUNLOG.clear(); mod.FAIL.clear(); mod.DONE.clear()
        case = {'probe': 'name mode, parts of one multi-config file', 'x': [xa, xb], 'files': spec['files']}
        ctx.case(case, nontrivial=True); ctx.count('name-mode-parts-probe')
        up = ('g:' if spec['classes']['K0']['group'] else '') + 'up'
        plan = [('main_both.json', {'n1::down': xa, 'n2::down': xb})] if h % 2 == 0 else \
               [('main_a.json', {'down': xa}), ('main_b.json', {k: xb for k in ('down', 'n2::down')})]
        for main, want in plan:
            chain, err = pl.build(b, root / f'nmp{h}' / 'data', main=main, parameter_mode=False)
            if chain is None:
                ctx.fail('a name-mode chain over parts of one file cannot be built', case, {'main': main, 'error': err}); break
            bad = None
            for name, xval in want.items():
                if name not in chain.tasks:
                    continue
                t = chain.tasks[name]
                got = mod.unwrap(machine.class_of(t, spec)['kind'], t.value)
                exp = {'t': 'down', 'p': {}, 'i': [['up', {'t': up, 'p': {'x': xval}, 'i': []}]]}
                if got != exp:
                    bad = {'main': main, 'task': name, 'returned': got, 'expected': exp}
                    break
            if bad:
                ctx.fail('a chain returned a value that is not what the task computes from its current configuration (stale or foreign result)',
                         case, bad)
                break
        b.cleanup_module()


def lazy_failure_probe(ctx):
    """a result streamed record by record (GeneratedDataLazy) whose run fails AFTER the first record is out: the next chain on the same data
    directory computes the task again and returns the complete value — nothing of the broken attempt is ever served"""
    root = ctx.tmpdir()
    for h in range(ctx.n(6, 40)):
        rng = ctx.rng('lazy-failure', h)
        x = gen.gen_value(rng, 0, 2, gen.SAFE, gen.SAFE)
        spec = {'classes': {'K0': {'name': 'rows', 'group': rng.choice(['', 'g']), 'params': [{'name': 'x'}], 'inputs': [], 'kind': 'genlazy', 'run_args': ['x']},
                            'K1': {'name': 'down', 'group': '', 'params': [], 'inputs': [{'by': 'class', 'ref': 'K0'}], 'kind': 'json',
                                   'run_args': ['rows'], 'in_kinds': {'rows': 'genlazy'}}},
                'files': {'main_v0.json': {'tasks': ['K0', 'K1'], 'x': x}}, 'main': 'main_v0.json', 'module': gen.fresh_modname()}
        b = pl.materialize(spec, root / f'lz{h}' / 'src', modname=spec['module'])
        mod = b.module()
        mod.RUNLOG.clear(); mod.FAIL.clear(); mod.DONE.clear()
        up = ('g:' if spec['classes']['K0']['group'] else '') + 'rows'
        case = {'probe': 'streamed result, run fails after the first record', 'x': x, 'module': spec['module']}
        ctx.case(case, nontrivial=True); ctx.count('lazy-failure-probe')
        data = root / f'lz{h}' / 'data'
        c1, err = pl.build(b, data, main='main_v0.json')
        mod.FAIL.add(up)
        try:
            _ = mod.unwrap('json', c1.tasks['down'].value) if h % 2 else mod.unwrap('genlazy', c1.tasks[up].value)
            ctx.fail('a value request succeeded although the run of an upstream task failed', case, {})
        except mod.RunFailure:
            pass
        except Exception as e:      # noqa
            ctx.fail('value request raised something else than the failure of the run', case, f'{type(e).__name__}: {e}'[:200])
        finally:
            mod.FAIL.clear()
        c2, err = pl.build(b, data, main='main_v0.json')
        exp_up = {'t': up, 'p': {'x': machine.plain(x)}, 'i': []}
        try:
            got = mod.unwrap('genlazy', c2.tasks[up].value)
            got_down = mod.unwrap('json', c2.tasks['down'].value)
        except Exception as e:      # noqa
            ctx.fail('value request raised although no run was told to fail', case, f'{type(e).__name__}: {e}'[:200]); b.cleanup_module(); continue
        if got != exp_up or got_down != {'t': 'down', 'p': {}, 'i': [['rows', exp_up]]}:
            ctx.fail('a chain returned a value that is not what the task computes from its current configuration (stale or foreign result)',
                     case, {'returned': [got, got_down], 'expected_upstream': exp_up})
        b.cleanup_module()


def foreign_result_probes(ctx):
    """two directed shapes in which a second chain must not be served the first one's result: (i) a parameter whose value is a plain object
    (no `repr` of its own) with other state; (ii) name mode, two config files on one data directory whose names differ only after their
    last dot (`exp.v1.json`, `exp.v2.json`)"""
    from taskchain import Config
    root = ctx.tmpdir()
    spec = {'classes': {'K0': {'name': 'o', 'group': '', 'params': [{'name': 'x'}], 'inputs': [], 'kind': 'json', 'run_args': ['x']}},
            'files': {'exp.v1.json': {'tasks': ['K0'], 'x': 1}, 'exp.v2.json': {'tasks': ['K0'], 'x': 2}, 'exp.json': {'tasks': ['K0'], 'x': 3}},
            'main': 'exp.v1.json', 'module': gen.fresh_modname()}
    b = pl.materialize(spec, root / 'fr' / 'src', modname=spec['module'])
    mod = b.module()
    mod.RUNLOG.clear(); mod.FAIL.clear(); mod.DONE.clear()
    cls = getattr(mod, pl.pyname('K0'))
    for k in range(ctx.n(3, 12)):
        order = [['exp.v1.json', 'exp.v2.json', 'exp.json'], ['exp.json', 'exp.v2.json', 'exp.v1.json'], ['exp.v2.json', 'exp.v1.json']][k % 3]
        case = {'probe': 'name mode, config names differing after the last dot', 'order': order}
        ctx.case(case, nontrivial=True); ctx.count('foreign-result-probe:dotted-names')
        for main in order:
            chain, err = pl.build(b, root / 'fr' / f'data{k}', main=main, parameter_mode=False)
            want = spec['files'][main]['x']
            got = mod.unwrap('json', chain.tasks['o'].value)
            if got != {'t': 'o', 'p': {'x': want}, 'i': []}:
                ctx.fail('a chain returned a value that is not what the task computes from its current configuration (stale or foreign result)',
                         case, {'config': main, 'returned': got, 'expected_x': want}); break

    # (iii) a config file rewritten in place — same length, modification time kept — between two chains: the second follows the file
    import json as _json
    import os as _os
    f_ = b.path('exp.json')
    for k in range(ctx.n(2, 8)):
        case = {'probe': 'config file rewritten in place', 'round': k}
        ctx.case(case, nontrivial=True); ctx.count('foreign-result-probe:rewritten-file')
        for want in (4 + k % 5, 5 + k % 5):
            st = f_.stat()
            d_ = _json.loads(f_.read_text()); d_['x'] = want
            f_.write_text(_json.dumps(d_))
            _os.utime(f_, ns=(st.st_atime_ns, st.st_mtime_ns))
            chain, err = pl.build(b, root / 'fr' / f'rwdata{k}', main='exp.json')
            got = mod.unwrap('json', chain.tasks['o'].value)
            if got != {'t': 'o', 'p': {'x': want}, 'i': []}:
                ctx.fail('a chain returned a value that is not what the task computes from its current configuration (stale or foreign result)',
                         case, {'file_says_x': want, 'returned': got}); break
    # (iv) task classes made by a factory: same module, same qualified name, different declarations
    from taskchain import Task, Parameter

    def make(default):
        class Made(Task):
            class Meta:
                name = 'made'
                parameters = [Parameter('p', default=default)]

            def run(self, p) -> dict:
                return {'p': p}
        return Made
    for k in range(ctx.n(2, 8)):
        case = {'probe': 'factory-made task classes', 'defaults': [k, k + 1]}
        ctx.case(case, nontrivial=True); ctx.count('foreign-result-probe:factory-classes')
        vals = [Config(root / 'fr' / f'facdata{k}', name='c', data={'tasks': [make(dv_)]}).chain().tasks['made'].value for dv_ in (k, k + 1)]
        if vals != [{'p': k}, {'p': k + 1}]:
            ctx.fail('a chain returned a value that is not what the task computes from its current configuration (stale or foreign result)',
                     case, {'returned': vals})

    # (vi) a directory result computed where a killed earlier run left its work directory: the chain returns what THIS run wrote
    dspec = {'classes': {'K0': {'name': 'dd', 'group': '', 'params': [{'name': 'x'}], 'inputs': [], 'kind': 'dir', 'run_args': ['x']}},
             'files': {'main.json': {'tasks': ['K0'], 'x': 1}}, 'main': 'main.json', 'module': gen.fresh_modname()}
    db = pl.materialize(dspec, root / 'fr' / 'dirsrc', modname=dspec['module'])
    dmod = db.module()
    for k in range(ctx.n(2, 6)):
        case = {'probe': 'directory result, work directory of a killed run left behind', 'round': k}
        ctx.case(case, nontrivial=True); ctx.count('foreign-result-probe:leftover-work-directory')
        chain, err = pl.build(db, root / 'fr' / f'dirdata{k}', main='main.json')
        t = chain.tasks['dd']
        key = t.name_for_persistence
        left = root / 'fr' / f'dirdata{k}' / 'dd' / f'{key}_tmp'
        left.mkdir(parents=True, exist_ok=True)
        (left / 'run-0.marker').write_text('dead'); (left / 'shard-dead.bin').write_bytes(b'partial')
        got = dmod.unwrap('dir', t.value)
        names = sorted(p_.name for p_ in pathlib.Path(t.value).iterdir()) if isinstance(t.value, (str, pathlib.Path)) else None
        if got != {'t': 'dd', 'p': {'x': 1}, 'i': []} or (names is not None and 'shard-dead.bin' in names):
            ctx.fail('a chain returned a value that is not what the task computes from its current configuration (stale or foreign result)',
                     case, {'returned': got, 'files': names})
    db.cleanup_module()
    # (vii) inputs read BY INDEX inside run (the order of the declaration): an absent optional input declared first keeps its place
    from taskchain.parameter import InputTaskParameter

    class First(Task):
        class Meta:
            name = 'first'

        def run(self) -> int:
            return 11

    class Second(Task):
        class Meta:
            name = 'second'

        def run(self) -> int:
            return 22

    class ByIndex(Task):
        class Meta:
            name = 'byindex'
            input_tasks = [First, Second]
            parameters = [InputTaskParameter('absent_optional', default='dflt')]

        def run(self) -> list:
            return [self.input_tasks[i].value if hasattr(self.input_tasks[i], 'value') else self.input_tasks[i] for i in range(3)]

    class ByIndexOptFirst(Task):
        class Meta:
            name = 'byindex2'
            input_tasks = ['absent_required_not']
            parameters = []

        def run(self) -> list:
            return []
    case = {'probe': 'inputs read by index, an absent optional input among them'}
    ctx.case(case, nontrivial=True); ctx.count('foreign-result-probe:inputs-by-index')
    try:
        ch = Config(root / 'fr' / 'byindex', name='c', data={'tasks': [First, Second, ByIndex]}).chain()
        t = ch.tasks['byindex']
        by_name = [t.input_tasks[n].value if hasattr(t.input_tasks[n], 'value') else t.input_tasks[n] for n in t.input_tasks]
        got = t.value
        if got != by_name:
            ctx.fail('a chain returned a value that is not what the task computes from its current configuration (stale or foreign result)',
                     case, {'inputs_by_index': got, 'inputs_in_declared_order': by_name})
    except Exception as e:      # noqa
        ctx.fail('a task that reads its inputs by index cannot be computed', case, f'{type(e).__name__}: {e}'[:200])
    # (v) a typed parameter whose value arrives as text (an override assembled from command-line arguments): refused at construction —
    #     never a chain that computes from, or serves the result stored for, ANOTHER value (`'false'` is not False, and certainly not True)
    def typed(dtype):
        class Typed(Task):
            class Meta:
                name = 'typed'
                parameters = [Parameter('flag', dtype=dtype)]

            def run(self, flag) -> dict:
                return {'flag': flag}
        return Typed
    for k, (dtype, good, text) in enumerate([(bool, True, 'false'), (bool, False, 'False'), (int, 7, '8'), (float, 1.5, '2.5'), (bool, True, '0')]):
        case = {'probe': 'typed parameter given a string', 'dtype': dtype.__name__, 'stored_for': good, 'text': text}
        ctx.case(case, nontrivial=True); ctx.count('foreign-result-probe:typed-text')
        cls_t = typed(dtype)
        v0 = Config(root / 'fr' / f'typed{k}', name='c', data={'tasks': [cls_t], 'flag': good}).chain().tasks['typed'].value
        try:
            v1 = Config(root / 'fr' / f'typed{k}', name='c', data={'tasks': [cls_t], 'flag': text}).chain().tasks['typed'].value
        except (ValueError, TypeError):
            continue
        if v1 != {'flag': text}:
            ctx.fail('a chain returned a value that is not what the task computes from its current configuration (stale or foreign result)',
                     case, {'returned': v1, 'configured': text})

    class Knob:
        def __init__(self, v):
            self.v = v
    for k in range(ctx.n(3, 12)):
        case = {'probe': 'plain object as parameter value', 'states': [k, k + 10]}
        ctx.case(case, nontrivial=True); ctx.count('foreign-result-probe:plain-object')
        for st in (k, k + 10):
            ch = Config(root / 'fr' / f'objdata{k}', name='c', data={'tasks': [cls], 'x': Knob(st)}).chain()
            t = ch.tasks['o']
            _ = t.value
            if t.params['x'].v != st:
                ctx.fail('a task holds another parameter object than its config gave it', case, {}); break
            # the value of such a task is judged by WHICH object's state went into it: the run is observed, not the (unserialisable) term
        runs = [r for r in mod.RUNLOG if r[0] == 'o']
        if len({r[1] for r in runs[-2:]}) < 2 or len(runs) < 2:
            ctx.fail('a chain returned a value that is not what the task computes from its current configuration (stale or foreign result)',
                     case, {'what': 'the second chain did not run the task (or ran it under the key of the first): it was served the result '
                                    'computed for an object with other state', 'runs': [list(map(str, r[:2])) for r in runs[-2:]]})
    b.cleanup_module()


def run(ctx):
    quiet()
    machine.run_batch(ctx, ctx.n(70, 900), allow={'fail', 'force', 'restart'}, label='c01', oracle=value_oracle, rich=True, kinds=KINDS01)
    # ---- real interpreter restarts
    n = ctx.n(6, 60)
    root = ctx.tmpdir()
    jobs = []
    for h in range(n):
        rng = ctx.rng('proc', h)
        spec, variants = machine.gen_family(rng, rich=True, kinds=KINDS01)
        ops = machine.gen_ops(rng, spec, variants, rng.randint(10, 24), {'fail', 'force', 'restart'})
        # make sure there are restarts
        k = len(ops) // 2
        ops.insert(k, {'op': 'restart'}); ops.insert(k + 1, {'op': 'build', 'variant': rng.randrange(len(variants))})
        jobs.append((spec, variants, ops, root / f'proc{h}'))
    with concurrent.futures.ThreadPoolExecutor(max_workers=8) as ex:
        results = list(ex.map(subprocess_history, jobs))
    reqs, ios = [], []
    for (spec, variants, ops, r), segs in zip(jobs, results):
        req, io = machine.assemble(segs)
        reqs.append(req); ios.append(io)
    outs = ctx.model.many(reqs)
    for (spec, variants, ops, r), segs, io, mo in zip(jobs, results, ios, outs):
        case = {'module': spec['module'], 'ops': ops, 'interpreters': len(segs), 'spec': spec, 'variants_full': variants}
        if any(s['errors'] for s in segs):
            ctx.count('construction-error')
            errs = [e for s in segs for e in s['errors']]
            if any(e != 'bad_type' for e in errs):
                ctx.case({'module': spec['module'], 'ops': ops}); ctx.diverge('family:construction', case, errs, 'constructible')
            continue
        ctx.case({k: v for k, v in case.items() if k not in ('spec', 'variants_full')}, nontrivial=True)
        ctx.count('real-restart-history'); ctx.count('interpreters', len(segs))
        for k, (a, b) in enumerate(zip(io, mo.get('outs', []))):
            b = machine.canon_model_out(b, a)
            a = {kk: vv for kk, vv in a.items() if not kk.startswith('_')}
            if a != b:
                ctx.diverge('store-machine(restarts)', case, {'op_index': k, 'impl': a}, {'model': b}); break
        for s in segs:
            for w in s.get('wiring', []):
                ctx.fail('a chain wires a task to other inputs than its configuration declares (foreign upstream)', case, w)
            for u in s['unexpected']:
                ctx.fail('operation raised an unexpected exception', case, u)
            for v in s['values']:
                if v['raised']:
                    if not v['op']['failing']:
                        ctx.fail('value request raised although no run was told to fail', case, v)
                    continue
                ctx.count('values-compared')
                if isinstance(v['value'], dict) and v['value'].get('t') == '__EMPTY__':
                    continue
                if v['value'] != v['expected']:
                    ctx.fail('a chain returned a value that is not what the task computes from its current configuration (stale or foreign result)',
                             case, v, known='K3' if v['k3'] else None)
    name_mode_probe(ctx)
    mutable_default_probe(ctx)
    name_mode_parts_probe(ctx)
    lazy_failure_probe(ctx)
    foreign_result_probes(ctx)
    k3_witness(ctx)


def search(ctx, divergences):
    run(ctx)


def sanity(ctx):
    from tcv.core import BrokenCheck
    c = ctx.counts
    # (cases now include the directed probes, which request few values each: thresholds with a wide margin)
    if c.get('values-compared', 0) < 1.5 * ctx.evaluations or c.get('op:value', 0) < 1.5 * ctx.evaluations:
        raise BrokenCheck(f'generator distribution collapsed: {c}')
