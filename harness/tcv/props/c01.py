"""C01 — a chain never returns a stale or foreign result.

Machine level: histories over several configurations (different parameter values at random places, contexts with global and
per-namespace overrides, the same file mounted under two namespaces) on ONE data directory with value requests in any order,
injected run failures, forcing, simulated and real interpreter restarts.  Every value the real code returns is compared with
(a) the Lean store machine and (b) the reference evaluation of the task's provenance term from the CURRENT configuration."""
import concurrent.futures

from tcv import gen, machine, pipeline as pl
from tcv.quiet import quiet

RULE = ('seeded histories (8-30 operations, 2-4 configuration variants incl. contexts / for_namespaces / double mounting, all data '
        'kinds) with value requests, failing runs, task/chain forcing, restarts; a share of them with every segment between '
        'restarts in a fresh interpreter; compared per operation with the Lean store machine (values as provenance terms, run log, '
        'forced/in-memory/stored sets) and with the reference provenance term of the current configuration; '
        'distinct = distinct (pipeline, variants, op list); non-trivial = at least 2 objects and 5 operations')
ASSUMPTIONS = ['task computations are deterministic functions of their declared parameters and inputs (generated tasks return provenance terms)',
               'parameter mode (name mode: one configuration per data directory, no file mounted twice); user-defined repr() injective; sha256[:32] collision-free on the occurring key texts',
               'K1 (quotes in strings) is excluded from these generators (covered by C03); K3 (== default) is in the domain and reported as KNOWN-FINDING']
TRUSTED = ['chain structure (objects, edges, locations, used inputs) extracted from the implementation; its correctness is C08/C09']


# (all kinds, and results streamed through GeneratedDataLazy whose failing runs fail while the result is written)
KINDS01 = gen.KINDS_P + ['genlazy', 'genlazy']


def value_oracle(ctx, case, hist, maps, spec):
    for r in hist['rec']:
        if r['op']['op'] != 'value' or r.get('skipped'):
            continue
        if r.get('raised'):
            if not r['op']['failing']:
                ctx.fail('value request raised although no run was told to fail', case, {'op': r['op'], 'exception': r.get('unexpected')})
            continue
        ctx.count('values-compared')
        if isinstance(r['value'], dict) and r['value'].get('t') == '__EMPTY__' and machine.class_of(r['task'], spec)['kind'] == 'genempty':
            continue        # an empty generated sequence: nothing to compare but emptiness
        if r['value'] != r['expected']:
            known = 'K3' if machine.k3_in_closure(r['task'], spec) else None
            ctx.fail('a chain returned a value that is not what the task computes from its current configuration (stale or foreign result)',
                     case, {'op': r['op'], 'returned': r['value'], 'expected': r['expected']}, known=known)


def subprocess_history(args):
    spec, variants, ops, root = args
    return machine.run_segments_subprocess(spec, variants, ops, root)


def k3_witness(ctx):
    """the recorded K3 witness must still fail (else the finding is stale)"""
    from taskchain import Config
    from tcv import gen
    root = ctx.tmpdir() / 'k3'
    spec = {'classes': {'K0': {'name': 'w', 'group': '', 'params': [{'name': 'flag', 'default': 0, 'dpd': True}], 'inputs': [], 'kind': 'json', 'run_args': ['flag']}},
            'files': {}, 'main': None}
    b = pl.materialize(spec, root, modname=gen.fresh_modname())
    mod = b.module()
    cls = getattr(mod, pl.pyname('K0'))
    v0 = Config(root / 'd', name='c0', data={'tasks': [cls], 'flag': 0}).chain().tasks['w'].value
    v1 = Config(root / 'd', name='c1', data={'tasks': [cls], 'flag': False}).chain().tasks['w'].value
    ctx.case({'witness': 'K3'})
    if v1['p']['flag'] is not False:
        ctx.fail('K3 witness', {'witness': 'K3'}, known='K3')
    else:
        ctx.notes['K3'] = 'witness no longer fails: finding K3 appears repaired'
    b.cleanup_module()


def name_mode_probe(ctx):
    """the same promise in name mode (`parameter_mode=False`), each configuration on its own fresh data directory (there the key is the
    config's name, so two configurations must not share a directory — by design): the chain's edges are the declared ones (executable
    reference builder) and every value is the reference evaluation of the task's provenance term.  Families without a file mounted
    twice (in name mode a twice-mounted file shares its task objects across the mounts)."""
    root = ctx.tmpdir()
    for h in range(ctx.n(14, 120)):
        rng = ctx.rng('name-mode', h)
        spec, variants = machine.gen_family(rng, rich=True, kinds=[k for k in machine.gen.KINDS_P if k not in ('dir', 'continues')])
        b = pl.materialize(spec, root / f'nm{h}' / 'src', modname=spec['module'])
        mod = b.module()
        mod.RUNLOG.clear(); mod.FAIL.clear(); mod.DONE.clear()
        for vi, v in enumerate(variants[:3]):
            used = [u.split(' as ')[0] for u in spec['files']['main_' + v['file']].get('uses', [])]
            if len(set(used)) < len(used):
                ctx.count('name-mode:double-mount-skipped'); continue
            case = {'probe': 'name mode', 'module': spec['module'], 'variant': v['file'], 'spec': spec, 'variants_full': variants}
            chain, err = pl.build(b, root / f'nm{h}' / f'd{vi}', main='main_' + v['file'], context=v.get('context_disk') or v.get('context'),
                                  parameter_mode=False)
            pchain, perr = pl.build(b, root / f'nm{h}' / f'p{vi}', main='main_' + v['file'], context=v.get('context_disk') or v.get('context'))
            ctx.case({k: x for k, x in case.items() if k not in ('spec', 'variants_full')}, nontrivial=chain is not None)
            if chain is None:
                ctx.count('name-mode:construction-error')
                if pchain is not None and err != 'bad_type':
                    ctx.diverge('family:construction(name mode)', case, err, 'constructible in parameter mode')
                continue
            ctx.count('name-mode:chains')
            w = machine.wiring_check(spec, v, b, chain)
            if w:
                ctx.fail('a chain wires a task to other inputs than its configuration declares (foreign upstream)', case, dict(w, mode='name'))
                continue
            for name, task in chain.tasks.items():
                kind = machine.class_of(task, spec)['kind']
                try:
                    value = mod.unwrap(kind, task.value)
                except Exception as e:  # noqa
                    ctx.fail('value request raised although no run was told to fail', case, {'task': name, 'exception': f'{type(e).__name__}: {e}'[:300]})
                    break
                ctx.count('name-mode:values-compared')
                if isinstance(value, dict) and value.get('t') == '__EMPTY__':
                    continue
                exp = machine.expected_term(task, spec, variant=v, name=name)
                if value != exp:
                    ctx.fail('a chain returned a value that is not what the task computes from its current configuration (stale or foreign result)',
                             case, {'task': name, 'mode': 'name', 'returned': value, 'expected': exp},
                             known='K3' if machine.k3_in_closure(task, spec) else None)
                    break
        b.cleanup_module()


def run(ctx):
    quiet()
    machine.run_batch(ctx, ctx.n(70, 900), allow={'fail', 'force', 'restart'}, label='c01', oracle=value_oracle, rich=True, kinds=KINDS01)
    # ---- real interpreter restarts
    n = ctx.n(6, 60)
    root = ctx.tmpdir()
    jobs = []
    for h in range(n):
        rng = ctx.rng('proc', h)
        spec, variants = machine.gen_family(rng, rich=True, kinds=KINDS01)
        ops = machine.gen_ops(rng, spec, variants, rng.randint(10, 24), {'fail', 'force', 'restart'})
        # make sure there are restarts
        k = len(ops) // 2
        ops.insert(k, {'op': 'restart'}); ops.insert(k + 1, {'op': 'build', 'variant': rng.randrange(len(variants))})
        jobs.append((spec, variants, ops, root / f'proc{h}'))
    with concurrent.futures.ThreadPoolExecutor(max_workers=8) as ex:
        results = list(ex.map(subprocess_history, jobs))
    reqs, ios = [], []
    for (spec, variants, ops, r), segs in zip(jobs, results):
        req, io = machine.assemble(segs)
        reqs.append(req); ios.append(io)
    outs = ctx.model.many(reqs)
    for (spec, variants, ops, r), segs, io, mo in zip(jobs, results, ios, outs):
        case = {'module': spec['module'], 'ops': ops, 'interpreters': len(segs), 'spec': spec, 'variants_full': variants}
        if any(s['errors'] for s in segs):
            ctx.count('construction-error')
            errs = [e for s in segs for e in s['errors']]
            if any(e != 'bad_type' for e in errs):
                ctx.case({'module': spec['module'], 'ops': ops}); ctx.diverge('family:construction', case, errs, 'constructible')
            continue
        ctx.case({k: v for k, v in case.items() if k not in ('spec', 'variants_full')}, nontrivial=True)
        ctx.count('real-restart-history'); ctx.count('interpreters', len(segs))
        for k, (a, b) in enumerate(zip(io, mo.get('outs', []))):
            b = machine.canon_model_out(b, a)
            a = {kk: vv for kk, vv in a.items() if not kk.startswith('_')}
            if a != b:
                ctx.diverge('store-machine(restarts)', case, {'op_index': k, 'impl': a}, {'model': b}); break
        for s in segs:
            for w in s.get('wiring', []):
                ctx.fail('a chain wires a task to other inputs than its configuration declares (foreign upstream)', case, w)
            for u in s['unexpected']:
                ctx.fail('operation raised an unexpected exception', case, u)
            for v in s['values']:
                if v['raised']:
                    if not v['op']['failing']:
                        ctx.fail('value request raised although no run was told to fail', case, v)
                    continue
                ctx.count('values-compared')
                if isinstance(v['value'], dict) and v['value'].get('t') == '__EMPTY__':
                    continue
                if v['value'] != v['expected']:
                    ctx.fail('a chain returned a value that is not what the task computes from its current configuration (stale or foreign result)',
                             case, v, known='K3' if v['k3'] else None)
    name_mode_probe(ctx)
    k3_witness(ctx)


def search(ctx, divergences):
    run(ctx)


def sanity(ctx):
    from tcv.core import BrokenCheck
    c = ctx.counts
    if c.get('values-compared', 0) < 3 * ctx.evaluations or c.get('op:value', 0) < 3 * ctx.evaluations:
        raise BrokenCheck(f'generator distribution collapsed: {c}')
