"""C09 — configs compose by declared precedence, without leaking or silent override (builder level).

Same generated (classes, config tree, context) triples as C08, observed for: every task's every parameter value, construction
errors (missing / mistyped parameter, conflict).  Oracle: executable reference parameter table.  The clause "share no mutable
values" is about heap identity and cannot be expressed in a pure model: it is checked on the implementation only."""
import copy

from tcv import builder, pipeline as pl, refbuild
from tcv.props.c08 import ref_build
from tcv.quiet import quiet

RULE = ('seeded config trees x contexts (dict / file / list / nested `uses ... as ns` with for_namespaces, the same file mounted '
        'repeatedly with per-namespace values, multi-part files with #part, JSON and YAML, defaults / name_in_config / dtype); '
        'compared with the Lean builder model (parameter values of every task, error kind) and with a reference parameter table; '
        'plus aliasing probes on the implementation (context dict reused for two configs, mutate-one-observe-others); '
        'distinct = distinct specs; non-trivial = at least one context or namespace involved')
ASSUMPTIONS = ['a Config built with data= aliases the caller\'s dict by documented design; generators give every config its own dict',
               'placeholders/global_vars are C11\'s business and absent here']
TRUSTED = ['heap-identity clause is decided on the implementation only (no model counterpart)']


def check_params(ctx, spec, root, tag, model_out):
    b = pl.materialize(spec, root / tag, modname=spec['module'])
    impl = builder.build_impl(spec, b, root / (tag + '_data'))
    case = {'module': spec['module'], 'ctx_kind': spec.get('ctx_kind'), 'conflict': spec.get('conflict'), 'files': list(spec['files'])}
    full_case = {**case, 'spec': spec}
    nontrivial = spec.get('context') is not None or any(' as ' in u for d in spec['files'].values() for u in builder.los(d.get('uses', [])) if isinstance(d, dict))
    ctx.case(case, nontrivial=bool(nontrivial))
    ctx.count('built' if 'ok' in impl else f"error:{impl['error']}")
    ctx.count(f"ctx:{spec.get('ctx_kind')}")
    if ('ok' in impl) != ('ok' in model_out):
        ctx.diverge('builder:error-vs-chain', full_case, impl.get('error', 'chain'), model_out.get('error', 'chain'))
    elif 'ok' in impl:
        a = {t['full']: t['params'] for t in impl['ok']}
        m = {t['full']: t['params'] for t in model_out['ok']}
        if a != m:
            k = next((n for n in a if a[n] != m.get(n)), None)
            ctx.diverge('builder:parameters', full_case, {k: a.get(k)}, {k: m.get(k)})
    elif impl['error'] != model_out['error'] and not (impl['error'].startswith('other') or model_out['error'] in ('not_found', 'ambiguous')):
        ctx.diverge('builder:error-kind', full_case, impl['error'], model_out['error'])
    # ---- the same config tree and context built a second time in this process: construction has no memory (context files,
    #      used contexts and config files are read again and give the same chain)
    if 'ok' in impl and spec.get('ctx_kind') in ('file', 'uses', 'list'):
        again = builder.build_impl(spec, b, root / (tag + '_data2'))
        ctx.count('built-twice')
        a1 = {t['full']: t['params'] for t in impl['ok']}
        a2 = {t['full']: t['params'] for t in again.get('ok', [])}
        if a1 != a2:
            bad = [n for n in a1 if a1[n] != a2.get(n)]
            ctx.fail('building the same config with the same context a second time gives other parameter values', full_case,
                     {'tasks': bad[:4], 'first': [a1[n] for n in bad[:2]], 'second': [a2.get(n) for n in bad[:2]], 'error': again.get('error')})
    # ---- oracle: reference parameter table
    ref = ref_build(spec, b)
    if 'error' in ref:
        if 'ok' in impl and ref['error'] in ('conflict', 'missing_param', 'bad_type'):
            ctx.fail({'conflict': 'two configs declaring the same task in one namespace were not reported as a conflict',
                      'missing_param': 'a missing required parameter was not reported at construction',
                      'bad_type': 'a parameter value of the wrong type was not reported at construction'}[ref['error']], full_case,
                     {'tasks': [t['full'] for t in impl['ok']]})
    elif 'ok' in impl:
        chain = impl['chain']
        if set(ref['ok']) != set(chain.tasks):
            ctx.fail('a config\'s declarations (tasks / excluded_tasks) leaked into, or were lost from, another config', full_case,
                     {'missing': sorted(set(ref['ok']) - set(chain.tasks)), 'extra': sorted(set(chain.tasks) - set(ref['ok']))})
        for n, t in ref['ok'].items():
            if n not in chain.tasks:
                continue
            got = {p.name: pl.to_model(p._value) for p in chain.tasks[n].parameters.values()}
            exp = {k: pl.to_model(v) for k, v in t.params.items()}
            if got != exp:
                bad = [k for k in exp if got.get(k) != exp[k]]
                ctx.fail('a task does not see the parameter values of its declaring config overridden by the context for its namespace', full_case,
                         {'task': n, 'parameters': bad, 'got': {k: got.get(k) for k in bad}, 'expected': {k: exp[k] for k in bad}})
                break
        ctx.count('parameter-tables', len(ref['ok']))
    object_uses_probe(ctx, spec, b, impl, root, tag)
    b.cleanup_module()


def object_uses_probe(ctx, spec, b, impl, root, tag):
    """`uses` entries may be Config objects instead of path strings: the chain must be the one the file-based tree gives
    (same tasks, same parameter values, same keys)"""
    import json
    from taskchain import Config
    main = spec['main']
    fdata = spec['files'].get(main)
    if 'ok' not in impl or not isinstance(fdata, dict) or 'configs' in fdata or 'uses' not in fdata or not main.endswith('.json'):
        return
    data_dir = root / (tag + '_objdata')
    ctxv = pl.subst_paths(spec.get('context'), b) if spec.get('context') is not None else None
    try:
        raw = json.loads(b.path(main).read_text())
        objs = []
        for u in builder.los(raw['uses']):
            path, _, ns = u.partition(' as ')
            objs.append(Config(data_dir, path, namespace=ns or None))
        raw['uses'] = objs
        top = Config(data_dir, name=main[:-5], data=raw, context=ctxv, namespace=spec.get('namespace'))
        chain = top.chain()
    except Exception as e:  # noqa
        ctx.case({'probe': 'object-uses', 'module': spec['module']}); ctx.count('object-uses:error')
        ctx.fail('a config tree given with Config objects in `uses` cannot be built although the same tree given by paths can', {'spec': spec},
                 {'error': f'{type(e).__name__}: {e}'[:300]})
        return
    ctx.case({'probe': 'object-uses', 'module': spec['module']}, nontrivial=True); ctx.count('object-uses')
    ref = impl['chain']
    a = {n: ({p.name: pl.to_model(p._value) for p in t.parameters.values()}, t.name_for_persistence) for n, t in chain.tasks.items()}
    r = {n: ({p.name: pl.to_model(p._value) for p in t.parameters.values()}, t.name_for_persistence) for n, t in ref.tasks.items()}
    if a != r:
        bad = sorted(set(a) ^ set(r)) or [n for n in a if a[n] != r[n]]
        ctx.fail('a config tree given with Config objects in `uses` yields other tasks / parameter values / keys than the same tree given by paths',
                 {'spec': spec}, {'tasks': bad[:4]})


def aliasing_probe(ctx, root):
    """configs built from one context share no mutable values with it or with each other (implementation only)"""
    from taskchain import Config
    rng = ctx.rng('alias')
    spec = {'classes': {'K0': {'name': 'a', 'group': '', 'params': [{'name': 'x'}, {'name': 'y', 'default': None}], 'inputs': [], 'kind': 'json', 'run_args': []}},
            'files': {'p.json': {'tasks': ['K0'], 'x': [1, 2]}, 'c2.json': {'y': {'k': [1]}}}, 'main': 'p.json'}
    b = pl.materialize(spec, root / 'alias', modname=builder.gen.fresh_modname())
    b.module()
    for variant in range(ctx.n(6, 40)):
        cdict = {'x': [1, {'k': [2]}], 'for_namespaces': {'n': {'y': [3]}}}
        if variant % 2:
            cdict['uses'] = [str(b.path('c2.json')) + ' as n']
        snapshot = copy.deepcopy(cdict)
        c1 = Config(root / 'ad', str(b.path('p.json')), context=cdict, namespace='n' if variant % 3 == 0 else None)
        c2 = Config(root / 'ad', str(b.path('p.json')), context=cdict, namespace='n')
        case = {'probe': 'aliasing', 'variant': variant}
        ctx.case(case); ctx.count('aliasing-probe')
        if cdict != snapshot:
            ctx.fail('building a config mutated the caller\'s context dict', case, {'before': snapshot, 'after': cdict})
        # mutate values reachable from one config; nothing else may change
        before2 = copy.deepcopy(c2.data)
        for v in c1.data.values():
            if isinstance(v, list):
                v.append('MUT')
            elif isinstance(v, dict):
                v['MUT'] = 1
        if c2.data != before2:
            ctx.fail('two configs built from one context share a mutable value', case, {'changed': [k for k in before2 if before2[k] != c2.data.get(k)]})
        if cdict != snapshot:
            ctx.fail('a config shares a mutable value with the context it was built from', case, {})
        # a second config from the same context sees the same context (incl. its `uses`)
        c3 = Config(root / 'ad', str(b.path('p.json')), context=cdict, namespace='n')
        if {k: v for k, v in c3.data.items()} != {k: v for k, v in before2.items()}:
            ctx.fail('a second config built from the same context sees different values than the first', case,
                     {'first': str(before2)[:300], 'second': str(dict(c3.data))[:300]})
    # ---- the same with ONE prepared Context object handed to several configs (a parameter sweep over global_vars, say): the
    #      configs own copies of the global and of the per-namespace values
    from taskchain import Context
    for variant in range(ctx.n(6, 40)):
        cdict = {'x': [1, {'k': ['{V}']}], 'for_namespaces': {'n': {'y': ['{V}/a', {'d': [3]}]}, 'other': {'y': 0}}}
        cobj = Context.prepare_context(copy.deepcopy(cdict)) if variant % 2 else Context(data=copy.deepcopy(cdict), name='probe')
        snap = (copy.deepcopy(dict(cobj.data)), copy.deepcopy({k: dict(v) for k, v in cobj.for_namespaces.items()}))
        case = {'probe': 'aliasing-context-object', 'variant': variant}
        ctx.case(case); ctx.count('aliasing-probe:context-object')
        gv1, gv2 = ({'V': 'v1'}, {'V': 'v2'}) if variant % 3 else (None, None)
        # (the first config may get the object inside a LIST, followed by a context that overrides an entry of the same namespace: merging
        #  must not write into the object)
        override = {'for_namespaces': {'n': {'y': ['{V}/a', {'d': [3]}], 'z': 'only-first'}}} if variant % 4 >= 2 else None
        c1 = Config(root / 'ad', str(b.path('p.json')), context=[cobj, override] if override else cobj, namespace='n', global_vars=gv1)
        c2 = Config(root / 'ad', str(b.path('p.json')), context=cobj, namespace='n', global_vars=gv2)
        if override and 'z' in c2.data:
            ctx.fail('an override given to one config in a context list reached another config built from the shared Context object', case,
                     {'second_config_z': _plain(c2.data.get('z'))})
        now = (dict(cobj.data), {k: dict(v) for k, v in cobj.for_namespaces.items()})
        if _plain(now) != _plain(snap):
            ctx.fail('building a config changed the Context object it was given', case, {'before': _plain(snap), 'after': _plain(now)})
            continue
        if gv1 and (_plain(c1.data.get('y')) != ['v1/a', {'d': [3]}] or _plain(c2.data.get('y')) != ['v2/a', {'d': [3]}]):
            ctx.fail('a config built from a shared Context object sees the values substituted for another config', case,
                     {'first': _plain(c1.data.get('y')), 'second': _plain(c2.data.get('y'))})
        before2 = copy.deepcopy(dict(c2.data))
        for v in c1.data.values():
            if isinstance(v, list):
                v.append('MUT')
                for w in v:
                    if isinstance(w, dict):
                        w['MUT'] = 1
            elif isinstance(v, dict):
                v['MUT'] = 1
        if _plain(dict(c2.data)) != _plain(before2):
            ctx.fail('two configs built from one Context object share a mutable value', case,
                     {'changed': [k for k in before2 if _plain(before2[k]) != _plain(c2.data.get(k))]})
        now = (dict(cobj.data), {k: dict(v) for k, v in cobj.for_namespaces.items()})
        if _plain(now) != _plain(snap):
            ctx.fail('a config shares a mutable value with the Context object it was built from', case, {})
    b.cleanup_module()


def default_alias_probe(ctx, root):
    """falling back to the parameter's default: every task gets its OWN copy of a mutable declared default — what one task (its run, or user
    code through `task.params`) does to the value never reaches a task of another namespace, chain or config, nor the declaration itself"""
    from taskchain import Config
    decl = {'lst': [1, {'k': [2]}], 'dct': {'a': [1]}}
    spec = {'classes': {'K0': {'name': 'a', 'group': '', 'params': [{'name': 'lst', 'default': copy.deepcopy(decl['lst'])},
                                                                      {'name': 'dct', 'default': copy.deepcopy(decl['dct'])}, {'name': 'x', 'default': 0}],
                               'inputs': [], 'kind': 'json', 'run_args': []}},
            'files': {'p.json': {'tasks': ['K0'], 'x': 1}, 'q.json': {'tasks': ['K0'], 'x': 2},
                      'm.json': {'uses': ['{D}/p.json as n1', '{D}/q.json as n2']}}, 'main': 'm.json'}
    b = pl.materialize(spec, root / 'dalias', modname=builder.gen.fresh_modname())
    b.module()
    gv = {'D': str(b.path('p.json').parent)}

    def mutate(task):
        task.params.lst.append('MUT'); task.params.lst[1]['k'].append('MUT'); task.params.dct['MUT'] = 1

    def seen(task):
        return {'lst': _plain(task.params.lst), 'dct': _plain(task.params.dct)}
    for variant in range(ctx.n(4, 24)):
        case = {'probe': 'default-aliasing', 'variant': variant}
        ctx.case(case); ctx.count('aliasing-probe:declared-default')
        if variant % 2 == 0:
            # two namespaces of one chain
            chain = Config(root / 'dd', str(b.path('m.json')), global_vars=gv).chain(parameter_mode=bool(variant % 4))
            first, second = chain['n1::a'], chain['n2::a']
            if seen(second) != decl or seen(first) != decl:
                ctx.fail('a task without a configured value does not see the declared default', case, {'first': seen(first), 'second': seen(second)})
                continue
            mutate(first)
            if seen(second) != decl:
                ctx.fail('a mutable declared default is shared by tasks of two configs: a change made through one reached the other', case,
                         {'declared': decl, 'other_task_sees': seen(second)})
        else:
            # two chains built one after the other in the same process
            first = Config(root / 'dd', str(b.path('p.json'))).chain(parameter_mode=bool(variant % 4 == 1))['a']
            k1 = first.name_for_persistence
            mutate(first)
            second = Config(root / 'dd', str(b.path('q.json' if variant % 3 else 'p.json'))).chain(parameter_mode=bool(variant % 4 == 1))['a']
            if seen(second) != decl:
                ctx.fail('a mutable declared default is shared by tasks of two chains: a later task sees what an earlier one did to its value', case,
                         {'declared': decl, 'later_task_sees': seen(second)})
            elif variant % 3 == 0 and second.name_for_persistence != k1:
                ctx.fail('the same config built again got another storage key after a task of the first chain changed its parameter value', case,
                         {'first': k1, 'second': second.name_for_persistence})
    b.cleanup_module()


def rewrite_probe(ctx, root):
    """each task sees the values of the config FILE as it is when the config is constructed: a config or context file that is rewritten
    between two constructions in one process — same path, same length, same modification time (a timestamp-preserving copy, a coarse
    clock) — is read again, nothing of the earlier version survives in the process"""
    import json
    import os
    from taskchain import Config
    spec = {'classes': {'K0': {'name': 'a', 'group': '', 'params': [{'name': 'x'}, {'name': 'y', 'default': 0}], 'inputs': [], 'kind': 'json', 'run_args': []}},
            'files': {'p.json': {'tasks': ['K0'], 'x': 1}, 'ctx.json': {'y': 1}}, 'main': 'p.json'}
    b = pl.materialize(spec, root / 'rewrite', modname=builder.gen.fresh_modname())
    b.module()
    pfile, cfile = b.path('p.json'), b.path('ctx.json')
    ptext = pfile.read_text()
    for k in range(ctx.n(6, 40)):
        case = {'probe': 'config file rewritten between two constructions', 'round': k, 'preserve_mtime': k % 3 != 2, 'which': ['config', 'context'][k % 2]}
        ctx.case(case); ctx.count('rewrite-probe')
        target, key = (pfile, 'x') if k % 2 == 0 else (cfile, 'y')
        seen = []
        for val in (k % 7 + 1, (k + 3) % 7 + 1):
            st = target.stat() if target.exists() else None
            d = json.loads(target.read_text())
            d[key] = val
            target.write_text(json.dumps(d))
            if st is not None and case['preserve_mtime']:
                os.utime(target, ns=(st.st_atime_ns, st.st_mtime_ns))
            chain = Config(root / 'rwd', str(pfile), context=str(cfile)).chain()
            seen.append((val, _plain(chain['a'].params[key])))
        bad = [s_ for s_ in seen if s_[0] != s_[1]]
        if bad:
            ctx.fail('a task sees the value of an earlier version of its config file', case, {'written_then_seen': seen})
    pfile.write_text(ptext)
    b.cleanup_module()


def object_instance_probe(ctx, root):
    """parameter objects built from a definition (`{'class': …, 'kwargs': …}`) belong to ONE config: two configs — or two namespaces of one
    chain — with the same definition get two objects, what one task does to its object's state never shows in the other's"""
    from taskchain import Config
    # (two pipeline files with the same object definition and different `x`: two different tasks — equal tasks are one object by design)
    spec = {'classes': {'K0': {'name': 'a', 'group': '', 'params': [{'name': 'obj'}, {'name': 'x'}], 'inputs': [], 'kind': 'json', 'run_args': []}},
            'files': {'p.json': {'tasks': ['K0'], 'x': 1, 'obj': {'class': '@mod.Box', 'kwargs': {'v': [1, 2]}}},
                      'q.json': {'tasks': ['K0'], 'x': 2, 'obj': {'class': '@mod.Box', 'kwargs': {'v': [1, 2]}}},
                      'm.json': {'uses': ['@cfg/p.json as n1', '@cfg/q.json as n2']}}, 'main': 'm.json', 'module': builder.gen.fresh_modname()}
    b = pl.materialize(spec, root / 'objinst', modname=spec['module'])
    f = (root / 'objinst').joinpath(*spec['module'].split('.')).with_suffix('.py')
    f.write_text(f.read_text() + "\n\nclass Box(AutoParameterObject):\n    def __init__(self, v):\n        self.v = v\n        self.seen = []\n")
    import json as _json
    for fn in ('p.json', 'q.json'):
        pf = b.path(fn)
        d = _json.loads(pf.read_text()); d['obj']['class'] = spec['module'] + '.Box'; pf.write_text(_json.dumps(d))
    pf, qf = b.path('p.json'), b.path('q.json')
    b.module()
    for k in range(ctx.n(3, 12)):
        case = {'probe': 'instantiated parameter objects', 'variant': k}
        ctx.case(case); ctx.count('aliasing-probe:parameter-objects')
        if k % 2 == 0:
            chain = Config(root / 'oid', str(b.path('m.json'))).chain()
            o1, o2 = chain['n1::a'].params['obj'], chain['n2::a'].params['obj']
        else:
            o1 = Config(root / 'oid', str(pf)).chain()['a'].params['obj']
            o2 = Config(root / 'oid', str(qf if k % 4 == 1 else pf)).chain()['a'].params['obj']
        o1.seen.append('used'); o1.v.append(99)
        if o1 is o2 or o2.seen or o2.v != [1, 2]:
            ctx.fail('two configs (or two namespaces) share one parameter object: what one task did to it shows in the other', case,
                     {'same_object': o1 is o2, 'other_sees': {'seen': o2.seen, 'v': o2.v}})
    b.cleanup_module()


def _plain(x):
    """strings (incl. substituted ones) by their text"""
    if isinstance(x, dict):
        return {str(k): _plain(v) for k, v in x.items()}
    if isinstance(x, (list, tuple)):
        return [_plain(v) for v in x]
    if isinstance(x, str):
        return str(x)
    return x


def run(ctx):
    quiet()
    root = ctx.tmpdir()
    specs = [builder.gen_case(ctx.rng('wf', i)) for i in range(ctx.n(160, 2400))]
    specs += [builder.gen_case(ctx.rng('nested-ctx', i), ctx_kind='uses', wellformed=True) for i in range(ctx.n(60, 600))]     # contexts using contexts
    specs += [builder.gen_case(ctx.rng('conflict', i), conflict=True) for i in range(ctx.n(30, 400))]
    specs += [builder.gen_case(ctx.rng('mal', i), malformed=True) for i in range(ctx.n(30, 400))]
    specs += [builder.gen_exclusion_case(ctx.rng('exclusion', i)) for i in range(ctx.n(20, 200))]     # an exclusion is the declaring config's alone
    reqs = [builder.encode(spec, pl.Built(root / f'c{i}', spec['module'], spec)) for i, spec in enumerate(specs)]
    outs = ctx.model.many(reqs)
    for i, (spec, mo) in enumerate(zip(specs, outs)):
        check_params(ctx, spec, root, f'c{i}', mo)
    aliasing_probe(ctx, root)
    default_alias_probe(ctx, root)
    rewrite_probe(ctx, root)
    object_instance_probe(ctx, root)


def search(ctx, divergences):
    run(ctx)


def sanity(ctx):
    from tcv.core import BrokenCheck
    c = ctx.counts
    if c.get('built', 0) < 0.2 * ctx.evaluations or c.get('error:conflict', 0) < 5 or sum(v for k, v in c.items() if k.startswith('ctx:') and k != 'ctx:none') < 0.3 * ctx.evaluations:
        raise BrokenCheck(f'generator distribution collapsed: {c}')
