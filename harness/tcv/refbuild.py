"""Executable reference of the config/context/chain-builder semantics: pure functions over plain data (the specification the
   Lean model TCV.Config/TCV.Build was transcribed from; validated against the repaired tree at design time).  Used by the
   builder-level checks as the property oracle on the real code."""
import copy, re, hashlib

DTYPES = {'int': int, 'str': str, 'float': float, 'bool': bool, 'list': list, 'dict': dict, 'path': str}
RESERVED = ['tasks', 'excluded_tasks', 'uses', 'human_readable_data_name', 'configs', 'for_namespaces', 'main_part']
class BuildError(Exception):
    def __init__(self, kind, msg=''): super().__init__(f'{kind}: {msg}'); self.kind = kind

def los(v): return [v] if isinstance(v, str) else v

# ---------------------------------------------------------------- contexts
class Ctx:
    def __init__(self, data, for_ns, name, namespace=None): self.data, self.for_ns, self.name, self.namespace = data, for_ns, name, namespace

def ctx_from_data(fs, data, name, namespace):
    data = data  # caller passes a private copy
    if 'configs' in data: raise BuildError('unsupported', 'multipart context')
    for_ns = data['for_namespaces'] if 'for_namespaces' in data else {}
    if namespace is not None:
        for_ns = {f'{namespace}::{k}': v for k, v in for_ns.items()}
        for_ns[namespace] = {k: v for k, v in data.items() if k not in RESERVED or k == 'uses'}
        data = {}
    return Ctx(data, for_ns, name, namespace)

def merge_ctx(ctxs):
    data, names, for_ns = {}, [], {}
    for c in ctxs:
        data.update(c.data); names.append(c.name)
        for ns, vals in c.for_ns.items(): for_ns.setdefault(ns, {}).update(vals)
    data['for_namespaces'] = for_ns
    return Ctx(data, for_ns, ';'.join(names), None)

def subst(s, gv):
    if gv is None: return s
    return re.sub(r'{(.*?)}', lambda m: str(gv[m.group(1)]) if m.group(1) in gv else '{' + m.group(1) + '}', s)

def prepare_ctx(fs, src, namespace=None, gv=None):
    if src is None: return None
    if isinstance(src, str):
        name = '.'.join(src.split('/')[-1].split('.')[:-1])
        ctx = ctx_from_data(fs, copy.deepcopy(fs[src]), name, namespace)
    elif isinstance(src, dict):
        name = 'dict_context(' + ','.join(f'{k}:{v}' for k, v in sorted(src.items())) + ')'
        ctx = ctx_from_data(fs, copy.deepcopy(src), name, namespace)
    elif isinstance(src, Ctx): ctx = src
    else:
        ctx = merge_ctx([prepare_ctx(fs, s, namespace, gv) for s in src])
    cur = ctx.for_ns[namespace] if namespace else ctx.data
    if 'uses' not in cur: return ctx
    uses = [subst(u, gv) for u in los(cur['uses'])]
    ctxs = [ctx]
    for use in uses:
        m = re.match(r'(.*) as (.*)', use)
        if m: path, sub = m[1], (f'{ctx.namespace}::{m[2]}' if ctx.namespace else m[2])
        else: path, sub = use, (ctx.namespace if ctx.namespace else None)
        ctxs.append(prepare_ctx(fs, path, sub, gv))
    del cur['uses']
    return prepare_ctx(fs, ctxs)

# ---------------------------------------------------------------- configs
class Cfg:
    def __init__(self, fs, path, namespace, ctx, gv, name=None):
        self.namespace, self.ctx, self.gv = namespace, ctx, gv
        self.part = None
        if '#' in path: path, self.part = path.split('#')
        self.path = path
        self.name0 = name if name is not None else '.'.join(path.split('/')[-1].split('.')[:-1])
        data = copy.deepcopy(fs[path])
        if data and 'configs' in data:
            if len(data) != 1: raise BuildError('assert', 'multipart')
            if self.part:
                if self.part not in data['configs']: raise BuildError('no_part')
                data = data['configs'][self.part]
            else:
                if len([c for c in data['configs'] if 'main_part' in c]) >= 2: raise BuildError('assert')
                for pn, p in data['configs'].items():
                    if p.get('main_part', False): data, self.part = p, pn; break
                else: raise BuildError('no_part')
            if 'uses' in data:
                data['uses'] = [self.path + u if isinstance(u, str) and u.startswith('#') else u for u in los(data['uses'])]
        if ctx is not None:
            data.update(copy.deepcopy(ctx.data))
            if namespace:
                for ns, d in ctx.for_ns.items():
                    if ns == namespace: data.update(copy.deepcopy(d))
        if gv is not None: data = subst_tree(data, gv)
        self.data = data
    @property
    def name(self): return f'{self.name0}#{self.part}' if self.part else self.name0
    @property
    def repr_name(self):
        n = self.path if self.namespace is None else f'{self.namespace}::{self.path}'
        return f'{n}#{self.part}' if self.part else n

def subst_tree(o, gv):
    if isinstance(o, str): return subst(o, gv)
    if isinstance(o, list): return [subst_tree(x, gv) for x in o]
    if isinstance(o, dict): return {k: subst_tree(v, gv) for k, v in o.items()}
    return o

def process_config(fs, cfg, configs):
    if cfg.repr_name in configs: return
    configs[cfg.repr_name] = cfg
    for use in los(cfg.data.get('uses', [])):
        m = re.match(r'(.*) as (.*)', use)
        if m: used = Cfg(fs, m[1], f'{cfg.namespace}::{m[2]}' if cfg.namespace else m[2], cfg.ctx, cfg.gv)
        else: used = Cfg(fs, use, cfg.namespace if cfg.namespace else None, cfg.ctx, cfg.gv)
        process_config(fs, used, configs)

# ---------------------------------------------------------------- names
def find_full(q, names, determine_namespace=True):
    def match(name, full):
        ns, fns = '::'.join(name.split('::')[:-1]), '::'.join(full.split('::')[:-1])
        if (ns or not determine_namespace) and fns != ns: return False
        name, full = name.split('::')[-1], full.split('::')[-1]
        if full == name: return True
        if ':' in full and ':' not in name: return full.split(':')[-1] == name
        return False
    ms = [t for t in names if match(q, t)]
    if len(ms) > 1:
        if q in ms: return q
        for c in ms:
            if all(t == c or t.endswith(':' + c) for t in ms): return c
        raise KeyError('ambiguous')
    if not ms: raise KeyError('not_found')
    return ms[0]

# ---------------------------------------------------------------- tasks
class T:  # task instance
    def __init__(self, cls, cfg, fullname): self.cls, self.cfg, self.fullname, self.inputs = cls, cfg, fullname, None
def slug(cls): return cls['slug'] if 'slug' in cls else (cls['group'] + ':' if cls.get('group') else '') + cls['name']

def set_params(cls, data, cfgname):
    out = {}
    for p in cls['params']:
        nic = p.get('nic') or p['name']
        if nic in data: v = data[nic]
        elif 'default' not in p: raise BuildError('missing_param', f'{p["name"]} in {cfgname}')
        else: v = p['default']
        if p.get('dtype') is not None and v is not None and not isinstance(v, DTYPES[p['dtype']]): raise BuildError('bad_type')
        out[p['name']] = v
    return out

def create_tasks(configs, classes):
    tasks = {}
    for cfg in configs.values():
        excluded = set(los(cfg.data.get('excluded_tasks', [])))
        for tn in los(cfg.data.get('tasks', [])):
            cls = classes[tn]
            if cls.get('abstract') or tn in excluded: continue
            t = T(cls, cfg, (f'{cfg.namespace}::' if cfg.namespace is not None else '') + slug(cls))
            t.params = set_params(cls, cfg.data, cfg.name)
            if t.fullname in tasks and tasks[t.fullname].cfg is not cfg: raise BuildError('conflict', t.fullname)
            tasks[t.fullname] = t
    return tasks

def expand(inputs, names, cur):
    out = []; curns = cur.split('::')[:-1]
    for i in inputs:
        if not (i['by'] == 'name' and i['ref'].startswith('~')): out.append(i); continue
        for n in names:
            ok = curns == n.split('::')[:-1] or i['ref'].startswith('~~')
            if re.fullmatch(i['ref'].lstrip('~'), n.split('::')[-1]) and ok: out.append({'by': 'name', 'ref': n})
    return out

def process_deps(tasks, classes):
    for tname, t in tasks.items():
        ins = {}
        eff = [i for i in t.cls['inputs'] if 'default' not in i] + [i for i in t.cls['inputs'] if 'default' in i]
        # patterns are expanded only among the plain input_tasks
        for i in expand([i for i in eff if 'default' not in i], list(tasks), tname) + [i for i in eff if 'default' in i]:
            name = i['ref'] if i['by'] == 'name' else slug(classes[i['ref']])
            ns = t.cfg.namespace
            if ns and not name.startswith(ns + '::'): name = f'{ns}::{name}'
            if name in ins: raise BuildError('dup_input', name)
            try:
                found = find_full(name, list(tasks), determine_namespace=False)
                if i['by'] == 'name': name = found
                elif found != name: raise KeyError(name)       # by class: a homonym of another group is not the class
            except KeyError:
                if 'default' in i: ins[name] = ('default', i['default']); continue
                raise BuildError('missing_input', f'{name} of {tname}')
            ins[name] = tasks[name]
        t.inputs = ins

def key_of(t, in_keys, reprfn):
    ns = t.cfg.namespace
    ps = []
    for p in t.cls['params']:
        v = t.params[p['name']]
        if p.get('ignore'): continue
        if p.get('dpd') and 'default' in p and v == p['default']: continue
        ps.append((p['name'], reprfn(v)))
    reg = '###'.join(f'{n}={r}' for n, r in sorted(ps)) if ps else None
    ins = '###'.join(f'{(n[len(ns) + 2:] if ns else n)}={k}' for n, k in sorted(in_keys.items()))
    return hashlib.sha256(f'{reg}$$${ins}'.encode()).hexdigest()[:32]

def recreate(tasks, registry, reprfn, classes, depth_limit=300):
    new = {}
    def get(name, t, depth):
        if depth > depth_limit: raise BuildError('cyclic_or_too_deep')
        if t.fullname in new: return new[t.fullname]
        ins = {n: get(n, it, depth + 1) for n, it in t.inputs.items() if isinstance(it, T)}
        nt = T(t.cls, t.cfg, t.fullname); nt.params = t.params
        nt.in_keys = {n: it.key for n, it in ins.items()}
        nt.key = key_of(nt, nt.in_keys, reprfn)
        rk = (slug(t.cls), nt.key)
        if rk in registry: nt = registry[rk]
        else: registry[rk] = nt
        new[t.fullname] = nt
        return nt
    for name, t in tasks.items(): get(name, t, 0)
    return new

def build(fs, main, classes, ctx_src=None, gv=None, registry=None, reprfn=repr):
    ctx = prepare_ctx(fs, ctx_src, gv=gv)
    configs = {}
    process_config(fs, Cfg(fs, main, None, ctx, gv), configs)
    tasks = create_tasks(configs, classes)
    process_deps(tasks, classes)
    new = recreate(tasks, registry if registry is not None else {}, reprfn, classes)
    process_deps(new, classes)
    # acyclicity is implied by successful recreate (fuel)
    return new
