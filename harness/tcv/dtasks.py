"""Task classes, values and file classification for the data-class properties C05 and C06.

One task class per data class of taskchain.data.  What `run` returns (and where it raises) is dictated by the module global
`CTL`, set by the harness before the value is requested — in this process, in a forked child or in a fresh interpreter.
Nothing here touches /repo; the classification of stored files uses the libraries' readers directly, not taskchain."""
import json as _json
import os
from collections.abc import Generator
from pathlib import Path

import numpy as np
import pandas as pd

from taskchain import Task, Config
from taskchain.data import DirData, ContinuesData, ListOfNumpyData, GeneratedDataLazy

CTL = {'gen': 1, 'size': 3, 'fault': None, 'finish': True}
RUNS = []

KINDS = ['json', 'numpy', 'pandas', 'generated', 'generatedLazy', 'listNumpy', 'dirData', 'continues']
DIR_KINDS = ('listNumpy', 'dirData', 'continues')
EXT = {'json': 'json', 'numpy': 'npy', 'pandas': 'pd', 'generated': 'jsonl', 'generatedLazy': 'jsonl', 'figure': 'pickle'}
SIZES = {'small': 3, 'medium': 12, 'large': 3000}


class Boom(Exception):
    pass


class Unserialisable:
    """neither JSON-able nor picklable"""
    def __reduce__(self):
        raise TypeError('cannot pickle Unserialisable')


# ------------------------------------------------------------------------------------------- values

def value(kind, gen, size):
    """the value a task of this kind returns in generation `gen` (what a later chain must find, or nothing)"""
    if kind == 'json':
        return {'g': gen, 'xs': list(range(size)), 's': 'x' * size, 'n': {'k': [gen, None, True, 1.5]}}
    if kind == 'numpy':
        return np.arange(size, dtype=np.int64) * 3 + gen
    if kind == 'pandas':
        return pd.DataFrame({'a': list(range(size)), 'g': [gen] * size})
    if kind in ('generated', 'generatedLazy'):
        return [{'i': i, 'g': gen, 'pad': 'p' * (i % 7)} for i in range(size)]
    if kind == 'listNumpy':
        return [np.arange(i + 1, dtype=np.int64) + gen for i in range(size)]
    if kind == 'dirData':       # file names differ between generations: stale files of an earlier attempt would show
        return {f'g{gen}_f{i}.txt': f'{gen}:{i};' * (i + 1) for i in range(size)}
    if kind == 'continues':     # a resumed run overwrites what the interrupted one wrote
        return {f'f{i}.txt': f'{gen}:{i};' * (i + 1) for i in range(size)}
    if kind == 'figure':
        return gen
    raise ValueError(kind)


def equal(kind, a, b):
    """type-strict equality of two values of a kind"""
    try:
        if kind == 'json' or kind in ('generated', 'generatedLazy'):
            return _json_equal(a, b)
        if kind == 'numpy':
            return isinstance(a, np.ndarray) and isinstance(b, np.ndarray) and a.dtype == b.dtype and a.shape == b.shape \
                and bool(np.array_equal(a, b))
        if kind == 'pandas':
            return type(a) is type(b) and a.equals(b) and list(a.index) == list(b.index) and \
                (not isinstance(a, pd.DataFrame) or (list(a.columns) == list(b.columns) and list(a.dtypes) == list(b.dtypes)))
        if kind == 'listNumpy':
            return isinstance(a, list) and isinstance(b, list) and len(a) == len(b) and all(equal('numpy', x, y) for x, y in zip(a, b))
        if kind in ('dirData', 'continues', 'figure'):
            return a == b
    except Exception:
        return False
    raise ValueError(kind)


def _json_equal(a, b):
    if type(a) is not type(b):
        return False
    if isinstance(a, dict):
        return set(a) == set(b) and all(type(k) is str for k in a) and all(_json_equal(a[k], b[k]) for k in a)
    if isinstance(a, list):
        return len(a) == len(b) and all(_json_equal(x, y) for x, y in zip(a, b))
    if isinstance(a, float):
        return a == b and (a != 0 or str(a) == str(b))
    return a == b


def plain(kind, v):
    """what the task's `.value` denotes, as a comparable Python value (generators consumed, directories read)"""
    if kind == 'generatedLazy':
        v = v() if callable(v) else v
        return list(v)
    if kind == 'generated':
        return list(v)
    if kind in ('dirData', 'continues'):
        p = Path(v)
        return {f.name: f.read_text() for f in sorted(p.iterdir())}
    if kind == 'figure':
        return int(v.axes[0].get_title())
    return v


def plain_expected(kind, gen, size):
    """`plain` of the value of generation `gen`"""
    return value(kind, gen, size)


WRONG = {'json': {1, 2}, 'numpy': [1, 2], 'pandas': {'a': 1}, 'generated': [1, 2], 'generatedLazy': [1, 2], 'listNumpy': {'a': 1},
         'figure': 'no figure'}


def poison(kind, v, plain=False):
    """a value of the right type that the serializer of the kind cannot write"""
    if kind == 'json':
        # (an object of the harness, or — every third size — values Python programs commonly hold that JSON has no form for: a set, a path)
        if isinstance(v, dict) and plain:
            import pathlib
            return dict(v, bad={3, 1, 2}, where=pathlib.PurePosixPath('a/b'))
        return dict(v, bad=Unserialisable())
    if kind == 'numpy':
        return np.array([1, Unserialisable()], dtype=object)
    if kind == 'pandas':
        return pd.DataFrame({'a': [1, Unserialisable()]})
    if kind in ('generated', 'generatedLazy'):
        return list(v[:1]) + [Unserialisable()] + list(v[1:])
    if kind == 'listNumpy':
        # near the end: most of the arrays are written before the failure
        return list(v[:-1]) + [np.array([Unserialisable()], dtype=object)] + list(v[-1:])
    raise ValueError(kind)


# ------------------------------------------------------------------------------------------- tasks

def _run(task, kind):
    c = CTL
    RUNS.append(kind)
    fault = c.get('fault')
    if 'value' in c:                      # C06: the value is given literally (same process)
        v = c['value']
        if kind in ('dirData', 'continues'):
            d = task.get_data_object()
            for name, content in v.items():
                (d.dir / name).write_bytes(content)
            if kind == 'continues':
                d.finished()
            return d
        if kind in ('generated', 'generatedLazy') and not c.get('raw'):
            return (x for x in v)
        return v
    gen, size = c['gen'], c['size']
    if fault == 'run':
        raise Boom('run')
    if kind in ('dirData', 'continues'):
        d = task.get_data_object()
        files = value(kind, gen, size)
        for i, (n, t) in enumerate(files.items()):
            if fault == 'runMid' and i == max(1, len(files) // 2):
                raise Boom('runMid')
            (d.dir / n).write_text(t)
        if kind == 'continues' and c.get('finish', True):
            d.finished()
        if fault in ('typeCheck', 'serialise', 'serialisePy'):
            return {'not': 'a data object'}
        return d
    if fault == 'runMid':
        raise Boom('runMid')
    v = value(kind, gen, size)
    if fault == 'typeCheck':
        return WRONG[kind]
    if fault in ('serialise', 'serialisePy'):
        v = poison(kind, v, plain=(fault == 'serialisePy'))
    if kind == 'figure':
        import pylab
        fig = pylab.figure()
        fig.add_subplot(111).set_title(str(gen))
        return fig
    if kind in ('generated', 'generatedLazy'):
        def g():
            for i, x in enumerate(v):
                if fault == 'genBody' and i == max(1, len(v) // 2):
                    raise Boom('genBody')
                yield x
        return g()
    return v


class TJson(Task):
    class Meta:
        name = 'tjson'

    def run(self) -> dict:
        return _run(self, 'json')


class TNumpy(Task):
    class Meta:
        name = 'tnumpy'

    def run(self) -> np.ndarray:
        return _run(self, 'numpy')


class TPandas(Task):
    class Meta:
        name = 'tpandas'

    def run(self) -> pd.DataFrame:
        return _run(self, 'pandas')


class TGenerated(Task):
    class Meta:
        name = 'tgenerated'

    def run(self) -> Generator:
        return _run(self, 'generated')


class TLazy(Task):
    class Meta:
        name = 'tlazy'
        data_class = GeneratedDataLazy

    def run(self) -> Generator:
        return _run(self, 'generatedLazy')


class TListnp(Task):
    class Meta:
        name = 'tlistnp'
        data_class = ListOfNumpyData

    def run(self) -> list:
        return _run(self, 'listNumpy')


class TDir(Task):
    class Meta:
        name = 'tdir'

    def run(self) -> DirData:
        return _run(self, 'dirData')


class TCont(Task):
    class Meta:
        name = 'tcont'

    def run(self) -> ContinuesData:
        return _run(self, 'continues')


CLASSES = {'json': TJson, 'numpy': TNumpy, 'pandas': TPandas, 'generated': TGenerated, 'generatedLazy': TLazy,
           'listNumpy': TListnp, 'dirData': TDir, 'continues': TCont}


def figure_class():
    import pylab

    class TFigure(Task):
        class Meta:
            name = 'tfigure'

        def run(self) -> pylab.Figure:
            return _run(self, 'figure')
    return TFigure


# free-typed JSON task for C06 (str/int/float/bool/list results are JSONData too)
def json_class(pytype):
    name = f'tjson_{pytype.__name__}'

    def run(self):
        return _run(self, 'json')
    run.__annotations__ = {'return': pytype}
    return type(f'TJson_{pytype.__name__}', (Task,), {'run': run, 'Meta': type('Meta', (), {'name': name})})


def series_class():
    class TSeries(Task):
        class Meta:
            name = 'tseries'

        def run(self) -> pd.Series:
            return _run(self, 'pandas')
    return TSeries


def make_task(kind, root, cls=None):
    cls = cls or (figure_class() if kind == 'figure' else CLASSES[kind])
    chain = Config(Path(root), name='c', data={'tasks': [cls]}).chain()
    return chain[cls.slugname]


# ------------------------------------------------------------------------------------------- locations

def role_paths(kind, root, task):
    """path roles of the task's storage location — computed here, not through the data object (which would create directories)"""
    base = Path(root) / task.slugname.replace(':', '/')
    key = task.name_for_persistence
    ext = EXT.get(kind)
    dot = f'.{ext}' if ext else ''
    return {
        'final': base / f'{key}{dot}', 'tmp': base / f'{key}_tmp{dot}', 'old': base / f'{key}_old', 'error': base / f'{key}_error',
        'log': base / f'{key}.log', 'runinfo': base / f'{key}.run_info.yaml',
    }


def read_stored(kind, path):
    """load a stored result with the library reader (not through taskchain)"""
    import orjson
    path = Path(path)
    if kind == 'json':
        return orjson.loads(path.read_bytes())
    if kind == 'numpy':
        return np.load(str(path), allow_pickle=False)
    if kind == 'pandas':
        return pd.read_pickle(path)
    if kind in ('generated', 'generatedLazy'):
        raw = path.read_bytes()
        if raw and not raw.endswith(b'\n'):
            raise ValueError('no final newline')
        return [orjson.loads(l) for l in raw.split(b'\n')[:-1]]
    if kind == 'listNumpy':
        files = sorted(path.glob('*.npy'), key=lambda f: int(f.name.split('.')[0]))
        if [f.name for f in files] != [f'{i}.npy' for i in range(len(files))] or len(list(path.iterdir())) != len(files):
            raise ValueError('gaps')
        return [np.load(str(f), allow_pickle=False) for f in files]
    if kind in ('dirData', 'continues'):
        return {f.name: f.read_text() for f in sorted(path.iterdir())}
    if kind == 'figure':
        import pickle
        return int(pickle.load(path.open('rb')).axes[0].get_title())
    raise ValueError(kind)


def classify_node(kind, role, path, gens, size):
    """absent | file:<gen>|file:empty|file:torn | dir:<gen>|dir:partial  (log/runinfo: absent|present)"""
    path = Path(path)
    if not path.exists() and not path.is_symlink():
        return 'absent'
    if role in ('log', 'runinfo'):
        return 'present' if path.is_file() else 'dir:partial'
    if path.is_dir():
        for g in gens:
            try:
                if kind in DIR_KINDS and equal(kind, read_stored(kind, path), value(kind, g, size)):
                    return f'dir:{g}'
            except Exception:
                pass
        return 'dir:partial'
    if path.stat().st_size == 0:
        return 'file:empty'
    for g in gens:
        try:
            if kind not in DIR_KINDS and equal(kind, read_stored(kind, path), value(kind, g, size)):
                return f'file:{g}'
        except Exception:
            pass
    return 'file:torn'


def classify(kind, root, task, gens, size):
    rp = role_paths(kind, root, task)
    st = {r: classify_node(kind, r, p, gens, size) for r, p in rp.items()}
    known = {p.name for p in rp.values()}
    base = rp['final'].parent
    extra = sorted(p.name for p in base.iterdir() if p.name not in known) if base.exists() else []
    if kind == 'figure':
        extra = [e for e in extra if not e.endswith(('.png', '.svg'))]
    return st, extra
