"""File-operation tracing, crash injection and process isolation for C05.

A *worker* (`python -m tcv.fsx worker`) imports taskchain and the task classes once, installs an audit hook and then executes
*steps* sent as JSON lines.  Every step that touches taskchain runs in a forked child (a new process that has built no chain,
holds no data object and shares nothing but imported modules with other steps) or, on request (`"fresh": true`), in a freshly
started interpreter — the two are compared by the check.  A child can be killed with `os._exit` from inside the audit hook
immediately before its k-th file operation."""
import json
import os
import subprocess
import sys
import threading
from pathlib import Path

WATCH = ('open', 'os.rename', 'os.remove', 'os.mkdir', 'os.rmdir', 'shutil.rmtree', 'shutil.move', 'os.truncate', 'shutil.copyfile',
         'shutil.copytree', 'os.symlink', 'os.link')

STATE = {'active': False, 'root': None, 'events': [], 'crash_at': None, 'in_rmtree': 0}


def _is_write_open(args):
    mode, flags = args[1], args[2]
    if isinstance(flags, int) and flags & (os.O_WRONLY | os.O_RDWR | os.O_CREAT | os.O_TRUNC | os.O_APPEND):
        return True
    return isinstance(mode, str) and any(c in mode for c in 'wax+')


def _hook(ev, args):
    st = STATE
    if not st['active'] or ev not in WATCH:
        return
    try:
        if ev == 'open':
            if not isinstance(args[0], (str, bytes, os.PathLike)) or not _is_write_open(args):
                return
        a = []
        for x in (args[:1] if ev == 'open' else args[:2]):
            a.append(os.fsdecode(x) if isinstance(x, (str, bytes, os.PathLike)) else x)
        root = st['root']
        paths = [x for x in a if isinstance(x, str)]
        inside = any(p.startswith(root) for p in paths)
        rel_child = ev in ('os.remove', 'os.rmdir') and paths and not os.path.isabs(paths[0]) and st['in_rmtree']
        if not inside and not rel_child:
            return
        rec = [ev] + [(p[len(root):].lstrip('/') if p.startswith(root) else ('./' + p)) for p in paths]
        if ev == 'shutil.rmtree':
            st['in_rmtree'] += 1
        k = len(st['events'])
        st['events'].append(rec)
        if st['crash_at'] is not None and k == st['crash_at']:
            os._exit(9)
    except Exception:       # never let the tracer change behaviour
        pass


_installed = [False]


def install():
    if not _installed[0]:
        sys.addaudithook(_hook)
        _installed[0] = True


# ------------------------------------------------------------------------------------------- steps (run inside a child)

def _quiet():
    from tcv.quiet import quiet
    quiet()


def step_request(step):
    """request the value of the task once; report outcome, events, run count"""
    from tcv import dtasks
    _quiet()
    kind, root = step['kind'], step['root']
    dtasks.CTL = dict(step['ctl'])
    dtasks.RUNS.clear()
    task = dtasks.make_task(kind, root)
    if step.get('forced'):
        task.force()
    if step.get('delete'):
        STATE.update(active=True, root=str(root), events=[], crash_at=step.get('crash_at'), in_rmtree=0)
        try:
            task.force(delete_data=True)
        finally:
            STATE['active'] = False
        return {'outcome': 'deleted', 'events': STATE['events'], 'runs': 0}
    STATE.update(active=True, root=str(root), events=[], crash_at=step.get('crash_at'), in_rmtree=0)
    out = {}
    try:
        v = task.value
        STATE['active'] = False
        pv = dtasks.plain(kind, v)
        out['outcome'] = 'ok'
        out['value_gen'] = _which_gen(kind, pv, step)
    except dtasks.Boom as e:
        STATE['active'] = False
        out['outcome'] = 'raise'; out['exc'] = f'Boom:{e}'
        out['data_reset'] = task._data is None
    except Exception as e:  # noqa
        STATE['active'] = False
        out['outcome'] = 'raise'; out['exc'] = type(e).__name__
        out['data_reset'] = task._data is None
    STATE['active'] = False
    out['events'] = STATE['events']
    out['runs'] = len(dtasks.RUNS)
    return out


def _which_gen(kind, pv, step):
    from tcv import dtasks
    for g in step.get('gens', [1, 2, 3, 4, 5, 6]):
        if dtasks.equal(kind, pv, dtasks.plain_expected(kind, g, step['ctl']['size'])):
            return g
    return None


def step_snapshot(step):
    from tcv import dtasks
    _quiet()
    task = dtasks.make_task(step['kind'], step['root'])
    st, extra = dtasks.classify(step['kind'], step['root'], task, step.get('gens', [1, 2, 3, 4, 5, 6]), step['size'])
    return {'state': st, 'extra': extra}


def step_observe(step):
    """a later chain: has_data, value (or the exception), run count; then a second request on a new chain object"""
    from tcv import dtasks
    _quiet()
    kind, root = step['kind'], step['root']
    dtasks.CTL = dict(step['ctl'])
    dtasks.RUNS.clear()
    out = {}
    task = dtasks.make_task(kind, root)
    STATE.update(active=True, root=str(root), events=[], crash_at=None, in_rmtree=0)
    try:
        out['has_data'] = bool(task.has_data)
    except Exception as e:  # noqa
        out['has_data'] = f'raise:{type(e).__name__}'
    out['has_data_events'] = list(STATE['events'])
    STATE['events'] = []
    try:
        pv = dtasks.plain(kind, task.value)
        out['value_gen'] = _which_gen(kind, pv, step)
        out['outcome'] = 'ok'
    except Exception as e:  # noqa
        out['outcome'] = 'raise'; out['exc'] = type(e).__name__
    STATE['active'] = False
    out['events'] = STATE['events']
    out['runs'] = len(dtasks.RUNS)
    st, extra = dtasks.classify(kind, root, task, step.get('gens', [1, 2, 3, 4, 5, 6]), step['ctl']['size'])
    out['state_after'] = st
    # second request, new chain object
    task2 = dtasks.make_task(kind, root)
    try:
        out['has_data2'] = bool(task2.has_data)
        pv = dtasks.plain(kind, task2.value)
        out['value_gen2'] = _which_gen(kind, pv, step)
        out['outcome2'] = 'ok'
    except Exception as e:  # noqa
        out['outcome2'] = 'raise'; out['exc2'] = type(e).__name__
    out['runs2'] = len(dtasks.RUNS)
    # third request: forced recomputation over whatever is there now
    dtasks.CTL = dict(step['ctl'], gen=step['ctl']['gen'] + 1)
    task3 = dtasks.make_task(kind, root)
    try:
        pv = dtasks.plain(kind, task3.force().value)
        out['value_gen3'] = _which_gen(kind, pv, step)
        out['outcome3'] = 'ok'
    except Exception as e:  # noqa
        out['outcome3'] = 'raise'; out['exc3'] = type(e).__name__
    out['state_after3'] = dtasks.classify(kind, root, task3, step.get('gens', [1, 2, 3, 4, 5, 6]), step['ctl']['size'])[0]
    return out


def step_truncate(step):
    """torn write: keep only a prefix of the file that was being written"""
    p = Path(step['path'])
    if p.is_file():
        n = p.stat().st_size
        cut = int(n * step['frac'])
        cut = max(0, min(n - 1 if step['frac'] < 1 else n, cut))
        with open(p, 'r+b') as f:
            f.truncate(cut)
        return {'size': n, 'cut': cut}
    return {'size': None}


STEPS = {'request': step_request, 'snapshot': step_snapshot, 'observe': step_observe, 'truncate': step_truncate}


def run_step_forked(step):
    r, w = os.pipe()
    pid = os.fork()
    if pid == 0:
        code = 0
        try:
            os.close(r)
            res = STEPS[step['do']](step)
            with os.fdopen(w, 'w') as f:
                f.write(json.dumps(res, default=str))
        except BaseException as e:  # noqa
            try:
                import traceback
                os.write(2, traceback.format_exc().encode())
            except Exception:
                pass
            code = 3
        os._exit(code)
    os.close(w)
    with os.fdopen(r) as f:
        data = f.read()
    _, status = os.waitpid(pid, 0)
    code = os.waitstatus_to_exitcode(status)
    if code == 9:
        return {'crashed': True}
    if code != 0 or not data:
        return {'error': f'child exit {code}'}
    return json.loads(data)


def run_step_fresh(step):
    env = dict(os.environ)
    r = subprocess.run([sys.executable, '-m', 'tcv.fsx', 'step'], input=json.dumps(step), capture_output=True, text=True, env=env)
    if r.returncode == 9:
        return {'crashed': True}
    if r.returncode != 0:
        return {'error': f'fresh interpreter exit {r.returncode}: {r.stderr[-500:]}'}
    return json.loads(r.stdout.strip().split('\n')[-1])


def run_step(step):
    if step['do'] == 'truncate':
        return step_truncate(step)
    if step.get('fresh'):
        return run_step_fresh(step)
    return run_step_forked(step)


def worker_main():
    import warnings
    warnings.filterwarnings('ignore')
    _quiet()
    from tcv import dtasks  # noqa  (imports taskchain, numpy, pandas once)
    install()
    out = sys.stdout
    for line in sys.stdin:
        line = line.strip()
        if not line:
            continue
        job = json.loads(line)
        results = []
        for step in job['steps']:
            try:
                results.append(run_step(step))
            except Exception as e:  # noqa
                results.append({'error': f'{type(e).__name__}: {e}'})
        out.write(json.dumps({'id': job['id'], 'results': results}) + '\n')
        out.flush()


def step_main():
    import warnings
    warnings.filterwarnings('ignore')
    step = json.loads(sys.stdin.read())
    install()
    res = STEPS[step['do']](step)
    sys.stdout.write('\n' + json.dumps(res, default=str) + '\n')
    sys.stdout.flush()
    os._exit(0)


# ------------------------------------------------------------------------------------------- pool (used by the harness)

class Pool:
    """N worker processes; `map(jobs)` distributes jobs (lists of steps) and returns results in job order"""

    def __init__(self, n, repo_src, harness_dir):
        env = dict(os.environ)
        env['PYTHONPATH'] = os.pathsep.join([str(repo_src), str(harness_dir)] + ([env['PYTHONPATH']] if env.get('PYTHONPATH') else []))
        env['TQDM_DISABLE'] = '1'
        env.setdefault('MPLBACKEND', 'Agg')
        env['OPENBLAS_NUM_THREADS'] = '1'; env['OMP_NUM_THREADS'] = '1'
        self.env = env
        self.procs = [subprocess.Popen([sys.executable, '-m', 'tcv.fsx', 'worker'], stdin=subprocess.PIPE, stdout=subprocess.PIPE,
                                       stderr=subprocess.DEVNULL, text=True, env=env, bufsize=1) for _ in range(n)]

    def map(self, jobs, timeout=600):
        results = [None] * len(jobs)
        lock = threading.Lock()
        it = iter(range(len(jobs)))
        errors = []

        def feed(proc):
            while True:
                with lock:
                    i = next(it, None)
                if i is None:
                    return
                try:
                    proc.stdin.write(json.dumps({'id': i, 'steps': jobs[i]}) + '\n')
                    proc.stdin.flush()
                    line = proc.stdout.readline()
                    if not line:
                        errors.append(f'worker died on job {i}')
                        return
                    results[i] = json.loads(line)['results']
                except Exception as e:  # noqa
                    errors.append(f'{type(e).__name__}: {e}')
                    return
        threads = [threading.Thread(target=feed, args=(p,), daemon=True) for p in self.procs]
        for t in threads:
            t.start()
        for t in threads:
            t.join(timeout)
        if errors or any(r is None for r in results):
            raise RuntimeError(f'worker pool failure: {errors[:3]}')
        return results

    def close(self):
        for p in self.procs:
            try:
                p.stdin.close()
            except Exception:
                pass
        for p in self.procs:
            try:
                p.wait(timeout=10)
            except Exception:
                p.kill()


if __name__ == '__main__':
    if sys.argv[1:] == ['worker']:
        worker_main()
    elif sys.argv[1:] == ['step']:
        step_main()
